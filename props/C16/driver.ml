(* C16 model driver: evaluates the extracted IntegrateModel at floats on case lines from stdin
   (same case syntax as props/C16/unit.cpp). *)
open Model
open X_fops

let hexs l = String.concat " " (List.map hex l)
let rec nat_of_int n = if n <= 0 then O else S (nat_of_int (n - 1))

(* a total function from index pairs/triples backed by a row-major array (0 outside) *)
let fun2 (ny : int) (a : float array) : (z * z) -> float =
  fun (i, j) -> let k = int_of_z i * ny + int_of_z j in if k >= 0 && k < Array.length a then a.(k) else 0.0
let fun3 (ny : int) (nz : int) (a : float array) : ((z * z) * z) -> float =
  fun ((i, j), k) -> let q = (int_of_z i * ny + int_of_z j) * nz + int_of_z k in
    if q >= 0 && q < Array.length a then a.(q) else 0.0

let () =
  try
    while true do
      let line = input_line stdin in
      let w = Array.of_list (words line) in
      if Array.length w > 0 then begin
        let p = ref 1 in
        let next () = let s = w.(!p) in Stdlib.incr p; s in
        let nf () = fl (next ()) in
        let ni () = int_of_string (next ()) in
        let nb () = ni () <> 0 in
        (match w.(0) with
         | "ONED" ->
           let per = nb () in let hs = nb () in let sm = nb () in
           let mins = ni () in let fulls = ni () in let n = ni () in
           let wd = nf () in
           let gd = List.init n (fun _ -> nf ()) in
           let gc = List.init n (fun _ -> z_of_int (ni ())) in
           let sc = { s_has_samples = hs; s_min = z_of_int mins; s_full = z_of_int fulls } in
           let r = integrate1 fops sc per sm wd gd gc in
           Printf.printf "%d %s\n" (List.length r) (hexs r)
         | "TI1D" | "TI1DG" ->
           let per = nb () in let hs = nb () in
           let mins = ni () in let fulls = ni () in let n = ni () in
           let wd = nf () in
           let gd = List.init n (fun _ -> nf ()) in
           let gc = List.init n (fun _ -> z_of_int (ni ())) in
           let sc = { s_has_samples = hs; s_min = z_of_int mins; s_full = z_of_int fulls } in
           let r = ti_integral1 fops sc per wd gd gc in
           Printf.printf "%d %s\n" (List.length r) (hexs r)
         | "DIV" | "SOLVE" | "SOLVE2" ->
           let solve = (w.(0) <> "DIV") in
           let twice = (w.(0) = "SOLVE2") in
           let nd = ni () in
           let per = Array.init nd (fun _ -> nb ()) in
           let nxg = Array.init nd (fun _ -> ni ()) in
           let wd = Array.init nd (fun _ -> nf ()) in
           let hs = nb () in let sm = nb () in let mins = ni () in let fulls = ni () in
           let npre = ni () in let nev = ni () in
           let sc = { s_has_samples = hs; s_min = z_of_int mins; s_full = z_of_int fulls } in
           if nd = 2 then begin
             let sh = { px = per.(0); py = per.(1); nxg = z_of_int nxg.(0); nyg = z_of_int nxg.(1); wx = wd.(0); wy = wd.(1) } in
             let ev _ = let b0 = ni () in let b1 = ni () in let f0 = nf () in let f1 = nf () in
               ((z_of_int b0, z_of_int b1), (f0, f1)) in
             let pre = List.init npre ev in
             let evs = List.init nev ev in
             let st0 = preload2 fops (init2 fops) pre in
             let st0 = if npre > 0 then set_div2 fops sc sm sh st0 else st0 in
             let st = run2 fops sc sm sh st0 evs in
             let inc = dump2 sh st.dv2 in
             let stb = set_div2 fops sc sm sh st in
             let bat = dump2 sh stb.dv2 in
             if not solve then Printf.printf "%d %s | %s\n" (List.length inc) (hexs inc) (hexs bat)
             else begin
               let itmax = ni () in let tol = nf () in
               let ((x, _), (iter, err)) = integrate2 fops sh (nat_of_int itmax) tol stb.dv2 (fun _ -> 0.0) (-1.0) in
               let ((x, _), (iter, err)) = if twice then integrate2 fops sh (nat_of_int itmax) tol stb.dv2 x err else ((x, x), (iter, err)) in
               Printf.printf "%d %d %s | %s | %s\n" (List.length bat) (int_of_z iter) (hex err) (hexs bat) (hexs (dump2 sh x))
             end
           end else begin
             let sh = { qx = per.(0); qy = per.(1); qz = per.(2); mxg = z_of_int nxg.(0); myg = z_of_int nxg.(1);
                        mzg = z_of_int nxg.(2); vx = wd.(0); vy = wd.(1); vz = wd.(2) } in
             let ev _ = let b0 = ni () in let b1 = ni () in let b2 = ni () in
               let f0 = nf () in let f1 = nf () in let f2 = nf () in
               (((z_of_int b0, z_of_int b1), z_of_int b2), ((f0, f1), f2)) in
             let pre = List.init npre ev in
             let evs = List.init nev ev in
             let st0 = preload3 fops (init3 fops) pre in
             let st0 = if npre > 0 then set_div3 fops sc sm sh st0 else st0 in
             let st = run3 fops sc sm sh st0 evs in
             let inc = dump3 sh st.dv3 in
             let stb = set_div3 fops sc sm sh st in
             let bat = dump3 sh stb.dv3 in
             if not solve then Printf.printf "%d %s | %s\n" (List.length inc) (hexs inc) (hexs bat)
             else begin
               let itmax = ni () in let tol = nf () in
               let ((x, _), (iter, err)) = integrate3 fops sh (nat_of_int itmax) tol stb.dv3 (fun _ -> 0.0) (-1.0) in
               let ((x, _), (iter, err)) = if twice then integrate3 fops sh (nat_of_int itmax) tol stb.dv3 x err else ((x, x), (iter, err)) in
               Printf.printf "%d %d %s | %s | %s\n" (List.length bat) (int_of_z iter) (hex err) (hexs bat) (hexs (dump3 sh x))
             end
           end
         | "DIVSTATE" ->
           (* DIVSTATE nd per(nd) nxg(nd) w(nd) | sums(nt*nd) | counts(nt): set_div of a given gradient/count state *)
           let nd = ni () in
           let per = Array.init nd (fun _ -> nb ()) in
           let nxg = Array.init nd (fun _ -> ni ()) in
           let wd = Array.init nd (fun _ -> nf ()) in
           let _ = next () in
           let nt = Array.fold_left ( * ) 1 nxg in
           let sums = Array.init (nt * nd) (fun _ -> nf ()) in
           let _ = next () in
           let cnts = Array.init nt (fun _ -> ni ()) in
           let sc = { s_has_samples = true; s_min = z_of_int 0; s_full = z_of_int 1 } in
           if nd = 2 then begin
             let sh = { px = per.(0); py = per.(1); nxg = z_of_int nxg.(0); nyg = z_of_int nxg.(1); wx = wd.(0); wy = wd.(1) } in
             let addr (i, j) = let i = int_of_z i and j = int_of_z j in
               if i >= 0 && i < nxg.(0) && j >= 0 && j < nxg.(1) then i * nxg.(1) + j else -1 in
             let st = { gsum2 = (fun p -> let k = addr p in if k < 0 then (0.0, 0.0) else (sums.(2 * k), sums.(2 * k + 1)));
                        gcnt2 = (fun p -> let k = addr p in if k < 0 then z_of_int 0 else z_of_int cnts.(k));
                        dv2 = (fun _ -> 0.0) } in
             let bat = dump2 sh (set_div2 fops sc false sh st).dv2 in
             Printf.printf "%d %s\n" (List.length bat) (hexs bat)
           end else begin
             let sh = { qx = per.(0); qy = per.(1); qz = per.(2); mxg = z_of_int nxg.(0); myg = z_of_int nxg.(1);
                        mzg = z_of_int nxg.(2); vx = wd.(0); vy = wd.(1); vz = wd.(2) } in
             let addr ((i, j), k) = let i = int_of_z i and j = int_of_z j and k = int_of_z k in
               if i >= 0 && i < nxg.(0) && j >= 0 && j < nxg.(1) && k >= 0 && k < nxg.(2) then (i * nxg.(1) + j) * nxg.(2) + k else -1 in
             let st = { gsum3 = (fun p -> let k = addr p in if k < 0 then ((0.0, 0.0), 0.0) else ((sums.(3 * k), sums.(3 * k + 1)), sums.(3 * k + 2)));
                        gcnt3 = (fun p -> let k = addr p in if k < 0 then z_of_int 0 else z_of_int cnts.(k));
                        dv3 = (fun _ -> 0.0) } in
             let bat = dump3 sh (set_div3 fops sc false sh st).dv3 in
             Printf.printf "%d %s\n" (List.length bat) (hexs bat)
           end
         | "ATIMES" ->
           let nd = ni () in
           let per = Array.init nd (fun _ -> nb ()) in
           let nxp = Array.init nd (fun _ -> ni ()) in
           let nxg = Array.init nd (fun i -> if per.(i) then nxp.(i) else nxp.(i) - 1) in
           let wd = Array.init nd (fun _ -> nf ()) in
           let nt = Array.fold_left ( * ) 1 nxp in
           let a = Array.init nt (fun _ -> nf ()) in
           if nd = 2 && not (shape_ok2 { px = per.(0); py = per.(1); nxg = z_of_int nxg.(0); nyg = z_of_int nxg.(1); wx = wd.(0); wy = wd.(1) }) then
             Printf.printf "REFUSED\n"
           else if nd = 3 && not (shape_ok3 { qx = per.(0); qy = per.(1); qz = per.(2); mxg = z_of_int nxg.(0); myg = z_of_int nxg.(1);
                        mzg = z_of_int nxg.(2); vx = wd.(0); vy = wd.(1); vz = wd.(2) }) then
             Printf.printf "REFUSED\n"
           else if nd = 2 then begin
             let sh = { px = per.(0); py = per.(1); nxg = z_of_int nxg.(0); nyg = z_of_int nxg.(1); wx = wd.(0); wy = wd.(1) } in
             let af = fun2 nxp.(1) a in
             let r = List.map (atimes2 fops sh af) (all_ix2 sh) in
             (* the loop-by-loop model on the flat array, started from an LA full of sentinels *)
             let aflat = fun k -> let q = int_of_z k in if q >= 0 && q < nt then a.(q) else 0.0 in
             let la = atimes2_loops fops sh aflat (fun _ -> -7.25) in
             let rl = List.init nt (fun q -> la (z_of_int q)) in
             Printf.printf "%d %s | %s\n" (List.length r) (hexs r) (hexs rl)
           end else begin
             let sh = { qx = per.(0); qy = per.(1); qz = per.(2); mxg = z_of_int nxg.(0); myg = z_of_int nxg.(1);
                        mzg = z_of_int nxg.(2); vx = wd.(0); vy = wd.(1); vz = wd.(2) } in
             let af = fun3 nxp.(1) nxp.(2) a in
             let r = List.map (atimes3 fops sh af) (all_ix3 sh) in
             Printf.printf "%d %s\n" (List.length r) (hexs r)
           end
         | _ -> Printf.printf "?\n")
      end
    done
  with End_of_file -> ()
