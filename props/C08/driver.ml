(* C08 model driver: evaluates the extracted ModuleModel at floats on case lines from stdin.
   RUN fixed efix natoms it0 nv tsf.. nb {id tsf nvars var.. kind params} nev {event}
     kind params: H k {c w}.. | L k {c w}.. | W k {u w}.. | A k stop dec | G | C e ; then the scaling grid: S lo w n v.. | N
     event: S|R nv {ncvc {coeff np val ng {atom gx gy gz}..}..}..   |   X id on  (set active)  |   Y id on  (set apply_force)
   -> one line, one record per calc() separated by " ; ":
     it= err= E= V=act,rc,awake,apply,arc,x,fb,fba,f|.. B=act,rc,awake,E,F:F..,REF|.. A=fx,fy,fz|.. *)
open Model
open X_fops

let rec nat_of_int n = if n <= 0 then O else S (nat_of_int (n - 1))
let rec int_of_nat = function O -> 0 | S k -> 1 + int_of_nat k
let b2s b = if b then "1" else "0"

let () =
  try
    while true do
      let line = input_line stdin in
      let w = Array.of_list (words line) in
      if Array.length w > 0 then begin
        let p = ref 1 in
        let next () = let s = w.(!p) in Stdlib.incr p; s in
        let nf () = fl (next ()) in
        let ni () = int_of_string (next ()) in
        let nb () = ni () <> 0 in
        let nz () = z_of_int (ni ()) in
        let nn () = nat_of_int (ni ()) in
        let nlist n f = List.init n (fun _ -> f ()) in
        (match w.(0) with
         | "RUN" ->
           let fixed = nb () in let efix = nb () in
           let natoms = ni () in
           let it0 = nz () in
           let nv = ni () in
           let tsfs = nlist nv nz in
           let nbias = ni () in
           let biases = nlist nbias (fun () ->
               let id = nn () in let tsf = nz () in
               let nvars = ni () in let vars = nlist nvars nn in
               let pairs () = nlist nvars (fun () -> let c = nf () in let wd = nf () in (c, wd)) in
               let kd = (match next () with
                   | "H" -> let k = nf () in KHarmonic (k, pairs ())
                   | "L" -> let k = nf () in KLinear (k, pairs ())
                   | "W" -> let k = nf () in KWallUp (k, pairs ())
                   | "A" -> let k = nf () in let st = nf () in let d = nb () in KAbmd (k, st, d)
                   | "G" -> KHistogram
                   | _ -> KConst (nf ())) in
               let grid = (match next () with
                   | "S" -> let lo = nf () in let wd = nf () in let n = ni () in let vals = nlist n nf in Some ((lo, wd), vals)
                   | _ -> None) in
               ((((id, tsf), vars), kd), grid)) in
           let nev = ni () in
           let vars_in () =
             let n = ni () in
             nlist n (fun () ->
                 let nc = ni () in
                 nlist nc (fun () ->
                     let coeff = nf () in let np = nn () in let v = nf () in
                     let ng = ni () in
                     let gs = List.concat (nlist ng (fun () ->
                         let a = ni () in let gx = nf () in let gy = nf () in let gz = nf () in
                         [(nat_of_int (3 * a), gx); (nat_of_int (3 * a + 1), gy); (nat_of_int (3 * a + 2), gz)])) in
                     { ci_coeff = coeff; ci_np = np; ci_val = v; ci_grads = gs })) in
           let evs = nlist nev (fun () ->
               match next () with
               | "S" -> EStep (vars_in ())
               | "R" -> ERepeat (vars_in ())
               | "Y" -> let id = nn () in let on = nb () in ESetApply (id, on)
               | _ -> let id = nn () in let on = nb () in ESetActive (id, on)) in
           let outs = run_kinds fops fixed efix it0 tsfs biases evs in
           let show o =
             let vs = String.concat "|" (List.map (fun v ->
                 Printf.sprintf "%s,%d,%s,%s,%d,%s,%s,%s,%s" (b2s v.v_active) (int_of_z v.v_rc) (b2s v.v_awake)
                   (b2s v.v_apply) (int_of_z v.v_arc) (hex v.v_x) (hex v.v_fb) (hex v.v_fba) (hex v.v_f)) o.o_vars) in
             let bs = String.concat "|" (List.map (fun b ->
                 Printf.sprintf "%s,%d,%s,%s,%s,%s,%s" (b2s b.b_active) (int_of_z b.b_rc) (b2s b.b_awake) (hex b.b_energy)
                   (if b.b_forces = [] then "-" else String.concat ":" (List.map hex b.b_forces))
                   (if fst b.b_st then hex (snd b.b_st) else "-") (b2s b.b_apply)) o.o_biases) in
             let at = String.concat "|" (List.init natoms (fun a ->
                 let c q = hex (coord_force fops o.o_vars (nat_of_int (3 * a + q))) in
                 Printf.sprintf "%s,%s,%s" (c 0) (c 1) (c 2))) in
             Printf.sprintf "it=%d err=%s E=%s V=%s B=%s A=%s" (int_of_z o.o_it) (b2s o.o_err) (hex o.o_energy)
               (if vs = "" then "-" else vs) (if bs = "" then "-" else bs) (if at = "" then "-" else at) in
           Printf.printf "%s\n" (String.concat " ; " (List.map show outs))
         | "TF" ->
           (* TF lagged sub n {s f} -> reported total forces *)
           let lagged = nb () in let sub = nb () in let n = ni () in
           let hist = nlist n (fun () -> let sv = nf () in let fv = nf () in (sv, fv)) in
           let tr = tf_trace fops lagged sub None 0.0 hist in
           Printf.printf "%s\n" (String.concat " " (List.map hex tr))
         | "JAC" ->
           (* JAC scaled n hide apply fb fba fj -> colvar::f *)
           let sc = nb () in let n = nz () in let hd = nb () in let ap = nb () in
           let fb = nf () in let fba = nf () in let fj = nf () in
           Printf.printf "%s\n" (hex (jac_force fops sc n hd ap fb fba fj))
         | "TFR" ->
           (* TFR late lagged sub n {s fb fba} -> reported total forces (applied force split fb / fb_actual) *)
           let late = nb () in let lagged = nb () in let sub = nb () in let n = ni () in
           let hist = nlist n (fun () -> let sv = nf () in let b1 = nf () in let b2 = nf () in (sv, (b1, b2))) in
           let tr = tf_trace_routed fops late lagged sub None 0.0 hist in
           Printf.printf "%s\n" (String.concat " " (List.map hex tr))
         | _ -> Printf.printf "?\n")
      end
    done
  with End_of_file -> ()
