# C08: bias contributions superpose; multiple-time-step scaling conserves impulse.
import os, sys, json, re
from fractions import Fraction as Fr
import vcommon as V

PROP = "coq/C08/Properties_C08.v"
EXTRACT = "coq/C08/Extract_C08.v"
DRIVER = "props/C08/driver.ml"
PROGS = {"c08unit": ["props/C08/unit.cpp"]}
TOL = 1e-9
AXES = [(1, 0, 0), (0, 1, 0), (0, 0, 1)]

# behaviour of the tree the model describes (the two fix: commits of branch fix-C08)
FIXED = True      # awake schedule: a bias/variable with factor n is asleep at a first step that is not a multiple of n
EFIX = True       # energy of a bias that applies no force is not reported to the engine


_SCALE = [1.0]     # magnitude of the forces/energies of the scenario being compared (force constants scaled by 2^-27 .. 2^27)


def close(a, b, tol=TOL):
    return abs(a - b) <= tol * max(_SCALE[0], abs(a), abs(b))


def hx(x):
    return V.hexf(float(x))


def fr(x):
    return Fr(x)


# ------------------------------------------------------------------ scenario -> config text
def colvar_block(i, v):
    L = ["colvar {", "  name v%d" % i, "  width %r" % v["w"]]
    if not v.get("vec"):      # boundaries are for scalar variables only
        L += ["  lowerBoundary %r" % v.get("lo", -32), "  upperBoundary %r" % v.get("hi", 32)]
    if v["tsf"] != 1:
        L.append("  timeStepFactor %d" % v["tsf"])
    if v.get("extra"):
        L += ["  " + x for x in v["extra"]]
    if v.get("dist"):
        L += ["  distance {", "    group1 { atomNumbers %d }" % (v["dist"][0] + 1), "    group2 { atomNumbers %d }" % (v["dist"][1] + 1), "  }"]
    if v.get("vec"):
        L += ["  distanceVec {"] + (["    componentCoeff %r" % v["vec"]["coeff"]] if v["vec"].get("coeff", 1.0) != 1.0 else []) + [
              "    group1 { atomNumbers %s }" % " ".join(str(a + 1) for a in v["vec"]["g1"]),
              "    group2 { atomNumbers %s }" % " ".join(str(a + 1) for a in v["vec"]["g2"]), "  }"]
    for c in v["comps"]:
        L += ["  distanceZ {"]
        if c["coeff"] != 1.0:
            L.append("    componentCoeff %r" % c["coeff"])
        if c["np"] != 1:
            L.append("    componentExp %d" % c["np"])
        L.append("    main { atomNumbers %s }" % " ".join(str(a + 1) for a in c["main"]))
        if c["ref"]:
            L.append("    ref { atomNumbers %s }" % " ".join(str(a + 1) for a in c["ref"]))
        else:
            L.append("    ref { dummyAtom (0,0,0) }")
        L.append("    axis (%d,%d,%d)" % AXES[c["axis"]])
        if c.get("onesite"):
            L.append("    oneSiteTotalForce on")
        L.append("  }")
    L.append("}")
    return L


def vecs(l):
    return " ".join("%r" % float(x) for x in l)


def bias_block(sc, j):
    b = sc["biases"][j]
    kw = {"H": "harmonic", "L": "linear", "W": "harmonicWalls", "A": "abmd", "G": "histogram", "F": "abf", "FA": "abf"}[b["kind"]]
    L = [kw + " {", "  name b%d" % j, "  colvars " + " ".join("v%d" % i for i in b["vars"])]
    if b["tsf"] != 1:
        L.append("  timeStepFactor %d" % b["tsf"])
    if b.get("vcenter"):
        L += ["  centers (%r, %r, %r)" % tuple(float(x) for x in b["vcenter"]), "  forceConstant %r" % b["k"]]
    elif b["kind"] in ("H", "L"):
        L += ["  centers " + vecs(b["centers"]), "  forceConstant %r" % b["k"]]
    elif b["kind"] == "W":
        L += ["  upperWalls " + vecs(b["centers"]), "  forceConstant %r" % b["k"]]
    elif b["kind"] == "A":
        L += ["  forceConstant %r" % b["k"], "  stoppingValue %r" % b["stop"], "  decreasing %s" % ("on" if b["dec"] else "off")]
    elif b["kind"] == "F":
        L += ["  applyBias off", "  fullSamples 1"]
    elif b["kind"] == "FA":
        L += ["  fullSamples %d" % b.get("full", 2)] + (["  hideJacobian on"] if b.get("hidej") else [])
    if b.get("grid"):
        L += ["  scaledBiasingForce on", "  scaledBiasingForceFactorsGrid sf_%d_%d.dat" % (sc["id"], j)]
    L.append("}")
    return L


RANK = {"F": 0, "FA": 0, "A": 1, "H": 3, "W": 4, "G": 5, "L": 7}


def impl_order(sc, subset):
    """the module keeps its biases in the order in which it parses the bias types (abf, abmd, ALB, harmonic,
    harmonicWalls, histogram, histogramRestraint, linear, ...), not in the order of the configuration"""
    return sorted(subset, key=lambda j: (RANK[sc["biases"][j]["kind"]], j))


def config_text(sc, subset, scripted=False, reverse=False):
    L = ["scriptedColvarForces on"] if scripted else []
    if scripted and sc.get("after_biases"):
        L.append("scriptingAfterBiases on")
    if reverse:
        subset = list(reversed(subset))
    for i, v in enumerate(sc["vars"]):
        L += colvar_block(i, v)
    for j in subset:
        L += bias_block(sc, j)
    return L


def scenario_lines(sc, subset, tag):
    """vsim script of one run: the variables of sc with the biases in subset (indices into sc["biases"])"""
    L = ["echo CASE %s" % tag, "natoms %d" % sc["natoms"]]
    for a, m in enumerate(sc["mass"]):
        L.append("mass %d %r" % (a + 1, float(m)))
    L += ["samestep %d" % (1 if sc.get("samestep", True) else 0), "temperature %r" % float(sc.get("temperature", 0.0)), "new"]
    if sc["it0"]:
        L.append("setstep %d" % sc["it0"])
    scripted = bool(sc.get("script_runs")) and tag.split(":")[-1] in sc["script_runs"]
    L += ["forcecmd clear", "config EOF"] + config_text(sc, subset, scripted, reverse=(tag.split(":")[-1] == "P")) + ["EOF"]
    L.append("show cv 1 bias 0 tf 1 af 0" if sc.get("showtf") else "show cv 0 bias 0 tf 0 af 0")
    for ev in sc["events"]:
        if ev[0] in ("S", "R"):
            for a, p in enumerate(ev[1]):
                L.append("pos %d %s %s %s" % (a + 1, hx(p[0]), hx(p[1]), hx(p[2])))
            if len(ev) > 2 and ev[2] is not None:
                for a, f in enumerate(ev[2]):
                    L.append("eforce %d %s %s %s" % (a + 1, hx(f[0]), hx(f[1]), hx(f[2])))
            if ev[0] == "R":
                L.append("runboundary")
            if scripted:
                L += ["forcecmd clear", "forcecmd cv version"]     # a script that may add no force at all
                for i, g in enumerate(ev[3]):
                    if g is not None:
                        L.append("forcecmd cv colvar v%d addforce %r" % (i, float(g)))
            L += ["step", "mdump"]
            if sc["family"] != "ext":
                L.append("script cv getenergy")
        elif ev[0] == "X":
            if ev[1] in subset:
                L.append("script cv bias b%d set active %s" % (ev[1], "on" if ev[2] else "off"))
        elif ev[0] == "Y":      # run-time switch of a feature the configuration fixed: apply_force of a bias
            if ev[1] in subset:
                L.append("script cv bias b%d set apply_force %s" % (ev[1], "on" if ev[2] else "off"))
        elif ev[0] == "D":      # the bias is deleted in the middle of the run
            if ev[1] in subset:
                L.append("script cv bias b%d delete" % ev[1])
        elif ev[0] == "Z":      # the job ends: state saved (text or binary), new process-like instance, same configuration, state loaded
            f = "c08_%s.state" % tag.replace(":", "_")
            L += ["save %s %s" % (ev[1], f), "fresh", "forcecmd clear", "config EOF"] + config_text(sc, subset, scripted, reverse=(tag.split(":")[-1] == "P")) + ["EOF", "load %s" % f]
        elif ev[0] == "C" and not tag.split(":")[-1].startswith("N"):      # a configuration that is rejected (harmonic restraint without centers) in the middle of the session
            L += ["config EOF", "harmonic {", "  name rejected%d" % ev[1], "  colvars v0", "  forceConstant 2.0", "}", "EOF"]
    L.append("echo END %s" % tag)
    return L


# ------------------------------------------------------------------ exact component data (python)
def comp_data(sc, c, pos):
    """value and atomic gradients of one distanceZ component, exact (Fractions)"""
    ax = AXES[c["axis"]]
    def com(atoms):
        M = sum(fr(sc["mass"][a]) for a in atoms)
        return [sum(fr(sc["mass"][a]) * fr(pos[a][k]) for a in atoms) / M for k in range(3)], M
    cm, Mm = com(c["main"])
    if c["ref"]:
        cr, Mr = com(c["ref"])
    else:
        cr, Mr = [Fr(0)] * 3, None
    val = sum(ax[k] * (cm[k] - cr[k]) for k in range(3))
    grads = []
    for a in c["main"]:
        wgt = fr(sc["mass"][a]) / Mm
        grads.append((a, [wgt * ax[k] for k in range(3)]))
    for a in c["ref"]:
        wgt = fr(sc["mass"][a]) / Mr
        grads.append((a, [-wgt * ax[k] for k in range(3)]))
    return val, grads


def var_inputs(sc, pos):
    out = []
    for v in sc["vars"]:
        cs = []
        for c in v["comps"]:
            val, grads = comp_data(sc, c, pos)
            cs.append({"coeff": fr(c["coeff"]), "np": c["np"], "val": val, "grads": grads})
        out.append(cs)
    return out


def var_value(cs):
    return sum(c["coeff"] * c["val"] ** c["np"] for c in cs)


# ------------------------------------------------------------------ scenario -> model case
def model_case(sc, subset, fixed=FIXED, efix=EFIX):
    """one RUN line; a scenario with a restart ("Z") is a list of segments joined by " @@ ": each segment is a fresh run of the
    model whose first step is the step at which the state was saved (the restraints in this family carry no state)"""
    if any(ev[0] == "Z" for ev in sc["events"]):
        segs, cur, it, first = [], [], sc["it0"], True
        starts = [sc["it0"]]
        for ev in sc["events"]:
            if ev[0] == "Z":
                segs.append(cur); cur = []; starts.append(it); first = True
            else:
                cur.append(ev)
                if ev[0] == "S":
                    it = it if first else it + 1
                if ev[0] in ("S", "R"):
                    first = False
        segs.append(cur)
        lines = []
        for st0, evs_ in zip(starts, segs):
            sc2 = dict(sc); sc2["events"] = evs_; sc2["it0"] = st0
            lines.append(model_case(sc2, subset, fixed, efix))
        return " @@ ".join(lines)
    p = ["RUN", "1" if fixed else "0", "1" if efix else "0", str(sc["natoms"]), str(sc["it0"]), str(len(sc["vars"]))]
    p += [str(v["tsf"]) for v in sc["vars"]]
    p.append(str(len(subset)))
    for j in impl_order(sc, subset):
        b = sc["biases"][j]
        p += [str(j), str(b["tsf"]), str(len(b["vars"]))] + [str(i) for i in b["vars"]]
        if b["kind"] in ("H", "L", "W"):
            p += [b["kind"], hx(b["k"])]
            for c, i in zip(b["centers"], b["vars"]):
                p += [hx(c), hx(sc["vars"][i]["w"])]
        elif b["kind"] == "A":
            p += ["A", hx(b["k"]), hx(b["stop"]), "1" if b["dec"] else "0"]
        elif b["kind"] == "G":
            p += ["G"]
        else:
            p += ["C", hx(b.get("e", 0.0))]
        g = b.get("grid")
        p += (["S", hx(g["lo"]), hx(g["w"]), str(len(g["vals"]))] + [hx(x) for x in g["vals"]]) if g else ["N"]
    evs = [ev for ev in sc["events"] if ev[0] in ("S", "R") or (ev[0] in ("X", "Y") and ev[1] in subset)]
    p.append(str(len(evs)))
    for ev in evs:
        if ev[0] in ("S", "R"):
            p += [ev[0], str(len(sc["vars"]))]
            for cs in var_inputs(sc, ev[1]):
                p.append(str(len(cs)))
                for c in cs:
                    p += [hx(c["coeff"]), str(c["np"]), hx(c["val"]), str(len(c["grads"]))]
                    for a, g in c["grads"]:
                        p += [str(a), hx(g[0]), hx(g[1]), hx(g[2])]
        else:
            p += [ev[0], str(ev[1]), "1" if ev[2] else "0"]
    return " ".join(p)


# ------------------------------------------------------------------ output parsing
def kv(s):
    d = {}
    for tok in s.split():
        if "=" in tok:
            a, b = tok.split("=", 1)
            d[a] = b
    return d


def hf(s):
    return float.fromhex(s)


def parse_model_line(line, natoms):
    outs = []
    if not line.strip():
        return outs
    for part in line.split(" ; "):
        d = kv(part)
        o = {"it": int(d["it"]), "err": d["err"] == "1", "E": hf(d["E"]), "V": [], "B": [], "A": []}
        if d["V"] != "-":
            for t in d["V"].split("|"):
                f = t.split(",")
                o["V"].append({"act": int(f[0]), "rc": int(f[1]), "awake": int(f[2]), "apply": int(f[3]), "arc": int(f[4]),
                               "x": hf(f[5]), "fb": hf(f[6]), "fba": hf(f[7]), "f": hf(f[8])})
        if d["B"] != "-":
            for t in d["B"].split("|"):
                f = t.split(",")
                o["B"].append({"act": int(f[0]), "rc": int(f[1]), "awake": int(f[2]), "E": hf(f[3]),
                               "F": [] if f[4] == "-" else [hf(x) for x in f[4].split(":")],
                               "REF": None if f[5] == "-" else hf(f[5]), "apply": int(f[6]) if len(f) > 6 else None})
        if d["A"] != "-":
            for t in d["A"].split("|"):
                o["A"].append([hf(x) for x in t.split(",")])
        outs.append(o)
    return outs


def parse_impl(lines):
    """harness output -> {tag: {"config": str, "steps": [...], "complete": bool, "script": [..]}}"""
    cases = {}
    cur = None
    st = None
    for l in lines:
        if l.startswith("echo CASE"):
            cur = {"config": None, "steps": [], "complete": False, "script": []}
            cases[l.split()[2]] = cur
            st = None
        elif cur is None:
            continue
        elif l.startswith("echo END"):
            cur["complete"] = True
            cur = None
        elif l.startswith("CONFIG"):
            if cur["config"] is None:
                cur["config"] = l
            else:
                cur.setdefault("config_later", []).append(l)
        elif l.startswith("SCRIPT"):
            cur["script"].append(l)
            if st is not None and "result=" in l and "getE" not in st:
                try:
                    st["getE"] = float(l.split("result=", 1)[1].split()[0])
                except (ValueError, IndexError):
                    pass
        elif l.startswith("STEP"):
            w = l.split()
            st = {"it": int(w[1]), "errc": w[2].split("=")[1], "E": None, "A": {}, "V": [], "B": [], "TF": {}, "CV": {}}
            st["err"] = st["errc"] != "ok"
            cur["steps"].append(st)
        elif st is None:
            continue
        elif l.startswith("ENERGY"):
            st["E"] = hf(l.split()[1])
        elif l.startswith("ATOMF"):
            w = l.split()
            st["A"][int(w[1]) - 1] = [hf(w[2]), hf(w[3]), hf(w[4])]
        elif l.startswith("TF "):
            w = l.split()
            st["TF"][w[1]] = hf(w[2])
        elif l.startswith("CV "):
            w = l.split()
            st["CV"][w[1]] = hf(w[2])
        elif l.startswith("MV "):
            d = kv(l)
            st["V"].append({"name": l.split()[1], "act": int(d["act"]), "rc": int(d["rc"]), "awake": int(d["awake"]),
                            "apply": int(d["apply"]), "arc": int(d["arc"]), "x": hf(d["x"]), "fb": hf(d["fb"]),
                            "fba": hf(d["fba"]), "f": hf(d["f"]), "ext": int(d.get("ext", "0")),
                            "xr": hf(d["xr"]) if "xr" in d else None, "xa": hf(d["xa"]) if "xa" in d else None,
                            "fr": hf(d["fr"]) if "fr" in d else None, "extk": hf(d["extk"]) if "extk" in d else None,
                            "fj": hf(d["fj"]) if "fj" in d else None, "hidej": int(d.get("hidej", "0")), "tsf": int(d.get("tsf", "1"))})
        elif l.startswith("MB "):
            d = kv(l)
            st["B"].append({"name": l.split()[1], "act": int(d["act"]), "rc": int(d["rc"]), "awake": int(d["awake"]),
                            "apply": int(d["apply"]), "E": hf(d["E"]),
                            "F": [] if d["F"] == "-" else [hf(x) for x in d["F"].split(",")],
                            "REF": (None if d.get("REF", "-") == "-" else hf(d["REF"]))})
    return cases


def atomf(st, natoms):
    return [st["A"].get(a, [0.0, 0.0, 0.0]) for a in range(natoms)]


# ------------------------------------------------------------------ generator
def dy(r, lo, hi, bits):
    return V.dyadic(r, lo, hi, bits)


GROUPS2 = [(1.0, 1.0), (1.0, 3.0), (3.0, 1.0), (2.0, 2.0)]

# The model's step number is an unbounded integer (Z); the code's is cvm::step_number = long long and must be narrowed
# nowhere.  That is part of the tie: first steps are drawn from small numbers AND from around 2^31, 2^32, 2^40, 2^53 and
# just below 2^62 (OCaml's native int of the driver ends at 2^62 - 1), factors include non powers of two (2^32 mod 3, 5, 6,
# 7, 12 are all != 0, so a 32-bit copy of the step changes the schedule).
FACTORS = [1, 1, 2, 2, 3, 4, 5, 6, 7, 12]
FACTORS_MTS = [2, 3, 4, 5, 6, 7, 12]


def pick_it0(r, small=(0, 0, 0, 0, 1, 2, 3, 5, 7, 12)):
    if r.random() < 0.5:
        return r.choice(small)
    base = r.choice([2 ** 31, 2 ** 31, 2 ** 32, 2 ** 32, 2 ** 40, 2 ** 53, 2 ** 62 - 64])
    return base + r.randint(-14, 14)


def gen_scenario(r, k, family="mix"):
    natoms = r.randint(2, 5)
    mass = [1.0] * natoms
    # pairs of atoms used as two-atom groups get masses whose sum is a power of two
    pairs = []
    if natoms >= 2 and r.random() < 0.6:
        a = r.randrange(natoms - 1)
        m = r.choice(GROUPS2)
        mass[a], mass[a + 1] = m
        pairs.append((a, a + 1))
    nv = r.randint(1, 3)
    vars_ = []
    for i in range(nv):
        ncomp = r.choice([1, 1, 1, 1, 1, 1, 2, 2, 3])     # >= 3 components with the odd one (exponent) in the middle
        comps = []
        for _ in range(ncomp):
            if pairs and r.random() < 0.4:
                main = list(pairs[0])
            else:
                main = [r.randrange(natoms)]
            ref = []
            if r.random() < 0.3:
                cand = [a for a in range(natoms) if a not in main]
                if cand:
                    ref = [r.choice(cand)]
            comps.append({"main": main, "ref": ref, "axis": r.choice([2, 2, 0, 1]),
                          "coeff": r.choice([1.0, 1.0, -1.0, 0.5, 2.0]),
                          "np": r.choice([1, 1, 1, 2, 2, 3])})
        vt = 1
        if family in ("mix", "vartsf") and r.random() < (0.25 if family == "mix" else 0.8):
            vt = r.choice([2, 3, 4, 5, 6, 7])
        vars_.append({"tsf": vt, "w": r.choice([0.5, 1.0, 2.0]), "comps": comps})
    nb = r.randint(1, 4) if family != "impulse" else 1
    biases = []
    for j in range(nb):
        kind = r.choice(["H", "H", "H", "L", "W", "A", "G"]) if family != "impulse" else r.choice(["H", "L", "W", "A"])
        nvb = 1 if (kind == "A" or nv == 1 or r.random() < 0.6) else 2
        bv = r.sample(range(nv), nvb)
        tsf = r.choice(FACTORS) if family != "impulse" else r.choice(FACTORS_MTS)
        b = {"kind": kind, "tsf": tsf, "vars": bv, "k": r.choice([0.5, 1.0, 2.0, 4.0])}
        if kind in ("H", "L", "W"):
            b["centers"] = [dy(r, -4, 4, 2) for _ in bv]
        if kind == "A":
            b["stop"] = dy(r, -6, 6, 1)
            b["dec"] = r.random() < 0.5
        biases.append(b)
    it0 = pick_it0(r)
    nsteps = r.randint(6, 14)
    if family == "impulse":
        nsteps = max(nsteps, 2 * max(b["tsf"] for b in biases) + r.randint(1, 4))
    events = []
    pos = [[dy(r, -4, 4, 2) for _ in range(3)] for _ in range(natoms)]
    for s in range(nsteps):
        # move some atoms
        for a in range(natoms):
            if r.random() < 0.7:
                pos[a] = [dy(r, -4, 4, 2) for _ in range(3)]
        if family == "mix" and s > 0 and r.random() < 0.12:
            j = r.randrange(nb)
            events.append(("X", j, r.random() < 0.4))
        if family == "mix" and s > 0 and r.random() < 0.05:
            events.append(("C", len(events)))
        typ = "R" if (family == "mix" and s > 0 and r.random() < 0.08) else "S"
        events.append((typ, [list(p) for p in pos]))
    # partition of the bias list into A and B (order preserved)
    if nb == 1:
        A, B = [0], []
    else:
        m = [r.random() < 0.5 for _ in range(nb)]
        if all(m) or not any(m):
            m[r.randrange(nb)] = not m[0]
        A = [j for j in range(nb) if m[j]]
        B = [j for j in range(nb) if not m[j]]
    kscale = 1.0
    if family in ("mix", "impulse") and r.random() < 0.12:
        # data 1e-8 .. 1e8 times the usual size (exact powers of two): every force constant is scaled, comparisons are relative to the scale
        kscale = 2.0 ** r.choice([-27, -13, 13, 27])
        for b in biases:
            b["k"] = b["k"] * kscale
    return {"id": k, "family": family, "natoms": natoms, "mass": mass, "vars": vars_, "biases": biases, "it0": it0,
            "events": events, "A": A, "B": B, "perm_run": family == "mix" and r.random() < 0.4, "kscale": kscale}


# ------------------------------------------------------------------ python specification of the property
def spec_run(sc, subset):
    """What the property text prescribes, recomputed from the imposed positions in exact arithmetic:
    per calc(): energy, per-atom forces, per-bias (contributing, E, F).  A bias contributes at a step iff the user
    has not disabled it and the step is a multiple of its factor; it is evaluated only then (ABMD's reference
    moves only then) and applies factor * F.  Variable-level factors are not applied here (see oracle O4)."""
    user = {j: True for j in subset}
    uapply = {j: True for j in subset}
    deleted = set()
    abmd = {j: None for j in subset}
    it = sc["it0"]
    first = True
    outs = []
    for ev in sc["events"]:
        if ev[0] == "X":
            if ev[1] in user:
                user[ev[1]] = bool(ev[2])
            continue
        if ev[0] == "Y":
            if ev[1] in uapply:
                uapply[ev[1]] = bool(ev[2])
            continue
        if ev[0] == "D":
            deleted.add(ev[1])
            continue
        if ev[0] == "C":
            continue            # a rejected configuration changes nothing
        if ev[0] == "Z":
            first = True        # the new job repeats the step at which the state was saved
            user = {j: True for j in subset}
            uapply = {j: True for j in subset}
            continue
        if ev[0] == "S":
            if not first:
                it += 1
        first = False
        vin = var_inputs(sc, ev[1])
        xs = [var_value(cs) for cs in vin]
        fvar = [Fr(0)] * len(sc["vars"])
        E = Fr(0)
        per = {}
        for j in subset:
            b = sc["biases"][j]
            contributing = user[j] and (it % b["tsf"] == 0) and j not in deleted
            per[j] = {"contributing": contributing, "deleted": j in deleted}
            if not contributing:
                continue
            k = fr(b["k"])
            Fs = []
            e = Fr(0)
            for n, i in enumerate(b["vars"]):
                w = fr(sc["vars"][i]["w"])
                x = xs[i]
                if b["kind"] == "H":
                    d = x - fr(b["centers"][n])
                    e += k / (2 * w * w) * d * d
                    Fs.append(-k / (w * w) * d)
                elif b["kind"] == "L":
                    e += k / w * (x - fr(b["centers"][n]))
                    Fs.append(-k / w)
                elif b["kind"] == "W":
                    d = max(Fr(0), x - fr(b["centers"][n]))
                    e += k / (2 * w * w) * d * d
                    Fs.append(-k / (w * w) * d)
                elif b["kind"] == "A":
                    if abmd[j] is None:
                        abmd[j] = x
                    sign = -1 if b["dec"] else 1
                    diff = (x - abmd[j]) * sign
                    if diff > 0:
                        Fs.append(Fr(0))
                        if (abmd[j] - fr(b["stop"])) * sign <= 0:
                            abmd[j] = x
                    else:
                        e += k / 2 * diff * diff
                        Fs.append(-sign * k * diff)
                else:
                    Fs.append(Fr(0))
            if b.get("grid"):
                # scaledBiasingForce: the force (not the energy) is multiplied by the factor of the bin of the first variable
                g = b["grid"]
                bn = (xs[b["vars"][0]] - fr(g["lo"])) // fr(g["w"])
                fac = fr(g["vals"][int(bn)]) if 0 <= bn < len(g["vals"]) else Fr(1)
                per[j]["fac"] = fac
            per[j]["E"] = e
            per[j]["F"] = Fs
            applies = b["kind"] not in ("G", "F") and uapply[j]
            if applies:
                E += e
                for n, i in enumerate(b["vars"]):
                    fvar[i] += b["tsf"] * Fs[n] * per[j].get("fac", 1)
        af = [[Fr(0)] * 3 for _ in range(sc["natoms"])]
        for i, cs in enumerate(vin):
            for c in cs:
                cf = fvar[i] * c["coeff"] * c["np"] * c["val"] ** (c["np"] - 1)
                for a, g in c["grads"]:
                    for q in range(3):
                        af[a][q] += cf * g[q]
        outs.append({"it": it, "E": E, "A": af, "per": per, "fvar": fvar, "x": xs})
    return outs


# ------------------------------------------------------------------ comparison model <-> implementation
def compare_model(run, sc, tag, subset, msteps, isteps):
    """field-by-field comparison up to (and including the error flag of) the first step with an error"""
    n = min(len(msteps), len(isteps))
    if len(msteps) != len(isteps):
        run.mismatch("pipeline:steps", {"scenario": sc["id"], "run": tag}, len(isteps), len(msteps))
    for s in range(n):
        m, im = msteps[s], isteps[s]
        where = {"scenario": sc["id"], "run": tag, "step_index": s, "it": im["it"]}
        if m["it"] != im["it"]:
            run.mismatch("pipeline:step-number", where, im["it"], m["it"])
            return s
        if m["err"] != im["err"]:
            run.mismatch("pipeline:error-flag", where, im["errc"], m["err"])
            return s
        if m["err"]:
            return s          # control flow after cvm::error is outside the model
        if not close(m["E"], im["E"]):
            run.mismatch("pipeline:energy", where, im["E"], m["E"])
        if len(m["V"]) != len(im["V"]) or len(m["B"]) != len(im["B"]):
            run.mismatch("pipeline:objects", where, (len(im["V"]), len(im["B"])), (len(m["V"]), len(m["B"])))
            return s
        for i, (mv, iv) in enumerate(zip(m["V"], im["V"])):
            for key in ("act", "rc", "awake", "apply", "arc"):
                if mv[key] != iv[key]:
                    run.mismatch("pipeline:var-deps", dict(where, var=i, field=key), iv[key], mv[key])
            for key in ("fb", "fba", "f"):
                if not close(mv[key], iv[key]):
                    run.mismatch("pipeline:var-force", dict(where, var=i, field=key), iv[key], mv[key])
            if iv["act"] and not close(mv["x"], iv["x"]):
                run.mismatch("pipeline:var-value", dict(where, var=i), iv["x"], mv["x"])
        for q, (mb, ib) in enumerate(zip(m["B"], im["B"])):
            if mb.get("apply") is not None and ib["apply"] != mb["apply"]:
                run.mismatch("pipeline:bias-apply", dict(where, bias=subset[q]), ib["apply"], mb["apply"])
            for key in ("act", "rc", "awake"):
                if mb[key] != ib[key]:
                    run.mismatch("pipeline:bias-deps", dict(where, bias=subset[q], field=key), ib[key], mb[key])
            if not close(mb["E"], ib["E"]):
                run.mismatch("pipeline:bias-energy", dict(where, bias=subset[q]), ib["E"], mb["E"])
            if len(mb["F"]) != len(ib["F"]) or any(not close(a, b) for a, b in zip(mb["F"], ib["F"])):
                run.mismatch("pipeline:bias-forces", dict(where, bias=subset[q]), ib["F"], mb["F"])
            if sc["biases"][subset[q]]["kind"] == "A" and (mb["REF"] is None) != (ib["REF"] is None):
                run.mismatch("pipeline:abmd-ref", dict(where, bias=subset[q]), ib["REF"], mb["REF"])
            elif sc["biases"][subset[q]]["kind"] == "A" and mb["REF"] is not None and not close(mb["REF"], ib["REF"]):
                run.mismatch("pipeline:abmd-ref", dict(where, bias=subset[q]), ib["REF"], mb["REF"])
        ia = atomf(im, sc["natoms"])
        for a in range(sc["natoms"]):
            if any(not close(m["A"][a][q], ia[a][q]) for q in range(3)):
                run.mismatch("pipeline:atom-forces", dict(where, atom=a), ia[a], m["A"][a])
    return n


def first_error(isteps):
    for s, st in enumerate(isteps):
        if st["err"]:
            return s
    return len(isteps)


# ------------------------------------------------------------------ oracles on the implementation alone
def replay_of(sc, subsets, extra=None):
    def mc(s_):
        try:
            return model_case(sc, s_)
        except Exception:
            return None        # families the pipeline model is not run on (vector variables, ABF, ...)
    d = {"kind": "scenario", "scenario": {k_: v_ for k_, v_ in sc.items() if not k_.startswith("_")},
         "scripts": {t: "\n".join(scenario_lines(sc, s, t)) for t, s in subsets.items()},
         "model_cases": {t: mc(s) for t, s in subsets.items()}}
    if extra:
        d.update(extra)
    return d


def oracle_superposition(run, sc, R):
    """O1: implementation(A+B) = implementation(A) + implementation(B), atom by atom, and for the energy"""
    if not sc["B"]:
        return
    AB = sorted(sc["A"] + sc["B"])
    sAB, sA, sB = R["AB"]["steps"], R["A"]["steps"], R["B"]["steps"]
    n = min(first_error(sAB), first_error(sA), first_error(sB), len(sAB), len(sA), len(sB))
    for s in range(n):
        fab, fa, fb = atomf(sAB[s], sc["natoms"]), atomf(sA[s], sc["natoms"]), atomf(sB[s], sc["natoms"])
        for a in range(sc["natoms"]):
            for q in range(3):
                if not close(fab[a][q], fa[a][q] + fb[a][q]):
                    run.violation("pipeline:superposition:atom-force",
                                  "scenario %d step %d (it=%d): force on atom %d with biases %s is %s but %s alone gives %s and %s alone gives %s"
                                  % (sc["id"], s, sAB[s]["it"], a + 1, AB, fab[a], sc["A"], fa[a], sc["B"], fb[a]),
                                  replay_of(sc, {"AB": AB, "A": sc["A"], "B": sc["B"]}, {"step_index": s, "atom": a}))
                    return
        if not close(sAB[s]["E"], sA[s]["E"] + sB[s]["E"]):
            run.violation("pipeline:superposition:energy",
                          "scenario %d step %d (it=%d): energy with biases %s is %r but %s alone gives %r and %s alone gives %r"
                          % (sc["id"], s, sAB[s]["it"], AB, sAB[s]["E"], sc["A"], sA[s]["E"], sc["B"], sB[s]["E"]),
                          replay_of(sc, {"AB": AB, "A": sc["A"], "B": sc["B"]}, {"step_index": s}))
            return


def oracle_spec(run, sc, tag, subset, isteps):
    """O2: the implementation against the property text recomputed from the imposed positions: a bias contributes
    factor * F(step) and its energy iff it is user-enabled and the step is a multiple of its factor; disabled,
    asleep and non-applying biases contribute nothing; a bias is evaluated only when it contributes."""
    spec = spec_run(sc, subset)
    n = min(first_error(isteps), len(spec))
    for s in range(n):
        sp, im = spec[s], isteps[s]
        # classification of a disagreement by the activity flags of the biases
        byname = {bb["name"]: bb for bb in im["B"]}
        for q, j in enumerate(subset):
            b = sc["biases"][j]
            act = byname["b%d" % j]["act"] if ("b%d" % j) in byname else None
            if sp["per"][j].get("deleted") and act is not None:
                run.violation("pipeline:deleted:still-there", "scenario %d run %s step %d: bias b%d was deleted but is still listed" % (sc["id"], tag, s, j),
                              replay_of(sc, {tag: subset}, {"step_index": s, "bias": j}))
                return
            want = sp["per"][j]["contributing"]
            if act is not None and bool(act) != want:
                disabled = not user_enabled_at(sc, j, s)
                if act and disabled:
                    sig = "pipeline:disabled:reactivated-by-schedule" if b["tsf"] > 1 else "pipeline:disabled:still-active"
                elif act:
                    sig = "pipeline:schedule:awake-off-multiple"
                else:
                    sig = "pipeline:schedule:asleep-on-multiple"
                run.violation(sig, "scenario %d run %s step %d (it=%d): bias b%d (timeStepFactor %d, %s) is %s at this step"
                              % (sc["id"], tag, s, im["it"], j, b["tsf"], "user-disabled" if disabled else "user-enabled",
                                 "active" if act else "inactive"),
                              replay_of(sc, {tag: subset}, {"step_index": s, "bias": j}))
                return
        ia = atomf(im, sc["natoms"])
        for a in range(sc["natoms"]):
            for q in range(3):
                if not close(float(sp["A"][a][q]), ia[a][q]):
                    run.violation("pipeline:spec:atom-force",
                                  "scenario %d run %s step %d (it=%d): force on atom %d is %s, the sum of factor*F over the contributing biases is %s"
                                  % (sc["id"], tag, s, im["it"], a + 1, ia[a], [float(x) for x in sp["A"][a]]),
                                  replay_of(sc, {tag: subset}, {"step_index": s, "atom": a}))
                    return
        if not close(float(sp["E"]), im["E"]):
            sig = "pipeline:spec:energy"
            nonapp = [j for j in subset if sc["biases"][j]["kind"] in ("G", "F")]
            run.violation(sig, "scenario %d run %s step %d (it=%d): reported energy %r, sum of the energies of the contributing biases %r"
                          % (sc["id"], tag, s, im["it"], im["E"], float(sp["E"])),
                          replay_of(sc, {tag: subset}, {"step_index": s}))
            return
        # evaluated only when contributing: a sleeping/disabled bias keeps the energy and forces of its last evaluation
        if s > 0 and s not in first_after_restart(sc):
            prevname = {bb["name"]: bb for bb in isteps[s - 1]["B"]}
            for q, j in enumerate(subset):
                nm = "b%d" % j
                if not sp["per"][j]["contributing"] and nm in byname and nm in prevname:
                    if byname[nm]["E"] != prevname[nm]["E"] or byname[nm]["F"] != prevname[nm]["F"] \
                       or byname[nm]["REF"] != prevname[nm]["REF"]:
                        run.violation("pipeline:schedule:evaluated-off-multiple",
                                      "scenario %d run %s step %d (it=%d): bias b%d (factor %d) changed its energy/forces/state at a step where it must not be evaluated"
                                      % (sc["id"], tag, s, im["it"], j, sc["biases"][j]["tsf"]),
                                      replay_of(sc, {tag: subset}, {"step_index": s, "bias": j}))
                        return


def first_after_restart(sc):
    """indices of the calc() calls that are the first of a new job (objects are new: nothing is kept from before)"""
    out, c, z = set(), -1, False
    for ev in sc["events"]:
        if ev[0] == "Z":
            z = True
        elif ev[0] in ("S", "R"):
            c += 1
            if z:
                out.add(c)
                z = False
    return out


def user_enabled_at(sc, j, s):
    """is bias j user-enabled at calc number s"""
    en = True
    c = -1
    for ev in sc["events"]:
        if ev[0] == "X":
            if ev[1] == j:
                en = bool(ev[2])
        elif ev[0] in ("S", "R"):
            c += 1
            if c == s:
                return en
    return en


def oracle_impulse(run, sc, tag, subset, isteps):
    """O3: single bias with factor n, plain steps: over every complete window [mn,(m+1)n) the sum of the applied atom
    forces equals n times the instantaneous force F(mn) (python closed form), i.e. the impulse of applying F(mn) at
    each of the n steps"""
    if len(subset) != 1 or any(ev[0] != "S" for ev in sc["events"]):
        return 0
    j = subset[0]
    b = sc["biases"][j]
    n = b["tsf"]
    spec = spec_run(sc, subset)
    ne = first_error(isteps)
    its = [st["it"] for st in isteps[:ne]]
    checked = 0
    for s0, it in enumerate(its):
        if it % n != 0 or s0 + n > len(its):
            continue
        # instantaneous atom force at step it = spec force / n  (spec applies n * F)
        for a in range(sc["natoms"]):
            for q in range(3):
                tot = sum(atomf(isteps[s0 + d], sc["natoms"])[a][q] for d in range(n))
                inst = spec[s0]["A"][a][q] / n
                if not close(tot, float(n * inst)):
                    run.violation("pipeline:impulse:window-sum",
                                  "scenario %d run %s window [%d,%d): the forces applied to atom %d sum to %r, %d times the instantaneous force at step %d is %r"
                                  % (sc["id"], tag, it, it + n, a + 1, tot, n, it, float(n * inst)),
                                  replay_of(sc, {tag: subset}, {"step_index": s0, "atom": a}))
                    return checked
        checked += 1
    return checked


def oracle_nonbiasing(run, sc, R):
    """O5: a bias declared non-biasing (ABF with applyBias off) adds nothing to the forces nor to the reported energy"""
    sAB, sA, sB = R["AB"]["steps"], R["A"]["steps"], R["B"]["steps"]
    n = min(first_error(sAB), first_error(sA), first_error(sB))
    for s in range(n):
        fab, fa, fb = atomf(sAB[s], sc["natoms"]), atomf(sA[s], sc["natoms"]), atomf(sB[s], sc["natoms"])
        if any(not close(fab[a][q], fa[a][q]) or fb[a][q] != 0.0 for a in range(sc["natoms"]) for q in range(3)):
            run.violation("pipeline:nonbiasing:force-applied", "scenario %d step %d: a bias with applyBias off changes the atom forces: with %s, without %s, alone %s"
                          % (sc["id"], s, fab, fa, fb), replay_of(sc, {"AB": [0, 1], "A": [0], "B": [1]}, {"step_index": s}))
            return
        if not close(sAB[s]["E"], sA[s]["E"]) or sB[s]["E"] != 0.0:
            run.violation("pipeline:nonbiasing:energy-reported",
                          "scenario %d step %d (it=%d): an ABF bias with applyBias off adds to the energy reported to the engine: %r with it, %r without it, %r when it is alone (its forces are not applied)"
                          % (sc["id"], s, sAB[s]["it"], sAB[s]["E"], sA[s]["E"], sB[s]["E"]),
                          replay_of(sc, {"AB": [0, 1], "A": [0], "B": [1]}, {"step_index": s}))
            return


def oracle_errors(run, sc, tag, subset, isteps):
    """O7: valid configurations and histories raise no error.  The one recorded exception: a bias with factor > 1 that a
    script event switched on/off is out of step with the awake schedule (known finding disabled:reactivated-by-schedule)"""
    for s, im in enumerate(isteps):
        if im["err"]:
            touched = set()
            c = -1
            for ev in sc["events"]:
                if ev[0] == "X":
                    if ev[1] in subset and sc["biases"][ev[1]]["tsf"] > 1:
                        touched.add(ev[1])
                elif ev[0] in ("S", "R"):
                    c += 1
                    if c == s:
                        break
            sig = "pipeline:disabled:reactivated-by-schedule" if touched else "pipeline:error-raised"
            run.violation(sig, "scenario %d run %s step %d (it=%d): colvarmodule::calc() raised an error (class %s) on a valid configuration and history%s"
                          % (sc["id"], tag, s, im["it"], im["errc"],
                             "; biases with factor > 1 switched by script before: %s" % sorted(touched) if touched else ""),
                          replay_of(sc, {tag: subset}, {"step_index": s}))
            return


def oracle_getenergy(run, sc, tag, subset, isteps):
    """O11: `cv getenergy` (total_bias_energy) after a step = the energy handed to the engine at that step = sum over the
    biases that count, also at steps where some sleep (no extended variables in these families: no variable energy)"""
    if sc["family"] == "ext":
        return
    for s in range(first_error(isteps)):
        im = isteps[s]
        if "getE" in im and im["E"] is not None and not close(im["getE"], im["E"], 2e-5):
            run.violation("pipeline:getenergy", "scenario %d run %s step %d (it=%d): cv getenergy returns %r, the energy added to the engine was %r"
                          % (sc["id"], tag, s, im["it"], im["getE"], im["E"]), replay_of(sc, {tag: subset}, {"step_index": s}))
            return


def oracle_rejected(run, sc, R, t0):
    """O14: a rejected configuration in the middle of the session changes nothing: the run with the attempts equals the run
    without them in every dumped field (feature flags and reference counts of variables and biases, values, forces, energy)"""
    sAB, sN = R[t0]["steps"], R["N" + t0]["steps"]
    AB = sc["_subsets"][t0]
    for s in range(min(first_error(sAB), first_error(sN))):
        a, b = sAB[s], sN[s]
        same = a["V"] == b["V"] and a["B"] == b["B"] and a["A"] == b["A"] and a["E"] == b["E"]
        if not same:
            diff = [(x["name"], k_) for x, y in zip(a["V"] + a["B"], b["V"] + b["B"]) for k_ in x if x.get(k_) != y.get(k_)][:4]
            run.violation("pipeline:rejected-config", "scenario %d step %d (it=%d): after a rejected bias configuration the state differs from the run without the attempt: %s"
                          % (sc["id"], s, a["it"], diff), replay_of(sc, {t0: AB, "N" + t0: AB}, {"step_index": s}))
            return


def oracle_order(run, sc, R):
    """O12: the same biases written in the reverse order (the module keeps configuration order within a bias type): same
    atom forces and energy at every step (C08_order_independent)"""
    sAB, sP = R["AB"]["steps"], R["P"]["steps"]
    for s in range(min(first_error(sAB), first_error(sP))):
        fa, fp = atomf(sAB[s], sc["natoms"]), atomf(sP[s], sc["natoms"])
        if any(not close(fa[a][q], fp[a][q]) for a in range(sc["natoms"]) for q in range(3)) or not close(sAB[s]["E"], sP[s]["E"]):
            AB = sorted(sc["A"] + sc["B"])
            run.violation("pipeline:order", "scenario %d step %d (it=%d): forces/energy %s / %r with the biases in configuration order, %s / %r in the reverse order"
                          % (sc["id"], s, sAB[s]["it"], fa, sAB[s]["E"], fp, sP[s]["E"]), replay_of(sc, {"AB": AB, "P": AB}, {"step_index": s}))
            return


def oracle_var_tsf(run, sc, tag, subset, isteps):
    """O4: a variable with factor n is evaluated and biased only at multiples of n"""
    ne = first_error(isteps)
    for s in range(ne):
        im = isteps[s]
        for i, v in enumerate(sc["vars"]):
            if v["tsf"] > 1 and im["it"] % v["tsf"] != 0 and i < len(im["V"]):
                iv = im["V"][i]
                if iv["act"] or iv["f"] != 0.0:
                    keepers = [j for q, j in enumerate(subset) if i in sc["biases"][j]["vars"] and q < len(im["B"]) and im["B"][q]["act"]]
                    sig = "pipeline:variable-tsf:kept-awake-by-bias" if keepers else "pipeline:variable-tsf:active-off-multiple"
                    run.violation(sig, "scenario %d run %s step %d (it=%d): variable v%d has timeStepFactor %d but is active (applied force %r) at this step; active biases using it: %s"
                                  % (sc["id"], tag, s, im["it"], i, v["tsf"], iv["f"], ["b%d(factor %d)" % (j, sc["biases"][j]["tsf"]) for j in keepers]),
                                  replay_of(sc, {tag: subset}, {"step_index": s, "var": i}))
                    return


# ------------------------------------------------------------------ fixed witnesses
def witness_scenarios():
    one = {"tsf": 1, "w": 1.0, "comps": [{"main": [0], "ref": [], "axis": 2, "coeff": 1.0, "np": 1}]}
    def steps(zs):
        return [("S", [[0.0, 0.0, z], [0.0, 0.0, 0.0]]) for z in zs]
    W = []
    # (1) first step of the run is not a multiple of the factor (fixed by fix-C08; C08_asleep_inactive)
    W.append({"id": 9001, "family": "witness-first-step", "natoms": 2, "mass": [1.0, 1.0], "vars": [dict(one)],
              "biases": [{"kind": "H", "tsf": 2, "vars": [0], "k": 1.0, "centers": [0.0]}], "it0": 1,
              "events": steps([1.0, 2.0, 3.0, 4.0]), "A": [0], "B": []})
    # (2) a user-disabled bias with factor 2 is re-enabled by the schedule (C08_disabled_refuted_tsf)
    W.append({"id": 9002, "family": "witness-disabled-tsf", "natoms": 2, "mass": [1.0, 1.0], "vars": [dict(one)],
              "biases": [{"kind": "H", "tsf": 2, "vars": [0], "k": 1.0, "centers": [0.0]}], "it0": 0,
              "events": steps([1.0, 1.0]) + [("X", 0, False)] + steps([1.0, 1.0, 1.0]), "A": [0], "B": []})
    # (3) variable with factor 2 used by a bias with factor 1 (C08_variable_factor_refuted)
    v2 = dict(one); v2["tsf"] = 2
    W.append({"id": 9003, "family": "witness-var-tsf", "natoms": 2, "mass": [1.0, 1.0], "vars": [v2],
              "biases": [{"kind": "H", "tsf": 1, "vars": [0], "k": 1.0, "centers": [0.0]}], "it0": 0,
              "events": steps([1.0, 2.0, 3.0, 4.0]), "A": [0], "B": []})
    # (4) the delivered total force is exactly zero: the applied force must still be subtracted (was a defect, repaired)
    vz = {"tsf": 1, "w": 1.0, "extra": ["subtractAppliedForce on", "outputTotalForce on"],
          "comps": [{"main": [0], "ref": [], "axis": 2, "coeff": 1.0, "np": 1, "onesite": True}]}
    W.append({"id": 9004, "family": "coupling", "natoms": 2, "mass": [1.0, 1.0], "vars": [vz],
              "biases": [{"kind": "H", "tsf": 1, "vars": [0], "k": 1.0, "centers": [0.0]},
                         {"kind": "L", "tsf": 1, "vars": [0], "k": 1.0, "centers": [0.0]}], "it0": 0,
              "events": [("S", [[0.0, 0.0, 1.0], [0.0, 0.0, 0.0]], [[0.0, 0.0, 1.0], [0.0, 0.0, 0.0]]),
                         ("S", [[0.0, 0.0, 1.0], [0.0, 0.0, 0.0]], [[0.0, 0.0, 0.5], [0.0, 0.0, 0.0]]),
                         ("S", [[0.0, 0.0, 1.0], [0.0, 0.0, 0.0]], [[0.0, 0.0, 0.5], [0.0, 0.0, 0.0]])],
              "A": [0], "B": [1], "samestep": False, "showtf": True})
    return W


def nonbiasing_scenario(r, k):
    """harmonic restraint A and an ABF with applyBias off B on the same variable: B must add nothing, neither to the
    forces nor to the reported energy (the ABF itself is C04's; here only its contribution is looked at)"""
    v = {"tsf": 1, "w": 1.0, "comps": [{"main": [0], "ref": [], "axis": 2, "coeff": 1.0, "np": 1, "onesite": True}]}
    ev = []
    for s in range(8):
        z = dy(r, -3, 3, 2)
        ev.append(("S", [[0.0, 0.0, z], [0.0, 0.0, 0.0]], [[0.0, 0.0, dy(r, -4, 4, 1)], [0.0, 0.0, 0.0]]))
    return {"id": k, "family": "nonbiasing", "natoms": 2, "mass": [1.0, 1.0], "vars": [v],
            "biases": [{"kind": "H", "tsf": r.choice([1, 2]), "vars": [0], "k": 2.0, "centers": [dy(r, -2, 2, 2)]},
                       {"kind": "F", "tsf": 1, "vars": [0], "k": 0.0}], "it0": 0, "events": ev, "A": [0], "B": [1]}


def ext_scenario(r, k):
    """an extended-Lagrangian variable (factor n) with harmonicWalls (bypassExtendedLagrangian, fb_actual) and a harmonic
    restraint (fb, acts on the extended coordinate), both with factor n; runs A+B, A (walls), B (harmonic) and 0 (no bias)"""
    n = r.choice([1, 1, 2, 3, 5])
    v = {"tsf": n, "w": 1.0, "extra": ["extendedLagrangian on", "extendedFluctuation 0.5", "extendedTimeConstant 200",
                                       "extendedTemp 300", "extendedLangevinDamping 0"],
         "comps": [{"main": [0], "ref": [], "axis": 2, "coeff": 1.0, "np": 1}]}
    biases = [{"kind": "W", "tsf": n, "vars": [0], "k": r.choice([1.0, 2.0, 4.0]), "centers": [dy(r, -1, 1, 2)]},
              {"kind": "H", "tsf": n, "vars": [0], "k": r.choice([0.5, 1.0, 2.0]), "centers": [dy(r, -2, 2, 2)]}]
    ev = []
    for s_ in range(r.randint(3, 5) * n + 1):
        ev.append(("S", [[0.0, 0.0, dy(r, -3, 3, 2)], [0.0, 0.0, 0.0]]))
    return {"id": k, "family": "ext", "natoms": 2, "mass": [1.0, 1.0], "vars": [v], "biases": biases, "it0": pick_it0(r),
            "events": ev, "A": [0], "B": [1], "zero_run": True}


def oracle_ext(run, sc, R):
    """O8 (implementation alone, extended-Lagrangian variable): routing f = n_v k (x_ext - x) + fb_actual, fr = fb / n_v;
    fb_actual = sum of n_b F_b over the bypassing biases evaluated at the ACTUAL value, fb = the same over the ordinary
    biases at the extended coordinate; the walls' share of the atom force is the same with and without the restraint"""
    nv = sc["vars"][0]["tsf"]
    w = fr(sc["vars"][0]["w"])
    for t_, sub in sc["_subsets"].items():
        steps = R[t_]["steps"]
        for s in range(first_error(steps)):
            iv = steps[s]["V"][0]
            if not iv["act"]:
                continue
            where = "scenario %d run %s step %d (it=%d)" % (sc["id"], t_, s, steps[s]["it"])
            rep = lambda: replay_of(sc, {t_: sub}, {"step_index": s})
            if not iv["ext"]:
                run.mismatch("pipeline:ext-config", {"scenario": sc["id"], "run": t_}, iv["ext"], 1)
                return
            efba, efb = Fr(0), Fr(0)
            for j in sub:
                b = sc["biases"][j]
                if steps[s]["it"] % b["tsf"] != 0:
                    continue
                kk = fr(b["k"])
                if b["kind"] == "W":
                    d = max(Fr(0), fr(iv["xa"]) - fr(b["centers"][0]))
                    efba += b["tsf"] * (-kk / (w * w) * d)
                else:
                    efb += b["tsf"] * (-kk / (w * w) * (fr(iv["xr"]) - fr(b["centers"][0])))
            if not close(iv["fba"], float(efba)) or not close(iv["fb"], float(efb)):
                run.violation("pipeline:ext:bias-routing", "%s: fb=%r fb_actual=%r; factor*force of the ordinary biases at the extended coordinate is %r, of the bypassing biases at the actual value %r"
                              % (where, iv["fb"], iv["fba"], float(efb), float(efba)), rep())
                return
            if not close(iv["f"], nv * iv["extk"] * (iv["xr"] - iv["xa"]) + iv["fba"]) or not close(iv["fr"], iv["fb"] / nv):
                run.violation("pipeline:ext:force-routing", "%s: applied force %r, n_v*k*(x_ext-x)+fb_actual = %r; force on the extended coordinate %r, fb/n_v = %r"
                              % (where, iv["f"], nv * iv["extk"] * (iv["xr"] - iv["xa"]) + iv["fba"], iv["fr"], iv["fb"] / nv), rep())
                return
    sAB, sA, sB, s0 = (R[x]["steps"] for x in ("AB", "A", "B", "0"))
    n = min(first_error(x) for x in (sAB, sA, sB, s0))
    for s in range(n):
        fab, fa, fb_, f0 = (atomf(x[s], sc["natoms"]) for x in (sAB, sA, sB, s0))
        for a in range(sc["natoms"]):
            for q in range(3):
                if not close(fab[a][q] - fb_[a][q], fa[a][q] - f0[a][q]):
                    run.violation("pipeline:ext:bypass-superposition",
                                  "scenario %d step %d: the walls add %r to the force on atom %d next to the restraint but %r on their own"
                                  % (sc["id"], s, fab[a][q] - fb_[a][q], a + 1, fa[a][q] - f0[a][q]),
                                  replay_of(sc, dict(sc["_subsets"]), {"step_index": s}))
                    return


def scripted_scenario(r, k):
    """scripted forces (scriptedColvarForces + `cv colvar v addforce g` from the engine's force callback) as one more
    contributor: run AB = restraint + script, A = restraint only, B = script only"""
    nv = r.choice([1, 2])
    vars_ = [{"tsf": 1, "w": 1.0, "comps": [{"main": [i], "ref": [], "axis": 2, "coeff": r.choice([1.0, 2.0, -1.0]), "np": r.choice([1, 1, 2])}]}
             for i in range(nv)]
    biases = [{"kind": r.choice(["H", "L", "W"]), "tsf": r.choice([1, 1, 2]), "vars": [0], "k": r.choice([1.0, 2.0]), "centers": [dy(r, -2, 2, 2)]}]
    if nv == 2 and r.random() < 0.5:
        biases.append({"kind": "H", "tsf": 1, "vars": [1], "k": 1.0, "centers": [dy(r, -2, 2, 2)]})
    ev = []
    for s_ in range(r.randint(6, 10)):
        g = [dy(r, -4, 4, 2) if r.random() < 0.8 else None for _ in range(nv)]
        ev.append(("S", [[0.0, 0.0, dy(r, -3, 3, 2)] for _ in range(2)] + [[0.0, 0.0, 0.0]], None, g))
    return {"id": k, "family": "scripted", "natoms": 3, "mass": [1.0, 1.0, 1.0], "vars": vars_, "biases": biases, "it0": pick_it0(r),
            "events": ev, "A": list(range(len(biases))), "B": [], "script_runs": ["AB", "B"], "force_B": True,
            "after_biases": r.random() < 0.5}


def oracle_scripted(run, sc, R):
    """O10: the scripted force is one more contribution: atoms(restraints + script) = atoms(restraints) + atoms(script), and
    the script alone gives g_i * coeff * np * x^(np-1) on the atom of variable i"""
    sAB, sA, sB = R["AB"]["steps"], R["A"]["steps"], R["B"]["steps"]
    calcs = [ev for ev in sc["events"] if ev[0] in ("S", "R")]
    for s in range(min(first_error(sAB), first_error(sA), first_error(sB))):
        fab, fa, fb_ = atomf(sAB[s], sc["natoms"]), atomf(sA[s], sc["natoms"]), atomf(sB[s], sc["natoms"])
        vin = var_inputs(sc, calcs[s][1])
        for i, v in enumerate(sc["vars"]):
            g = calcs[s][3][i]
            c = vin[i][0]
            want = float((fr(g) if g is not None else 0) * c["coeff"] * c["np"] * c["val"] ** (c["np"] - 1))
            if not close(fb_[i][2], want):
                run.violation("pipeline:scripted:force", "scenario %d step %d: the script adds %r to v%d; atom %d receives %r, expected %r"
                              % (sc["id"], s, g, i, i + 1, fb_[i][2], want), replay_of_scripted(sc, s))
                return
        for a in range(sc["natoms"]):
            for q in range(3):
                if not close(fab[a][q], fa[a][q] + fb_[a][q]):
                    asleep = [i for i, iv in enumerate(sAB[s]["V"]) if not iv["act"]]
                    sig = "pipeline:scripted:dropped-on-sleeping-variable" if asleep else "pipeline:scripted:superposition"
                    run.violation(sig, "scenario %d step %d (it=%d): force on atom %d with restraints and script %r, restraints alone %r, script alone %r; inactive variables in the combined run: %s"
                                  % (sc["id"], s, sAB[s]["it"], a + 1, fab[a], fa[a], fb_[a], asleep), replay_of_scripted(sc, s))
                    return


def replay_of_scripted(sc, s):
    return {"kind": "scenario", "scenario": {k_: v_ for k_, v_ in sc.items() if not k_.startswith("_")}, "step_index": s,
            "scripts": {t: "\n".join(scenario_lines(sc, sub, "%d:%s" % (sc["id"], t))) for t, sub in sc["_subsets"].items()},
            "model_cases": {}}


def abfcoupling_scenario(r, k):
    """a force-reading bias next to another bias under the documented coupling: ABF (applyBias on) and a restraint on the
    same one-atom distanceZ variable with subtractAppliedForce, lagged engine forces; A+B, ABF alone, restraint alone
    (C08_abf_coupling: same samples, hence same ABF force, hence exact superposition)"""
    v = {"tsf": 1, "w": 1.0, "extra": ["subtractAppliedForce on"],
         "comps": [{"main": [0], "ref": [], "axis": 2, "coeff": 1.0, "np": 1, "onesite": True}]}
    # the other biases: ordinary path (harmonic, linear: fb) and bypassing path (harmonicWalls: fb_actual), alone or mixed;
    # the trajectory (z in [-3,3]) crosses the walls (upper wall in [-2,1])
    others = r.choice([["W"], ["W"], ["H"], ["L"], ["H", "W"], ["W", "L"]])
    biases = [{"kind": "FA", "tsf": 1, "vars": [0], "k": 0.0, "full": r.choice([1, 2, 4])}]
    for kd in others:
        biases.append({"kind": kd, "tsf": r.choice([1, 1, 2]), "vars": [0], "k": r.choice([1.0, 2.0, 4.0]), "centers": [dy(r, -2, 1, 2)]})
    ev = []
    z = dy(r, -2, 2, 2)
    for s_ in range(r.randint(8, 14)):
        if r.random() < 0.6:
            z = dy(r, -3, 3, 2)
        ev.append(("S", [[0.0, 0.0, z], [0.0, 0.0, 0.0]], [[0.0, 0.0, dy(r, -4, 4, 3)], [0.0, 0.0, 0.0]]))
    return {"id": k, "family": "abfcoupling", "natoms": 2, "mass": [1.0, 1.0], "vars": [v], "biases": biases, "it0": 0,
            "events": ev, "A": [0], "B": list(range(1, len(biases))), "samestep": False}


def oracle_abf_coupling(run, sc, R):
    """O9: the ABF force is the same at every step with and without the other bias"""
    sAB, sA = R["AB"]["steps"], R["A"]["steps"]
    nz = 0
    for s in range(min(first_error(sAB), first_error(sA))):
        fab = [b for b in sAB[s]["B"] if b["name"] == "b0"][0]["F"]
        fa = [b for b in sA[s]["B"] if b["name"] == "b0"][0]["F"]
        nz += 1 if any(x != 0.0 for x in fa) else 0
        if len(fab) != len(fa) or any(not close(x, y) for x, y in zip(fab, fa)):
            run.violation("pipeline:abf-coupling:force", "scenario %d step %d (it=%d): the ABF force is %s next to the restraint and %s alone (subtractAppliedForce, lagged forces)"
                          % (sc["id"], s, sAB[s]["it"], fab, fa), replay_of(sc, {"AB": sorted(sc["A"] + sc["B"]), "A": [0]}, {"step_index": s}))
            return nz
    return nz


def scaled_scenario(r, k):
    """scaledBiasingForce: the force of a bias is multiplied by the factor read from scaledBiasingForceFactorsGrid at the bin
    of the current value (1 outside the grid); one variable with a 4-8 bin grid, values inside, on bin edges and outside"""
    w = r.choice([0.5, 1.0])
    nb = r.choice([4, 6, 8])
    lo = dy(r, -2, 0, 1)
    v = {"tsf": 1, "w": w, "lo": lo, "hi": lo + nb * w, "comps": [{"main": [0], "ref": [], "axis": 2, "coeff": r.choice([1.0, 2.0]), "np": 1}]}
    biases = []
    for _ in range(r.randint(1, 2)):
        b = {"kind": r.choice(["H", "L", "W", "A"]), "tsf": r.choice([1, 2, 3, 5, 6]), "vars": [0], "k": r.choice([1.0, 2.0]), "centers": [dy(r, -1, 1, 2)],
             "stop": 4.0, "dec": False}
        if r.random() < 0.8:
            b["grid"] = {"lo": lo, "w": w, "vals": [r.choice([0.0, 0.5, 1.0, 2.0, 3.0]) for _ in range(nb)]}
        biases.append(b)
    ev = []
    for s_ in range(r.randint(8, 12)):
        m = r.random()
        x = lo + r.randint(-2, nb + 2) * w if m < 0.3 else dy(r, lo - 1, lo + nb * w + 1, 3)
        z = x / v["comps"][0]["coeff"]
        ev.append(("S", [[0.0, 0.0, z], [0.0, 0.0, 0.0]]))
    nbs = len(biases)
    return {"id": k, "family": "scaled", "natoms": 2, "mass": [1.0, 1.0], "vars": [v], "biases": biases, "it0": pick_it0(r, (0, 0, 3)),
            "events": ev, "A": [0], "B": list(range(1, nbs))}


def vector_scenario(r, k):
    """a non-scalar variable (distanceVec between a 1-atom and a 1-2 atom group) with two harmonic restraints with factors 1-3:
    the non-scalar branch of colvar::communicate_forces"""
    g2 = r.choice([[1], [1, 2]])
    mass = [1.0, 1.0, 1.0]
    if len(g2) == 2:
        mass[1], mass[2] = r.choice(GROUPS2)
    v = {"tsf": 1, "w": r.choice([0.5, 1.0, 2.0]), "comps": [], "vec": {"g1": [0], "g2": g2, "coeff": r.choice([1.0, 2.0, -1.0, 0.5])}}
    biases = [{"kind": "H", "tsf": r.choice([1, 2, 3, 5, 6]), "vars": [0], "k": r.choice([0.5, 1.0, 2.0]),
               "vcenter": [dy(r, -2, 2, 2) for _ in range(3)]} for _ in range(2)]
    ev = [("S", [[dy(r, -3, 3, 2) for _ in range(3)] for _ in range(3)]) for _ in range(r.randint(6, 10))]
    return {"id": k, "family": "vector", "natoms": 3, "mass": mass, "vars": [v], "biases": biases, "it0": pick_it0(r, (0, 0, 2, 5)),
            "events": ev, "A": [0], "B": [1]}


def oracle_vector(run, sc, tag, subset, isteps):
    """O13: python recomputation for the vector variable: F_b = -k/w^2 (x - c) (x = COM2 - COM1), contributing at multiples of
    its factor with factor * F_b; group2 atoms get +F m_i/M2, the group1 atom -F; energy = sum 1/2 k/w^2 |x - c|^2"""
    v = sc["vars"][0]
    w = fr(v["w"])
    calcs = [ev for ev in sc["events"] if ev[0] == "S"]
    g1, g2 = v["vec"]["g1"], v["vec"]["g2"]
    M2 = sum(fr(sc["mass"][a]) for a in g2)
    for s in range(min(first_error(isteps), len(calcs))):
        it = isteps[s]["it"]
        pos = calcs[s][1]
        cf = fr(v["vec"].get("coeff", 1.0))
        x = [cf * (sum(fr(sc["mass"][a]) * fr(pos[a][q]) for a in g2) / M2 - fr(pos[g1[0]][q])) for q in range(3)]
        F = [Fr(0)] * 3
        E = Fr(0)
        for j in subset:
            b = sc["biases"][j]
            if it % b["tsf"] != 0:
                continue
            kk = fr(b["k"]) / (w * w)
            d = [x[q] - fr(b["vcenter"][q]) for q in range(3)]
            E += kk / 2 * sum(t * t for t in d)
            for q in range(3):
                F[q] += b["tsf"] * (-kk * d[q])
        want = [[Fr(0)] * 3 for _ in range(sc["natoms"])]
        for a in g2:
            for q in range(3):
                want[a][q] += cf * F[q] * fr(sc["mass"][a]) / M2
        for q in range(3):
            want[g1[0]][q] -= cf * F[q]
        got = atomf(isteps[s], sc["natoms"])
        if any(not close(got[a][q], float(want[a][q])) for a in range(sc["natoms"]) for q in range(3)) or not close(isteps[s]["E"], float(E)):
            run.violation("pipeline:vector:atom-force", "scenario %d run %s step %d (it=%d): forces %s energy %r; factor * harmonic force on the 3-vector variable gives %s energy %r"
                          % (sc["id"], tag, s, it, got, isteps[s]["E"], [[float(t) for t in u] for u in want], float(E)),
                          replay_of_scripted(sc, s))
            return


def toggle_scenario(r, k):
    """run-time changes of what the configuration fixed: `cv bias b set apply_force off|on` for a few steps, `cv bias b set
    active off|on`, `cv bias b delete` in the middle of the run, a rejected configuration; 2-3 applying biases sharing 1-2 variables.
    The pipeline model has apply_force as a constant and no deletion: this family is checked by the python specification (O2),
    superposition (O1), impulse windows, errors - not by the model."""
    sc = gen_scenario(r, k, "mix")
    sc["family"] = "toggle"
    sc["perm_run"] = False
    nb = len(sc["biases"])
    for b in sc["biases"]:
        if b["kind"] == "G":
            b["kind"] = "H"
            b["centers"] = [dy(r, -4, 4, 2) for _ in b["vars"]]
        b["tsf"] = r.choice([1, 1, 1, 2, 3])     # script-switched biases with factor > 1: the known finding is left to the mix family
    ev = []
    deleted = set()
    with_delete = r.random() < 0.4        # without deletions the scenario is also compared with the model
    for e in sc["events"]:
        if e[0] == "X":
            continue
        if e[0] in ("S", "R") and ev and r.random() < 0.3:
            j = r.randrange(nb)
            if j not in deleted:
                m = r.random()
                if m < 0.55:
                    ev.append(("Y", j, r.random() < 0.5))
                elif m < 0.8 and sc["biases"][j]["tsf"] == 1:
                    ev.append(("X", j, r.random() < 0.5))
                elif m < 0.9 and len(deleted) + 1 < nb and with_delete:
                    ev.append(("D", j))
                    deleted.add(j)
        ev.append(e)
    sc["events"] = ev
    return sc


def restart_scenario(r, k):
    """the run is split in two jobs: state saved (text or binary), fresh instance with the same configuration, state loaded; the
    first step of the second job is the step of the save, mostly NOT a multiple of the factors; stateless restraints only"""
    sc = gen_scenario(r, k, "mix")
    sc["family"] = "restart"
    sc["perm_run"] = False
    for b in sc["biases"]:
        if b["kind"] in ("A", "G"):
            b["kind"] = r.choice(["H", "L", "W"])
            b["centers"] = [dy(r, -4, 4, 2) for _ in b["vars"]]
    evs = [e for e in sc["events"] if e[0] in ("S", "R")]
    cut = r.randint(2, max(2, len(evs) - 2))
    # the new job starts from the saved configuration: its first calc() repeats the step and the positions of the save
    rest = [("S", [list(p_) for p_ in evs[cut - 1][1]])] + evs[cut:]
    sc["events"] = evs[:cut] + [("Z", r.choice(["text", "binary"]))] + rest
    return sc


def jacobian_scenario(r, k):
    """hideJacobian under multiple time stepping: a distance variable (Jacobian force 2kT/r) with timeStepFactor n, an ABF bias with
    hideJacobian on and applyBias on and the same factor (and sometimes a harmonic restraint with the same factor), T = 300,
    same-step total forces; atoms on the z axis so that the gradient is exactly (0,0,+-1)"""
    n = r.choice([1, 2, 3, 5])
    v = {"tsf": n, "w": 0.5, "lo": 0.0, "hi": 16.0, "comps": [], "dist": [0, 1]}
    biases = [{"kind": "FA", "tsf": n, "vars": [0], "k": 0.0, "full": r.choice([1, 2]), "hidej": r.random() < 0.85}]
    if r.random() < 0.5:
        biases.append({"kind": "H", "tsf": n, "vars": [0], "k": r.choice([1.0, 2.0]), "centers": [dy(r, 2, 6, 2)]})
    ev = []
    for s_ in range(3 * n + r.randint(2, 5)):
        z1 = dy(r, -2, 0, 2)
        ev.append(("S", [[0.0, 0.0, z1], [0.0, 0.0, z1 + dy(r, 1, 6, 3)], [0.0, 0.0, 0.0]], [[0.0, 0.0, dy(r, -2, 2, 2)], [0.0, 0.0, dy(r, -2, 2, 2)], [0.0, 0.0, 0.0]]))
    return {"id": k, "family": "jacobian", "natoms": 3, "mass": [1.0, 1.0, 1.0], "vars": [v], "biases": biases, "it0": pick_it0(r, (0, 0, 1)),
            "events": ev, "A": [0], "B": list(range(1, len(biases))), "temperature": 300.0}


def oracle_jacobian(run, sc, tag, subset, isteps, model):
    """O15: colvar::f = sum over the active applying biases of factor_b * F_b - factor_v * fj * [hideJacobian and apply_force]
    (F_b: the bias's own dumped force; fj: the variable's Jacobian force), zero while the variable sleeps; the atoms on the
    axis receive -f and +f; tie: the extracted jac_force on the dumped fb, fb_actual, fj"""
    nj = 0
    cases, where = [], []
    for s in range(first_error(isteps)):
        im = isteps[s]
        iv = im["V"][0]
        n = sc["vars"][0]["tsf"]
        awake = im["it"] % n == 0
        byname = {bb["name"]: bb for bb in im["B"]}
        want = 0.0
        if awake:
            for j in subset:
                bb = byname.get("b%d" % j)
                if bb and bb["act"] and bb["apply"]:
                    want += sc["biases"][j]["tsf"] * bb["F"][0]
            if iv["hidej"] and iv["apply"]:
                want -= n * iv["fj"]
                nj += 1 if iv["fj"] != 0.0 else 0
        if bool(iv["act"]) != awake or not close(iv["f"], want):
            run.violation("pipeline:jacobian:variable-force", "scenario %d run %s step %d (it=%d): variable with timeStepFactor %d, hideJacobian %d: applied force %r (active %d), factor*(bias forces) - factor*fj = %r (fj = %r)"
                          % (sc["id"], tag, s, im["it"], n, iv["hidej"], iv["f"], iv["act"], want, iv["fj"]), replay_of_scripted(sc, s))
            return nj
        ia = atomf(im, sc["natoms"])
        if not close(ia[1][2], iv["f"]) or not close(ia[0][2], -iv["f"]):
            run.violation("pipeline:jacobian:atom-force", "scenario %d run %s step %d: atoms receive %s, the variable's force is %r" % (sc["id"], tag, s, ia, iv["f"]),
                          replay_of_scripted(sc, s))
            return nj
        if iv["act"]:
            cases.append("JAC 1 %d %d %d %s %s %s" % (n, iv["hidej"], iv["apply"], hx(iv["fb"]), hx(iv["fba"]), hx(iv["fj"])))
            where.append(s)
    if cases:
        rc, mo, _e = V.run_lines(model, cases)
        for s, line in zip(where, mo):
            if not close(hf(line.strip()), isteps[s]["V"][0]["f"]):
                run.mismatch("pipeline:jacobian", {"scenario": sc["id"], "run": tag, "step_index": s}, isteps[s]["V"][0]["f"], hf(line.strip()))
    return nj


def coupling_scenario(r, k):
    """lagged engine forces that include the Colvars forces, a one-atom distanceZ variable with subtractAppliedForce and
    outputTotalForce, two restraints: the total force reported at step t+1 must be the engine's own force of step t,
    with A+B, with A and with B (C08_total_force_coupling)"""
    v = {"tsf": 1, "w": r.choice([0.5, 1.0, 2.0]), "extra": ["subtractAppliedForce on", "outputTotalForce on"],
         "comps": [{"main": [0], "ref": [], "axis": 2, "coeff": 1.0, "np": 1, "onesite": True}]}
    # ordinary (fb) and bypassing (harmonicWalls: fb_actual) biases mixed; the trajectory crosses the walls
    biases = [{"kind": r.choice(["H", "W", "W"]), "tsf": r.choice([1, 1, 2, 3, 5]), "vars": [0], "k": r.choice([0.5, 1.0, 2.0]), "centers": [dy(r, -2, 1, 2)]},
              {"kind": r.choice(["H", "L", "W"]), "tsf": r.choice([1, 2]), "vars": [0], "k": r.choice([1.0, 2.0]), "centers": [dy(r, -2, 1, 2)]}]
    ev = []
    for s_ in range(r.randint(6, 10)):
        z = dy(r, -3, 3, 2)
        ev.append(("S", [[0.0, 0.0, z], [0.0, 0.0, 0.0]], [[0.0, 0.0, dy(r, -4, 4, 3)], [0.0, 0.0, 0.0]]))
    return {"id": k, "family": "coupling", "natoms": 2, "mass": [1.0, 1.0], "vars": [v], "biases": biases, "it0": pick_it0(r, (0,)),
            "events": ev, "A": [0], "B": [1], "samestep": False, "showtf": True}


def oracle_coupling(run, sc, R, tfmodel):
    """O6: TF(t+1) is the engine's own force s_t in all three runs, also when the delivered force s_t + f_t is exactly
    zero (witness 9004; returns the number of such steps); tie: the extracted tf_trace on (s_t, f_t)"""
    svals = [ev[2][0][2] for ev in sc["events"] if ev[0] == "S"]
    skipped = 0
    for t_, steps in ((t_, R[t_]["steps"]) for t_ in R):
        n = first_error(steps)
        if any(not stp["V"][0]["act"] for stp in steps[:n]):
            # the variable sleeps with its only bias: tf_trace (a variable evaluated at every step) does not apply
            run.dist("coupling:run-skipped-variable-asleep")
            continue
        for s in range(n - 1):
            f = steps[s]["V"][0]["f"]
            got = steps[s + 1]["TF"].get("v0")
            if svals[s] + f == 0.0:
                # delivered force exactly zero: repaired in /repo (guard step_relative > 0 instead of ft.norm2() > 0);
                # counted, and checked like any other step
                skipped += 1
            if got is None or not close(got, svals[s]):
                run.violation("pipeline:coupling:total-force", "scenario %d run %s: total force reported at step %d is %r, the engine's own force at step %d was %r (Colvars applied %r)"
                              % (sc["id"], t_, s + 1, got, s, svals[s], f), replay_of(sc, {t_: sc["_subsets"][t_]}, {"step_index": s + 1}))
                return skipped
        mt = tfmodel.get("%d:%s" % (sc["id"], t_))
        if mt is not None:
            imp = [steps[s]["TF"].get("v0") for s in range(n)]
            if len(mt) < n or any(imp[s] is None or not close(imp[s], mt[s]) for s in range(n)):
                run.mismatch("pipeline:total-force", {"scenario": sc["id"], "run": t_}, imp, mt[:n])
    return skipped


# ------------------------------------------------------------------ driver of the check
def setup():
    V.extract_model("C08", EXTRACT, DRIVER, ["ocaml/fops.ml"])
    V.build_prog("c08unit", PROGS["c08unit"])


def run_batch(unit, model, scs, d):
    """run every scenario: implementation with AB, A, B; model with the same; returns {id: {tag: parsed}}"""
    L = []
    M = []
    keys = []
    for sc in scs:
        AB = sorted(sc["A"] + sc["B"])
        subsets = {"AB": AB, "A": sc["A"]}
        if sc["B"]:
            subsets["B"] = sc["B"]
        else:
            subsets = {"A": sc["A"]}
        if sc.get("zero_run"):
            subsets["0"] = []
        if sc.get("force_B"):
            subsets = {"AB": AB, "A": sc["A"], "B": []}
        if any(ev[0] == "C" for ev in sc["events"]) and sc["family"] == "mix":
            for t0 in list(subsets):  # the same runs without the rejected configuration attempts
                subsets["N" + t0] = subsets[t0]
        if sc.get("perm_run") and len(AB) >= 2:
            subsets["P"] = AB          # the same biases, written in the reverse order in the configuration
        sc["_subsets"] = subsets
        for t, sub in subsets.items():
            tag = "%d:%s" % (sc["id"], t)
            L += scenario_lines(sc, sub, tag)
            if all(sc["biases"][j]["kind"] not in ("F", "FA") for j in sub) and sc["family"] not in ("ext", "scripted", "vector", "jacobian") and t != "P" and not t.startswith("N") \
               and not any(ev[0] == "D" for ev in sc["events"]):
                for q_, seg in enumerate(model_case(sc, sub).split(" @@ ")):
                    M.append(seg)
                    keys.append((tag, q_))
    for sc in scs:
        for j, b in enumerate(sc["biases"]):
            if b.get("grid"):
                g = b["grid"]
                with open(os.path.join(d, "sf_%d_%d.dat" % (sc["id"], j)), "w") as f:
                    f.write("# 1\n# %r %r %d 0\n\n" % (float(g["lo"]), float(g["w"]), len(g["vals"])))
                    for q, x in enumerate(g["vals"]):
                        f.write("%r %r\n" % (float(g["lo"]) + (q + 0.5) * float(g["w"]), float(x)))
    rc, out, err = V.run_lines(unit, L, timeout=1200, cwd=d)
    impl = parse_impl(out)
    rc2, mout, err2 = V.run_lines(model, M, timeout=1200)
    mod = {}
    for (kx, q_), line in zip(keys, mout):
        mod[kx] = line if q_ == 0 else (mod[kx] + " ; " + line if mod[kx].strip() and line.strip() else mod[kx] + line)
    return impl, mod, (rc, err[-300:] if err else "")


def check(run):
    r = V.rng("C08")
    quick = run.tier == "quick"
    run.cov["rule"] = ("scenarios: 2-5 atoms, 1-3 scalar variables built from 1-2 distanceZ components (1-2 atom groups, dummy or atom "
                       "reference, axes x/y/z, componentCoeff, componentExp 1-3, variable-level timeStepFactor), 1-4 biases (harmonic, "
                       "linear, harmonicWalls, ABMD, histogram; timeStepFactor 1-4) sharing or not sharing variables and atoms, first step "
                       "0..12, 6-14 steps with script enable/disable events and repeated steps; every scenario is run with A+B, A and B. "
                       "distinct = scenario id x run; non-trivial = at least two biases active at some step in A+B, or a factor > 1 with a complete window")
    run.assumptions += [
        "theorems are about the R instance of the model; the tie runs the float instance on dyadic inputs (comparisons to 1e-9)",
        "the values and atomic gradients of the distanceZ components presented to the model are computed by the python generator in exact arithmetic",
    ]
    st = V.standard_start(run, PROP, EXTRACT, DRIVER, PROGS)
    if st is None:
        return
    model, exes = st
    unit = os.environ.get("C08_UNIT_EXE") or exes["c08unit"]     # e.g. a --coverage build of the same harness
    d = V.scratch("C08")

    scs = []
    cp = os.path.join(V.ROOT, "corpus", "C08_scenarios.json")
    if os.path.exists(cp):
        scs += json.load(open(cp))
    scs += witness_scenarios()
    n_mix, n_imp, n_vt, n_nb, n_cp = (140, 40, 30, 6, 12) if quick else (4000, 1200, 800, 100, 300)
    k = 0
    for fam, n in (("mix", n_mix), ("impulse", n_imp), ("vartsf", n_vt)):
        for _ in range(n):
            scs.append(gen_scenario(r, k, fam))
            k += 1
    for _ in range(n_nb):
        scs.append(nonbiasing_scenario(r, k))
        k += 1
    for _ in range(n_cp):
        scs.append(coupling_scenario(r, k))
        k += 1
    for _ in range(16 if quick else 400):
        scs.append(scaled_scenario(r, k))
        k += 1
    for _ in range(10 if quick else 300):
        scs.append(vector_scenario(r, k))
        k += 1
    for _ in range(24 if quick else 600):
        scs.append(toggle_scenario(r, k))
        k += 1
    for _ in range(16 if quick else 400):
        scs.append(restart_scenario(r, k))
        k += 1
    for _ in range(16 if quick else 400):
        scs.append(jacobian_scenario(r, k))
        k += 1
    for _ in range(12 if quick else 300):
        scs.append(ext_scenario(r, k))
        k += 1
    for _ in range(12 if quick else 300):
        scs.append(abfcoupling_scenario(r, k))
        k += 1
    for _ in range(12 if quick else 300):
        scs.append(scripted_scenario(r, k))
        k += 1

    # batches keep the harness input small
    BATCH = 200
    windows = 0
    zero_skipped = 0
    abf_nonzero = 0
    jac_nonzero = 0
    for b0 in range(0, len(scs), BATCH):
        batch = scs[b0:b0 + BATCH]
        impl, mod, (rc, err) = run_batch(unit, model, batch, d)
        for sc in batch:
            subsets = sc["_subsets"]
            _SCALE[0] = sc.get("kscale", 1.0)
            R = {}
            ok = True
            for t, sub in subsets.items():
                tag = "%d:%s" % (sc["id"], t)
                ci = impl.get(tag)
                if ci is None or not ci["complete"] or ci["config"] is None or "err=ok" not in ci["config"] \
                   or "nbias=%d" % len(sub) not in ci["config"]:
                    run.mismatch("pipeline:config", {"scenario": sc["id"], "run": t, "script": "\n".join(scenario_lines(sc, sub, tag))[:3000]},
                                 (ci or {}).get("config"), "accepted, complete run (harness rc=%s %s)" % (rc, err))
                    ok = False
                    continue
                R[t] = ci
            if not ok:
                continue
            nontriv = False
            for t, sub in subsets.items():
                tag = "%d:%s" % (sc["id"], t)
                isteps = R[t]["steps"]
                if t == "P" or t.startswith("N"):
                    continue
                sub = impl_order(sc, sub)
                if sc["family"] != "toggle" and any([b["name"] for b in stp["B"]] != ["b%d" % j for j in sub] for stp in isteps):
                    run.mismatch("pipeline:bias-order", {"scenario": sc["id"], "run": t}, [b["name"] for b in isteps[0]["B"]], sub)
                    continue
                run.dist("family:" + sc["family"])
                if tag in mod:
                    msteps = parse_model_line(mod[tag], sc["natoms"])
                    compare_model(run, sc, t, sub, msteps, isteps)
                if sc["family"] == "vector":
                    oracle_vector(run, sc, t, sub, isteps)
                if sc["family"] == "jacobian":
                    jac_nonzero += oracle_jacobian(run, sc, t, sub, isteps, model)
                if sc["family"] not in ("nonbiasing", "ext", "abfcoupling", "scripted", "vector", "jacobian"):
                    oracle_spec(run, sc, t, sub, isteps)
                    w = oracle_impulse(run, sc, t, sub, isteps)
                    windows += w
                    nontriv = nontriv or w > 0
                    oracle_var_tsf(run, sc, t, sub, isteps)
                oracle_errors(run, sc, t, sub, isteps)
                oracle_getenergy(run, sc, t, sub, isteps)
                if t in ("AB",) and any(sum(b["act"] for b in stp["B"]) >= 2 for stp in isteps):
                    nontriv = True
            if "P" in R:
                oracle_order(run, sc, R)
            for t0 in ("AB", "A", "B"):
                if "N" + t0 in R and t0 in R:
                    oracle_rejected(run, sc, R, t0)
            if "AB" in R:
                if sc["family"] == "scripted":
                    oracle_scripted(run, sc, R)
                elif sc["family"] != "ext":     # on an extended variable the spring force is in every run: O8 instead
                    oracle_superposition(run, sc, R)
                if sc["family"] == "nonbiasing":
                    oracle_nonbiasing(run, sc, R)
                if sc["family"] == "ext":
                    oracle_ext(run, sc, R)
                if sc["family"] == "abfcoupling":
                    abf_nonzero += oracle_abf_coupling(run, sc, R)
                if sc["family"] == "coupling":
                    # second model pass: tf_trace on the system forces and the applied forces of the pipeline model
                    tl, tk = [], []
                    svals = [ev[2][0][2] for ev in sc["events"] if ev[0] == "S"]
                    for t in subsets:
                        tag = "%d:%s" % (sc["id"], t)
                        if tag in mod:
                            ms = parse_model_line(mod[tag], sc["natoms"])
                            tl.append("TFR 1 1 1 %d " % len(ms) + " ".join("%s %s %s" % (hx(svals[q]), hx(ms[q]["V"][0]["fb"]), hx(ms[q]["V"][0]["fba"])) for q in range(len(ms))))
                            tk.append(tag)
                    rc3, tout, _e3 = V.run_lines(model, tl)
                    tfm = {kk: [hf(x) for x in ln.split()] for kk, ln in zip(tk, tout)}
                    zero_skipped += oracle_coupling(run, sc, R, tfm)
            for t in subsets:
                run.count("%d:%s" % (sc["id"], t), nontriv)
            for bb in sc["biases"]:
                run.dist("bias:%s:tsf=%d" % (bb["kind"], bb["tsf"]))
            for v in sc["vars"]:
                run.dist("var:tsf=%d" % v["tsf"])
            run.dist("it0=%d" % sc["it0"])
            if sc["id"] in (0, 1):
                run.sample({"scenario": {kk: vv for kk, vv in sc.items() if not kk.startswith("_")},
                            "script_AB": scenario_lines(sc, sorted(sc["A"] + sc["B"]), "x")[:60]})
    run.cov["correspondence"].update({"scenarios": len(scs), "impulse_windows_checked": windows,
                                      "coupling_steps_with_total_force_exactly_zero": zero_skipped,
                                      "abf_coupling_steps_with_nonzero_abf_force": abf_nonzero,
                                      "jacobian_steps_with_hidden_nonzero_fj": jac_nonzero})


def replay(path):
    j = json.load(open(path))
    rp = j["replay"]
    print(json.dumps({kk: vv for kk, vv in j.items() if kk != "replay"}, indent=1)[:3000])
    if rp.get("kind") == "scenario":
        unit = V.build_prog("c08unit", PROGS["c08unit"])
        model = V.extract_model("C08", EXTRACT, DRIVER, ["ocaml/fops.ml"])
        d = V.scratch("C08r")
        for t, script in rp["scripts"].items():
            print("==== implementation, run %s" % t)
            print("\n".join(V.run_lines(unit, script.split("\n"), cwd=d)[1]))
            print("==== model, run %s" % t)
            for part in (V.run_lines(model, [rp["model_cases"][t]])[1] if rp.get("model_cases", {}).get(t) else ["(no model case for this family)"]):
                print(part.replace(" ; ", "\n"))
    else:
        print(json.dumps(rp, indent=1)[:6000])
    return 0
