// C08 harness: the engine simulator plus a command `mdump` that prints, after a step, what the
// module model carries: for every variable the state of the features active / awake / apply_force
// (enabled flag and reference count), value, fb, fb_actual and the applied force f; for every bias
// the state of active / awake / apply_force, energy and per-variable forces (ABMD: reference value).
// Reads scenarios from stdin/argv[1].
#include <cstdio>
#include <cstdlib>
#include <cstring>
#include <cmath>
#include <iostream>
#include <fstream>
#include <sstream>
#include <string>
#include <vector>
#include <map>
#include <algorithm>
#include <functional>
#include <thread>
#include <mutex>
#include <list>
#include <set>
#include <memory>
#include <iomanip>
#include <unordered_map>
#define private public
#define protected public
#include "vsim.h"
#include "colvarbias_abmd.h"

struct c08_session : public vsim_session {
  c08_session(std::ostream *o) : vsim_session(o) {}

  static std::string hexlist(std::vector<colvarvalue> const &v)
  {
    std::string s;
    for (size_t i = 0; i < v.size(); i++) { if (i) s += ","; s += vs_hex(v[i]); }
    return s.size() ? s : "-";
  }

  bool exec_extra(std::string const &cmd, std::vector<std::string> const &, std::istream &) override
  {
    std::ostream &o = *out;
    if (cmd == "mdump") {
      colvarmodule *cv = proxy->colvars;
      for (colvar *c : *(cv->variables())) {
        colvardeps::feature_state const &fa = c->feature_states[colvardeps::f_cv_active];
        colvardeps::feature_state const &fw = c->feature_states[colvardeps::f_cv_awake];
        colvardeps::feature_state const &fp = c->feature_states[colvardeps::f_cv_apply_force];
        o << "MV " << c->name << " act=" << (fa.enabled ? 1 : 0) << " rc=" << fa.ref_count
          << " awake=" << (fw.enabled ? 1 : 0) << " apply=" << (fp.enabled ? 1 : 0) << " arc=" << fp.ref_count
          << " x=" << vs_hex(c->x) << " fb=" << vs_hex(c->fb) << " fba=" << vs_hex(c->fb_actual)
          << " f=" << vs_hex(c->f)
          << " ext=" << (c->is_enabled(colvardeps::f_cv_extended_Lagrangian) ? 1 : 0)
          << " xr=" << vs_hex(c->value()) << " xa=" << vs_hex(c->actual_value())
          << " fr=" << vs_hex(c->fr) << " extk=" << vs_hex(c->ext_force_k)
          << " fj=" << vs_hex(c->fj) << " hidej=" << (c->is_enabled(colvardeps::f_cv_hide_Jacobian) ? 1 : 0)
          << " tsf=" << c->get_time_step_factor() << "\n";
      }
      for (colvarbias *b : cv->biases) {
        colvardeps::feature_state const &fa = b->feature_states[colvardeps::f_cvb_active];
        colvardeps::feature_state const &fw = b->feature_states[colvardeps::f_cvb_awake];
        colvardeps::feature_state const &fp = b->feature_states[colvardeps::f_cvb_apply_force];
        o << "MB " << b->name << " act=" << (fa.enabled ? 1 : 0) << " rc=" << fa.ref_count
          << " awake=" << (fw.enabled ? 1 : 0) << " apply=" << (fp.enabled ? 1 : 0)
          << " E=" << vs_hex(b->get_energy()) << " F=" << hexlist(b->colvar_forces);
        if (colvarbias_abmd *ab = dynamic_cast<colvarbias_abmd *>(b))
          o << " REF=" << (ab->ref_initialized ? vs_hex(ab->ref_val) : std::string("-"));
        o << "\n";
      }
      return true;
    }
    return false;
  }
};

int main(int argc, char **argv)
{
  c08_session s(&std::cout);
  if (argc > 1 && std::string(argv[1]) != "-") {
    std::ifstream f(argv[1]);
    if (!f) { std::cerr << "cannot open " << argv[1] << "\n"; return 2; }
    s.run(f);
  } else {
    s.run(std::cin);
  }
  std::cout.flush();
  return 0;
}
