#!/usr/bin/env python3
"""Line coverage of the functions the C14 models are anchored to.

usage: covreport.py <dir with *.gcov> [-v]
Build and run:  C14_VARIANT=cov VERIF_BUILD=<scratch> ./check C14 --tier quick
then            cd <scratch>/cov/obj && gcov -o . colvarbias_abf.cpp colvarbias_meta.cpp colvarbias_opes.cpp
A line counts as executed if any template instance executed it.
"""
import re, sys, os
ANCH = {
 "colvarbias_abf.cpp": ["replica_share", "replica_share_CZAR", "read_state_data_template_",
                        "write_state_data_template_", "write_output_files", "write_gradients_samples"],
 "colvarbias_meta.cpp": ["update_replicas_registry", "read_replica_files", "read_hill_template_",
                         "setup_output", "write_state_to_replicas", "write_replica_state_file",
                         "reopen_replica_buffer_file", "replica_share", "replica_state_file_complete",
                         "hill_record_complete", "init_replicas_params"],
 "colvarbias_opes.cpp": ["update_opes"],
}
def report(d, verbose):
    tot = [0, 0]
    for f, fns in ANCH.items():
        p = os.path.join(d, f + ".gcov")
        if not os.path.exists(p):
            continue
        cur = None
        best = {}     # line -> (fn, max count, text)
        for ln in open(p, errors="replace"):
            m = re.match(r"\s*([^:]+):\s*(\d+):(.*)", ln)
            if not m:
                continue
            cnt, no, text = m.group(1).strip(), int(m.group(2)), m.group(3)
            mm = re.match(r"^[A-Za-z].*?(\w+)::(\w+)\s*\(", text)
            if mm:
                cur = mm.group(2)
            if cur not in fns or cnt == "-":
                continue
            c = 0 if cnt.startswith("#") or cnt.startswith("=") else int(cnt.rstrip("*"))
            if no not in best or best[no][1] < c:
                best[no] = (cur, c, text.strip())
        per = {}
        for no, (fn, c, text) in sorted(best.items()):
            st = per.setdefault(fn, [0, 0, []])
            if c:
                st[0] += 1
            else:
                st[1] += 1
                st[2].append((no, text))
        for fn, (a, b, miss) in per.items():
            print("%-22s %-28s executed %3d  not %3d" % (f, fn, a, b))
            tot[0] += a; tot[1] += b
            if verbose:
                for no, t in miss:
                    print("      %5d  %s" % (no, t[:100]))
    print("TOTAL executed %d not %d (%.1f%%)" % (tot[0], tot[1], 100.0 * tot[0] / max(1, sum(tot))))
if __name__ == "__main__":
    report(sys.argv[1], "-v" in sys.argv)
