# Scenario runners for C14: they drive real walker processes (props/C14/unit.cpp = c14walk) through
# the controller of walkers.py and return, per event, what the implementation holds.
#   run_abf(exe, case, scratch)   shared ABF over the socket replica interface
#   run_meta(exe, case, scratch)  file-based multiple-walker metadynamics, walkers sharing files directly
#   run_view(exe, case, scratch)  one real writer P, one real reader R, and the controller as the file
#                                 system between them (R sees any byte prefix of P's hills file)
import os, shutil, json
import walkers as W

# ------------------------------------------------------------------------------------------
# shared ABF
# ------------------------------------------------------------------------------------------

def abf_conf(case):
    nd = case["nd"]
    L = []
    for d in range(nd):
        L += ["colvar {", "  name v%d" % d, "  lowerBoundary 0", "  upperBoundary %d" % case["nbins"][d], "  width 1",
              "  distanceZ {", "    main { atomNumbers %d }" % (d + 1), "    ref { dummyAtom (0,0,0) }",
              "    axis (0,0,1)", "    oneSiteTotalForce on", "  }", "}"]
    L += ["abf {", "  name a", "  colvars " + " ".join("v%d" % d for d in range(nd)),
          "  fullSamples %d" % case.get("full", 2), "  applyBias %s" % ("on" if case.get("apply", True) else "off")]
    if not case.get("integrate", True):
        L += ["  integrate off"]
    if case.get("hist"):
        # periodic output with a history of the shared grids (written by replica 0 only)
        of = case["freq"] if case["freq"] > 0 else 2
        L += ["  outputFreq %d" % of, "  historyFreq %d" % of]
    if case.get("script"):
        # sharing is switched on by the script command "cv bias a share" (event "x"), not by the configuration
        L += ["}"]
    else:
        L += ["  shared on", "  sharedFreq %d" % case["freq"], "}"]
    return L


def strip_last_section(path, fmt, cut_in_key=False):
    """Turn the state file of a shared-ABF walker into one of the older format, which has no
    last_samples/last_gradient section (text: the lines from the keyword to the closing brace of the
    block; binary: from the length word of the keyword to the end -- the ABF block is the last one).
    cut_in_key: binary only, keep the length word and 3 bytes of the keyword (a file cut short)."""
    data = open(path, "rb").read()
    if fmt == "text":
        lines = data.decode().split("\n")
        i = next(k for k, x in enumerate(lines) if x.strip() == "last_samples")
        j = next(k for k in range(i, len(lines)) if lines[k].strip() == "}")
        # (states that have the sections announce them with "sharedData on" among the state parameters: an older state does not)
        out = "\n".join(x for x in lines[:i] + lines[j:] if x.strip() != "sharedData on").encode()
    else:
        i = data.index(b"last_samples")
        out = data[:i + 3] if cut_in_key else data[:i - 8]
        kw = b"sharedData on\n"
        if not cut_in_key and kw in out:
            # the state parameters are a string with an 8-byte length in front of it, after the keyword "configuration" of the block
            k = out.index(kw)
            c = out.rindex(b"configuration", 0, k) + len(b"configuration")
            n = int.from_bytes(out[c:c + 8], "little")
            out = out[:c] + (n - len(kw)).to_bytes(8, "little") + out[c + 8:k] + out[k + len(kw):]
    atomic_write(path, out)


def abf_setup(case, first=True):
    L = ["natoms %d" % case["nd"], "samestep 1", "includecv 1"] + (["smp perm 2"] if case.get("smp") else []) + \
        ["new"] + (["setstep %d" % case["step0"]] if case.get("step0") else []) + ["config EOF"] + abf_conf(case) + \
        (["harmonic {", "  name h", "  colvars v0", "  centers 0", "  forceConstant 0.0", "}"] if case.get("smp") else []) + ["EOF",
         "show cv 0 energy 0 bias 0 atomf 0"] + (["outprefix out"] if case.get("output") else [])
    return L


def parse_shared(lines):
    """SHARED line -> dict(cnt, sum, lcnt, lsum, ocnt, osum, step, last_step)"""
    for s in lines:
        if s.startswith("SHARED "):
            t = s.split()
            d = {}
            key = None
            for w in t[1:]:
                if "=" in w and key is None:
                    k, v = w.split("=")
                    d[k] = int(v)
                elif w in ("cnt", "sum", "lcnt", "lsum", "ocnt", "osum", "zcnt", "zsum", "gzcnt", "gzsum"):
                    key = w
                    d[key] = []
                elif key is not None:
                    if w == "none":
                        d[key] = None
                    elif key.endswith("cnt"):
                        d[key].append(int(w))
                    else:
                        d[key].append(float.fromhex(w))
            return d
    return None


def step_lines(case, bins, forces, frac=0.5):
    L = []
    for d in range(case["nd"]):
        L.append("pos %d 0 0 %s" % (d + 1, float(bins[d] + frac).hex()))
        L.append("eforce %d 0 0 %s" % (d + 1, float(forces[d]).hex()))
    L += ["step", "dumpshared a"]
    return L


def save_cmd(fmt, name):
    """fmt: text | binary (state file read through the input prefix), str (formatted state handed over as a string),
    buf (unformatted state handed over in a memory buffer, as engines with their own checkpoints do)"""
    return "save %s %s" % ({"str": "text", "buf": "binary"}.get(fmt, fmt), name)


def load_cmd(fmt, name):
    return "%s %s" % ({"str": "loadstr", "buf": "loadbuf"}.get(fmt, "load"), name)


def run_abf(exe, case, scratch, timeout=30.0):
    """Events (see gen_abf): ["s", w, bins, forces] one engine step of walker w; ["r", w, fmt] restart of
    walker w through a state file.  Returns a list, one entry per event, of (w, err, dump) for "s" and
    "r" events; the entry of a step that blocks in an exchange is filled when the round completes.
    Raises W.WalkerTimeout when the walkers do not answer (deadlock = a finding of its own)."""
    n = case["n"]
    dirs = []
    for i in range(n):
        d = os.path.join(scratch, "w%d" % i)
        shutil.rmtree(d, ignore_errors=True)
        os.makedirs(d)
        dirs.append(d)
    F = case["freq"]
    S0 = case.get("step0", 0)
    out = [None] * len(case["events"])
    with W.Team(exe, n, dirs, timeout_ms=4000) as T:
        for r in T.all_do(lambda i: abf_setup(case), timeout):
            if not any(x.startswith("CONFIG err=ok") for x in r):
                raise W.WalkerTimeout("configuration failed: %s" % r)
        t = [None] * n          # step number of the last completed/issued step (None = none yet)
        last = [S0] * n         # shared_last_step as the walker holds it
        first = [True] * n      # next step is the first of a run (repeats the step number)
        pending = {}            # walker -> (event index, token)
        for k, ev in enumerate(case["events"]):
            w = ev[1]
            if w in pending:
                raise ValueError("schedule advances walker %d while it is blocked in an exchange" % w)
            if ev[0] == "s":
                nt = (t[w] if t[w] is not None else S0) if first[w] else t[w] + 1
                first[w] = False
                t[w] = nt
                exch = F > 0 and nt > last[w] and nt % F == 0
                tok = T.walkers[w].send(step_lines(case, ev[2], ev[3], ev[4] if len(ev) > 4 else 0.5))
                if exch:
                    pending[w] = (k, tok)
                    last[w] = nt
                    if len(pending) == n:
                        for pw, (pk, ptok) in sorted(pending.items()):
                            r = T.walkers[pw].collect(ptok, timeout)
                            out[pk] = (pw, [x for x in r if x.startswith("STEP")], parse_shared(r))
                        pending = {}
                else:
                    r = T.walkers[w].collect(tok, timeout)
                    out[k] = (w, [x for x in r if x.startswith("STEP")], parse_shared(r))
            elif ev[0] == "x":
                # walker w calls "cv bias a share": returns when every walker has called it
                tok = T.walkers[w].send(["script cv bias a share", "dumpshared a"])
                pending[w] = (k, tok)
                if len(pending) == n:
                    for pw, (pk, ptok) in sorted(pending.items()):
                        r = T.walkers[pw].collect(ptok, timeout)
                        out[pk] = (pw, [x for x in r if x.startswith("SCRIPT")], parse_shared(r))
                    pending = {}
            elif ev[0] == "R":
                # restart through a state of the older format (no last_samples/last_gradient section);
                # ev[3] = True: an unformatted state cut inside the keyword instead, which must be refused
                fmt = ev[2]
                r = T.walkers[w].do(["save %s st%d" % (fmt, k)], timeout)
                strip_last_section(os.path.join(dirs[w], "st%d" % k), fmt, cut_in_key=bool(len(ev) > 3 and ev[3]))
                r += T.walkers[w].do(abf_setup(case) + ["load st%d" % k, "dumpshared a"], timeout)
                out[k] = (w, [x for x in r if x.startswith(("SAVE", "LOAD", "CONFIG"))], parse_shared(r))
                first[w] = True
                last[w] = t[w] if t[w] is not None else S0
            elif ev[0] == "c":
                # a configuration that is refused, in the middle of the session (a second ABF bias on a variable that does not exist,
                # with sharing on): nothing of the running bias may change
                r = T.walkers[w].do(["config EOF", "abf {", "  name bad", "  colvars nosuch", "  shared on", "  sharedFreq 1", "}", "EOF", "dumpshared a"], timeout)
                out[k] = (w, [x for x in r if x.startswith("CONFIG")], parse_shared(r))
            elif ev[0] == "o":
                # end-of-run output of walker w (write_output_files: .count/.grad/.pmf of the local and, on replica 0, of the
                # shared grids); changes nothing in the grids
                r = T.walkers[w].do(["postrun", "dumpshared a"], timeout)
                out[k] = (w, [x for x in r if x.startswith("POSTRUN")], parse_shared(r))
            elif ev[0] == "r":
                fmt = ev[2]
                r = T.walkers[w].do([save_cmd(fmt, "st%d" % k)] + abf_setup(case) + [load_cmd(fmt, "st%d" % k), "dumpshared a"], timeout)
                out[k] = (w, [x for x in r if x.startswith(("SAVE", "LOAD", "CONFIG"))], parse_shared(r))
                first[w] = True
                last[w] = t[w] if t[w] is not None else S0
        if pending:
            raise W.WalkerTimeout("schedule ends with walkers %s blocked in an exchange" % sorted(pending))
        stats = T.all_do(["repstat"], timeout)
    return out, stats


def run_death(exe, case, scratch, timeout=20.0):
    """Shared ABF, all walkers in lockstep; in the exchange round of step case["T"] walker case["victim"] dies at its
    (case["die_after"]+1)-th replica call (vsim "repdie").  Returns {w: (STEP lines, dump)} of the survivors after that step
    and the dumps of all walkers before it."""
    n = case["n"]
    dirs = []
    for i in range(n):
        d = os.path.join(scratch, "x%d" % i)
        shutil.rmtree(d, ignore_errors=True)
        os.makedirs(d)
        dirs.append(d)
    with W.Team(exe, n, dirs, timeout_ms=case.get("timeout_ms", 400)) as T:
        for r in T.all_do(lambda i: abf_setup(case), timeout):
            if not any(x.startswith("CONFIG err=ok") for x in r):
                raise W.WalkerTimeout("configuration failed: %s" % r)
        for t in range(case["T"]):
            T.all_do(lambda i: step_lines(case, [case["steps"][t][i][0]], [case["steps"][t][i][1]]), timeout)
        before = [parse_shared(r) for r in T.all_do(["dumpshared a"], timeout)]
        T.walkers[case["victim"]].do(["repdie %d" % case["die_after"]], timeout)
        t = case["T"]
        toks = [T.walkers[i].send(step_lines(case, [case["steps"][t][i][0]], [case["steps"][t][i][1]])) for i in range(n)]
        after = {}
        for i in range(n):
            if i == case["victim"]:
                continue
            r = T.walkers[i].collect(toks[i], timeout)
            after[i] = ([x for x in r if x.startswith("STEP")], parse_shared(r))
    return before, after


def run_odeath(exe, case, scratch, timeout=20.0):
    """OPES with multiple walkers in lockstep; in the deposition round of step case["T"] walker case["victim"] ends at its
    (case["die_after"]+1)-th replica call.  Returns the dumps of all walkers before that step and of the survivors after it."""
    n = case["n"]
    dirs = []
    for i in range(n):
        d = os.path.join(scratch, "y%d" % i)
        shutil.rmtree(d, ignore_errors=True)
        os.makedirs(d)
        dirs.append(d)
    with W.Team(exe, n, dirs, timeout_ms=case.get("timeout_ms", 400)) as T:
        setup = ["natoms 1", "samestep 1", "temperature 300", "dt 1", "restartfreq 1000", "new", "config EOF"] + opes_conf(case) + \
                ["EOF", "show cv 0 energy 0 bias 0 atomf 0"]
        for r in T.all_do(setup, timeout):
            if not any(x.startswith("CONFIG err=ok") for x in r):
                raise W.WalkerTimeout("configuration failed: %s" % r)
        out = None
        for t in range(case["T"]):
            out = T.all_do(lambda i: ["pos 1 0 0 %s" % float(case["steps"][t][i]).hex(), "step", "dumpopes o"], timeout)
        before = [parse_opes(r) for r in out]
        T.walkers[case["victim"]].do(["repdie %d" % case["die_after"]], timeout)
        t = case["T"]
        toks = [T.walkers[i].send(["pos 1 0 0 %s" % float(case["steps"][t][i]).hex(), "step", "dumpopes o"]) for i in range(n)]
        after = {}
        for i in range(n):
            if i == case["victim"]:
                continue
            r = T.walkers[i].collect(toks[i], timeout)
            after[i] = ([x for x in r if x.startswith("STEP")], parse_opes(r))
    return before, after


# ------------------------------------------------------------------------------------------
# file-based multiple-walker metadynamics
# ------------------------------------------------------------------------------------------

SIGMA = 1.0 / 64      # so narrow that a hill centred in a bin contributes exactly its weight to that bin and 0.0 elsewhere

def rid(case, w):
    """name of walker w: given in the configuration, or (idfromcomm: no replicaID keyword, replica interface of the engine
    available) the replica index the engine reports"""
    return ("%d" % w) if case.get("idfromcomm") else ("w%d" % w)


def meta_conf(case, rid, registry, second=False):
    """second: the configuration of a job that continues from a state file; with case["conf2"] it legally differs from the
    one that wrote the state (hill frequency, exchange frequency, hill width)"""
    if second and case.get("conf2"):
        case = dict(case, hillfreq=case["conf2"]["hillfreq"], upfreq=case["conf2"]["upfreq"])
        sigma = SIGMA * 2
    else:
        sigma = SIGMA
    return ["colvar {", "  name v0", "  lowerBoundary 0", "  upperBoundary %d" % case["nbins"], "  width 1",
            "  distanceZ {", "    main { atomNumbers 1 }", "    ref { dummyAtom (0,0,0) }", "    axis (0,0,1)", "  }", "}",
            "metadynamics {", "  name m", "  colvars v0", "  hillWeight 1", "  gaussianSigmas %r" % sigma,
            "  newHillFrequency %d" % case["hillfreq"]] + (["  useGrids on", "  writeFreeEnergyFile off"] if case.get("grids", True) else ["  useGrids off"]) + [
          ] + (["  stepZeroData on"] if case.get("szd") else []) + [
            "  multipleReplicas on"] + ([] if case.get("idfromcomm") else ["  replicaID %s" % rid]) + ["  replicasRegistry %s" % registry,
            "  replicaUpdateFrequency %d" % case["upfreq"], "}"]


def meta_setup(case, rid, registry, prefix, restartfreq, load=None):
    L = ["natoms 1", "restartfreq %d" % restartfreq, "prefix", "new"] + (["setstep %d" % case["step0"]] if case.get("step0") and not load else []) + \
        ["config EOF"] + meta_conf(case, rid, registry, second=bool(load)) + ["EOF",
         "show cv 0 energy 0 bias 0 atomf 0"]
    if load:
        L += ["load %s" % load]
    L += ["outprefix %s" % prefix, "errtext", "dumpmeta m"]
    return L


def parse_hills(tokens):
    hs = []
    for tk in tokens:
        it, c, wgt, rep = tk.split(":")
        hs.append((int(it), float.fromhex(c), float.fromhex(wgt), rep))
    return hs


def parse_meta(lines):
    """-> dict(own=..., mirrors={id: {...}}, err=<step error class>, errtext=...)"""
    res = {"own": None, "mirrors": {}, "err": None, "errtext": "", "owngrid": None}
    for s in lines:
        t = s.split()
        if not t:
            continue
        if t[0] == "STEP":
            res["err"] = t[2].split("=")[1] if len(t) > 2 else "ok"
            res["step"] = int(t[1])
        elif t[0] == "ERRTEXT":
            res["errtext"] = s[8:]
        elif t[0] == "META" and len(t) > 1 and t[1] == "none":
            res["own"] = None          # the bias does not exist (its configuration was rejected)
        elif t[0] in ("META", "MIRROR"):
            d = {}
            i = 1
            while i < len(t) and "=" in t[i] and t[i] != "hills":
                k, v = t[i].split("=", 1)
                d[k] = v
                i += 1
            assert i < len(t) and t[i] == "hills", s
            i += 1
            hl = []
            while i < len(t) and "=" not in t[i]:
                hl.append(t[i])
                i += 1
            d["hills"] = parse_hills(hl)
            while i < len(t) and "=" in t[i]:
                k, v = t[i].split("=", 1)
                d[k] = v
                i += 1
            if i < len(t) and t[i] == "grid":
                d["grid"] = [float.fromhex(x) for x in t[i + 1:]]
            if t[0] == "META":
                res["own"] = d
            else:
                res["mirrors"][d["id"]] = d
        elif t[0] == "OWNGRID":
            res["owngrid"] = [float.fromhex(x) for x in t[2:]]
    return res


def content(d, grid, nbins):
    """what a (mirror or own) bias holds, as hill counts per bin: projected grid + unprojected list.
    Returns (counts per bin as floats, ok) -- ok False when the grid is not a vector of small integers."""
    c = [0.0] * nbins
    ok = True
    if grid is not None:
        for b, g in enumerate(grid[:nbins]):
            c[b] += g
            if g != int(g):
                ok = False
    # keepHills is off: project_hills() erases the list after projecting it, so the list holds exactly the
    # hills that are not in the grid yet
    # (with grids, the hills in front of new_hills_begin are on the grid already: after a state was read, those are the hills
    # next to the boundaries, which the state lists explicitly in addition to the grid)
    skip = int(d.get("newbegin", 0)) if grid is not None else 0
    for (it, ctr, wgt, rep) in d["hills"][skip:]:
        b = int(ctr)        # centres are b + 0.5
        if 0 <= b < nbins:
            c[b] += wgt
    return c, ok


def run_meta(exe, case, scratch, timeout=30.0):
    """Walkers share the hills/state files directly.  Events: ["s", w, bin] one engine step of walker w
    at the centre of bin; ["r", w, newprefix] restart of walker w (end-of-run output, state file, new process
    state, same or new output prefix).  Returns per event the parsed dumpmeta of that walker plus a snapshot
    of every walker's files (sizes) taken BEFORE the event (what a reader can see during it)."""
    n = case["n"]
    dirs = []
    for i in range(n):
        d = os.path.join(scratch, "m%d" % i)
        shutil.rmtree(d, ignore_errors=True)
        os.makedirs(d)
        dirs.append(d)
    reg = os.path.join(scratch, "registry.txt")
    if os.path.exists(reg):
        os.remove(reg)
    out = []
    gen = [0] * n
    with W.Team(exe, n, dirs, connect=bool(case.get("idfromcomm"))) as T:
        started = [False] * n
        for k, ev in enumerate(case["events"]):
            w = ev[1]
            snap = file_snapshot(dirs, gen, n, case)
            if not started[w]:
                r0 = T.walkers[w].do(meta_setup(case, rid(case, w), reg, "out0", case["restartfreq"][w]), timeout)
                started[w] = True
                snap = file_snapshot(dirs, gen, n, case)
            if ev[0] == "s":
                r = T.walkers[w].do(["pos 1 0 0 %s" % float(ev[2] + 0.5).hex(), "step", "errtext", "dumpmeta m"], timeout)
                out.append((w, snap, parse_meta(r)))
            elif ev[0] == "k":
                # killed without any final output; a new job starts from the last checkpoint <prefix>.colvars.state of this walker
                r = T.walkers[w].do(meta_setup(case, rid(case, w), reg, "out%d" % gen[w], case["restartfreq"][w], load="out%d" % gen[w]), timeout)
                out.append((w, snap, parse_meta(r)))
            elif ev[0] == "r":
                if ev[2]:
                    gen[w] += 1
                r = T.walkers[w].do(["postrun", "save text st%d" % k] +
                                    meta_setup(case, rid(case, w), reg, "out%d" % gen[w], case["restartfreq"][w], load="st%d" % k), timeout)
                out.append((w, snap, parse_meta(r)))
    return out


def file_snapshot(dirs, gen, n, case=None):
    snap = {}
    for i in range(n):
        hp = os.path.join(dirs[i], "out%d.colvars.m.%s.hills" % (gen[i], rid(case or {}, i)))
        sp = os.path.join(dirs[i], "out%d.colvars.m.%s.state" % (gen[i], rid(case or {}, i)))
        hb = read_bytes(hp)
        snap[i] = {"hills_size": len(hb) if hb is not None else None,
                   "state_step": state_step(sp), "gen": gen[i],
                   "reclen": record_length(hb) if hb and b"}\n" in hb else None}
    return snap


def state_step(path):
    try:
        with open(path) as f:
            for line in f:
                t = line.split()
                if len(t) == 2 and t[0] == "step":
                    return int(t[1])
                if t and t[0] == "hills_energy":
                    break
    except OSError:
        return None
    return None


# ------------------------------------------------------------------------------------------
# view mode: the controller is the file system between a real writer P (id w1) and a real reader R (id w0)
# ------------------------------------------------------------------------------------------

def atomic_write(path, data):
    tmp = path + ".ctl"
    with open(tmp, "wb") as f:
        f.write(data)
    os.replace(tmp, path)


def read_bytes(path):
    try:
        with open(path, "rb") as f:
            return f.read()
    except OSError:
        return None


def run_view(exe, case, scratch, timeout=30.0):
    """Events:
      ["ps", bin]        one step of the writer P            ["pr", newprefix]  restart of P
      ["rs", bin]        one step of the reader R            ["rr"]             restart of R
      ["ph", k]          R's view of P's current hills file becomes its first k bytes (k None = all on disk)
      ["pl", k]          R's view of P's list file becomes its first k bytes (None = complete)
      ["pt", k]          R's view of P's state file becomes its first k bytes (None = complete)
      ["ps", bin, "split"]  a step of P whose state-file rewrite (if it does one) reaches R in two stages: R sees the new
                         state file at once but keeps seeing its old view of the hills file until ["pb"] (or P's next event)
      ["pg", k]          P's record in R's registry file becomes its first k bytes (None = complete); with case["late_register"]
                         the record is absent until the first "pg" event
    R's view of P's state file follows P atomically (rename), and its view of the hills file restarts empty
    whenever P restarts its hills file, unless a "pt"/"ph" event says otherwise.
    Returns (records, reclen): per event a dict with the parsed dump of the walker that moved, the number of
    bytes of P's hills file that R can see, P's state step, and the sizes on P's side."""
    pd = os.path.join(scratch, "p")
    rd = os.path.join(scratch, "r")
    vd = os.path.join(scratch, "view")
    for d in (pd, rd, vd):
        shutil.rmtree(d, ignore_errors=True)
        os.makedirs(d)
    regp = os.path.join(pd, "registry.txt")
    regr = os.path.join(rd, "registry.txt")
    vlist = os.path.join(vd, "m.w1.files.txt")
    vstate = os.path.join(vd, "w1.state")
    vhills = os.path.join(vd, "w1.hills")
    full_list = ("stateFile %s\nhillsFile %s\n" % (vstate, vhills)).encode()
    pgen = 0

    def p_files():
        return (os.path.join(pd, "out%d.colvars.m.w1.state" % pgen), os.path.join(pd, "out%d.colvars.m.w1.hills" % pgen))

    view = {"hills_bytes": 0, "state_partial": False, "p_state_sig": None, "registered": False,
            "list_ok": True, "reg_ok": not case.get("late_register", False), "reg_own": ""}
    w1line = "w1 %s\n" % vlist

    def classify_list(data):
        """what update_replicas_registry() makes of a list file: 2 = both names, 0 = nothing usable, else a hills file name cut short"""
        t = data.decode("utf8", "replace").split()
        if len(t) < 4 or t[0] != "stateFile" or t[2] != "hillsFile" or t[1] != vstate:
            return 0
        return 2 if t[3] == vhills else 100 + len(t[3])

    def classify_reg(line):
        t = line.split()
        if len(t) < 2:
            return 0
        return 2 if t[1] == vlist else 100 + len(t[1])

    view["lv"] = 2
    view["rv"] = 0 if case.get("late_register", False) else 2

    def finish_rewrite():
        """second half of a state-file rewrite delivered in two stages: the new state file becomes visible"""
        if view.get("mid"):
            view["mid"] = False
            sp, hp = p_files()
            sb = read_bytes(sp)
            view["p_state_sig"] = (pgen, state_step(sp), len(sb) if sb is not None else None)
            view["state_partial"] = False
            if sb is not None:
                atomic_write(vstate, sb)

    def sync_view(split=False):
        """follow P: a new state file (or hills file generation) is seen at once and the hills view restarts;
        with split the reader first sees only the restarted (empty) hills file next to the previous state file
        (the order of write_state_to_replicas since repair 8), the new state file at finish_rewrite()"""
        sp, hp = p_files()
        sb = read_bytes(sp)
        sig = (pgen, state_step(sp), len(sb) if sb is not None else None)
        if sb is not None and sig != view["p_state_sig"]:
            view["hills_bytes"] = 0
            atomic_write(vhills, b"")
            if split and view["registered"]:
                view["mid"] = True
            else:
                view["p_state_sig"] = sig
                view["state_partial"] = False
                atomic_write(vstate, sb)
            if not view["registered"]:
                atomic_write(vlist, full_list)
                view["reg_own"] = open(regr).read() if os.path.exists(regr) else ""
                if view["reg_ok"]:
                    atomic_write(regr, (view["reg_own"] + w1line).encode())
                view["registered"] = True

    out = []
    with W.Team(exe, 2, [rd, pd], connect=False) as T:
        R, P = T.walkers[0], T.walkers[1]
        r0 = R.do(meta_setup(case, "w0", regr, "out0", case["restartfreq"][0]), timeout)
        p0 = P.do(meta_setup(case, "w1", regp, "out0", case["restartfreq"][1]), timeout)
        sync_view()
        rgen = 0
        for k, ev in enumerate(case["events"]):
            rec = {"ev": ev}
            if ev[0] in ("ps", "pr", "ph", "pb"):
                finish_rewrite()
            if ev[0] == "ps":
                r = P.do(["pos 1 0 0 %s" % float(ev[1] + 0.5).hex(), "step", "errtext", "dumpmeta m"], timeout)
                rec["p"] = parse_meta(r)
                sync_view(split=(len(ev) > 2 and ev[2] == "split"))
            elif ev[0] == "pb":
                pass
            elif ev[0] == "pr":
                if ev[1]:
                    pgen += 1
                r = P.do(["postrun", "save text st%d" % k] +
                         meta_setup(case, "w1", regp, "out%d" % pgen, case["restartfreq"][1], load="st%d" % k), timeout)
                rec["p"] = parse_meta(r)
                sync_view()
            elif ev[0] == "ph":
                hb = read_bytes(p_files()[1]) or b""
                kk = len(hb) if ev[1] is None else min(ev[1], len(hb))
                atomic_write(vhills, hb[:kk])
                view["hills_bytes"] = kk
            elif ev[0] == "pl":
                cut = full_list if ev[1] is None else full_list[:ev[1]]
                atomic_write(vlist, cut)
                view["list_ok"] = ev[1] is None or ev[1] >= len(full_list)
                view["lv"] = classify_list(cut)
            elif ev[0] == "pg":
                if view["registered"]:
                    atomic_write(regr, (view["reg_own"] + (w1line if ev[1] is None else w1line[:ev[1]])).encode())
                    view["reg_ok"] = ev[1] is None or ev[1] >= len(w1line)
                    view["rv"] = classify_reg(w1line if ev[1] is None else w1line[:ev[1]])
            elif ev[0] == "pt":
                if not view.get("mid") and view["p_state_sig"] is not None:
                    sb = read_bytes(p_files()[0]) or b""
                    cut = sb if ev[1] is None else sb[:ev[1]]
                    atomic_write(vstate, cut)
                    view["state_partial"] = cut.rstrip() != sb.rstrip()
            elif ev[0] == "rs":
                r = R.do(["pos 1 0 0 %s" % float(ev[1] + 0.5).hex(), "step", "errtext", "dumpmeta m"], timeout)
                rec["r"] = parse_meta(r)
            elif ev[0] == "rr":
                r = R.do(["postrun", "save text st%d" % k] +
                         meta_setup(case, "w0", regr, "out%d" % rgen, case["restartfreq"][0], load="st%d" % k), timeout)
                rec["r"] = parse_meta(r)
            hb = read_bytes(p_files()[1])
            rec["reclen"] = record_length(hb) if hb and b"}\n" in hb else None
            rec["view_hills_bytes"] = view["hills_bytes"]
            rec["lv"] = view["lv"]
            rec["rv"] = view["rv"]
            rec["mid"] = bool(view.get("mid"))
            rec["state_partial"] = view["state_partial"]
            rec["view_state_step"] = None if view["state_partial"] else state_step(vstate)
            rec["files_ok"] = view["list_ok"] and view["reg_ok"]
            rec["p_hills_bytes"] = len(hb) if hb is not None else None
            rec["p_state_step"] = state_step(p_files()[0])
            rec["pgen"] = pgen
            out.append(rec)
        hb = read_bytes(p_files()[1]) or b""
    return out


def record_length(data):
    """length in bytes of the hill records of a hills file (None when there is no complete record or
    the records differ in length)"""
    recs = data.split(b"}\n")
    lens = set(len(x) + 2 for x in recs[:-1])
    if len(lens) != 1:
        return None
    return lens.pop()


# ------------------------------------------------------------------------------------------
# shared eABF: the CZAR gather on replica 0 (replica_share_CZAR, run by write_output_files on all replicas)
# ------------------------------------------------------------------------------------------

def czar_conf(case):
    return ["colvar {", "  name v0", "  lowerBoundary 0", "  upperBoundary %d" % case["nbins"], "  width 1",
            "  extendedLagrangian on", "  extendedFluctuation 0.5", "  extendedTimeConstant 8", "  extendedTemp 300",
            "  distanceZ {", "    main { atomNumbers 1 }", "    ref { dummyAtom (0,0,0) }", "    axis (0,0,1)", "  }", "}",
            "abf {", "  name a", "  colvars v0", "  fullSamples 2"] + \
           (["  writeCZARwindowFile on", "  outputFreq %d" % case["freq"], "  historyFreq %d" % case["freq"]] if case.get("hist") else []) + \
           ([] if case.get("script") else ["  shared on", "  sharedFreq %d" % case["freq"]]) + ["}"]


def run_czar(exe, case, scratch, timeout=30.0):
    """all walkers step together (case["steps"][t][w] = (bin, fraction, force)); after the steps listed in
    case["gather_at"] every walker runs the end-of-run output (collective gather).  Returns the per-walker
    dumps after each gather."""
    n = case["n"]
    dirs = []
    for i in range(n):
        d = os.path.join(scratch, "z%d" % i)
        shutil.rmtree(d, ignore_errors=True)
        os.makedirs(d)
        dirs.append(d)
    res = []
    restarts = []
    with W.Team(exe, n, dirs, timeout_ms=4000) as T:
        # the total force on an extended-Lagrangian coordinate is the one of the previous step: with same-step forces the
        # ABF and CZAR gradient sums stay zero
        setup = ["natoms 1", "samestep 0", "temperature 300", "dt 1", "new", "config EOF"] + czar_conf(case) + \
                ["EOF", "outprefix out", "show cv 0 energy 0 bias 0 atomf 0"]
        cur_freq = case["freq"]
        for r in T.all_do(setup, timeout):
            if not any(x.startswith("CONFIG err=ok") for x in r):
                raise W.WalkerTimeout("configuration failed: %s" % r)
        for t, row in enumerate(case["steps"]):
            T.all_do(lambda i: ["pos 1 0 0 %s" % float(row[i][0] + row[i][1]).hex(),
                                "eforce 1 0 0 %s" % float(row[i][2]).hex(), "step"], timeout)
            if case.get("script") and (t + 1) % cur_freq == 0:
                # sharing switched on (and performed) by the script command, on all walkers together
                T.all_do(["script cv bias a share"], timeout)
            if t in case["gather_at"]:
                before = [parse_shared(r) for r in T.all_do(["dumpshared a"], timeout)]
                out = T.all_do(["postrun", "dumpshared a"], timeout)
                res.append((t, [parse_shared(r) for r in out], [[x for x in r if x.startswith("POSTRUN")] for r in out], before))
                if case.get("twice"):
                    # a second output at the same step (C14_abf_czar_gather_repeated)
                    before2 = res[-1][1]
                    out = T.all_do(["postrun", "dumpshared a"], timeout)
                    res.append((t, [parse_shared(r) for r in out], [[x for x in r if x.startswith("POSTRUN")] for r in out], before2))
            fmts = case.get("restart_at", {}).get(str(t))
            if fmts:
                # the job ends here and is started again: every walker goes through its state file (walker w in format fmts[w])
                bs = [parse_shared(r) for r in T.all_do(["dumpshared a"], timeout)]
                if case.get("freq2"):
                    # the new job is configured with another exchange (and output) frequency: legal, the state does not carry it
                    cur_freq = case["freq2"]
                    setup = [x for x in setup if x not in czar_conf(case)]
                    k_ = setup.index("config EOF") + 1
                    setup = setup[:k_] + czar_conf(dict(case, freq=cur_freq)) + setup[k_:]
                rs = T.all_do(lambda i: [save_cmd(fmts[i], "zst%d" % t)] + setup + [load_cmd(fmts[i], "zst%d" % t), "dumpshared a"], timeout)
                for w, (b, r) in enumerate(zip(bs, rs)):
                    restarts.append((t, w, fmts[w], b, parse_shared(r), [x for x in r if x.startswith(("SAVE", "LOAD", "CONFIG"))]))
        stats = T.all_do(["repstat"], timeout)
    case["_restarts"] = restarts
    return res, stats


# ------------------------------------------------------------------------------------------
# OPES with multiple walkers (colvarbias_opes::update_opes gathers every walker's new kernel through replica 0)
# ------------------------------------------------------------------------------------------

def opes_conf(case):
    v = case.get("variant", "plain")
    L = ["colvar {", "  name v0", "  distanceZ {", "    main { atomNumbers 1 }", "    ref { dummyAtom (0,0,0) }",
         "    axis (0,0,1)", "  }", "}",
         "opes_metad {", "  name o", "  colvars v0", "  newHillFrequency %d" % case["pace"], "  barrier 10"]
    if v == "adaptive":
        L += ["  adaptiveSigma on", "  adaptiveSigmaStride %d" % (2 * case["pace"]), "  gaussianSigmaMin 0.01"]
    else:
        L += ["  gaussianSigma 0.125"]
    if v in ("plain", "long"):
        L += ["  fixedGaussianSigma on", "  compressionThreshold 0"]
    elif v == "nlist":
        L += ["  neighborList on", "  compressionThreshold 0"] + (["  neighborListNewHillReset on"] if case.get("nlreset") else [])
    elif v == "explore":
        L += ["  explore on", "  biasfactor 5", "  calcWork on", "  compressionThreshold 0"]
    L += ["  multipleReplicas on", "  sharedFreq %d" % case["pace"], "}"]
    return L


def parse_opes(lines):
    for s in lines:
        if s.startswith("OPES "):
            t = s.split()
            d = {"kernels": []}
            i = 1
            while i < len(t) and t[i] != "kernels":
                k, v = t[i].split("=")
                d[k] = int(v)
                i += 1
            i += 1
            while i < len(t) and "=" not in t[i]:
                h, c, sg = t[i].split(":")
                d["kernels"].append((h, c, sg))
                i += 1
            while i < len(t):
                k, v = t[i].split("=")
                d[k] = v
                i += 1
            return d
    return None


def run_opes(exe, case, scratch, timeout=30.0):
    """all walkers step together: case["steps"][t][w] = position (dyadic).  Returns per step the dumps of all walkers."""
    n = case["n"]
    dirs = []
    for i in range(n):
        d = os.path.join(scratch, "o%d" % i)
        shutil.rmtree(d, ignore_errors=True)
        os.makedirs(d)
        dirs.append(d)
    res = []
    with W.Team(exe, n, dirs, timeout_ms=4000) as T:
        # restartfreq must not be 0: colvarbias_opes computes step % restart_out_freq
        # (smp: the engine's thread pool is on and a second bias is defined; a bias that talks to the other replicas must
        # then still be updated by the main thread)
        setup = ["natoms 1", "samestep 1", "temperature 300", "dt 1", "restartfreq 1000"] + (["smp perm 2"] if case.get("smp") else []) + \
                ["new"] + (["setstep %d" % case["step0"]] if case.get("step0") else []) + ["config EOF"] + opes_conf(case) + \
                (["harmonic {", "  name h", "  colvars v0", "  centers 0", "  forceConstant 0.0", "}"] if case.get("smp") else []) + \
                ["EOF", "show cv 0 energy 0 bias 0 atomf 0"]
        for r in T.all_do(setup, timeout):
            if not any(x.startswith("CONFIG err=ok") for x in r):
                raise W.WalkerTimeout("configuration failed: %s" % r)
        for t, row in enumerate(case["steps"]):
            out = T.all_do(lambda i: ["pos 1 0 0 %s" % float(row[i]).hex(), "step", "dumpopes o"], timeout)
            res.append([parse_opes(r) for r in out])
        stats = T.all_do(["repstat"], timeout)
    return res, stats
