// C14 walker program: the engine simulator (with the replica interface of harness/vsim.h) plus
// commands that print the internal multiple-walker state of ABF and metadynamics biases exactly.
//   dumpshared <abf>   samples/gradients (G), last_* (L), local_* (Loc), CZAR z grids
//   dumpmeta <meta>    own hills and, per mirror bias of a peer, cursor state and hill list
//   share <bias>       call replica_share() of the bias directly
// One walker = one process (colvarmodule is a per-process singleton); the controller in
// props/C14/check.py forks N of them connected by socketpairs and advances them by a schedule.
#include <cstdio>
#include <cstdlib>
#include <cstring>
#include <cmath>
#include <iostream>
#include <fstream>
#include <sstream>
#include <string>
#include <vector>
#include <map>
#include <algorithm>
#include <functional>
#include <thread>
#include <mutex>
#include <memory>
#include <list>
#include <signal.h>
#include <sys/prctl.h>
#define private public
#define protected public
#include "colvarmodule.h"
#include "colvar.h"
#include "colvarbias.h"
#include "colvarbias_abf.h"
#include "colvarbias_meta.h"
#include "colvarbias_opes.h"
#include "colvargrid.h"
#undef private
#undef protected
#include "vsim.h"

template <class G> static void dump_cnt(std::ostream &o, const char *key, G const &g)
{
  o << " " << key;
  if (!g) { o << " none"; return; }
  for (size_t k = 0; k < g->data.size(); k++) o << " " << g->data[k];
}
template <class G> static void dump_sum(std::ostream &o, const char *key, G const &g)
{
  o << " " << key;
  if (!g) { o << " none"; return; }
  for (size_t k = 0; k < g->data.size(); k++) o << " " << vs_hex(g->data[k]);
}

static void dump_hills(std::ostream &o, colvarbias_meta *m)
{
  o << " nh=" << m->hills.size() << " hills";
  for (auto const &h : m->hills) {
    o << " " << h.it << ":";
    for (size_t i = 0; i < h.centers.size(); i++) o << (i ? "," : "") << vs_hex(h.centers[i].real_value);
    o << ":" << vs_hex(h.W) << ":" << (h.replica.size() ? h.replica : std::string("-"));
  }
  size_t nb = 0;
  for (auto it = m->hills.begin(); it != m->hills.end() && it != m->new_hills_begin; ++it) nb++;
  o << " newbegin=" << nb << " offgrid=" << m->hills_off_grid.size();
}

struct c14_session : public vsim_session {
  c14_session(std::ostream *o) : vsim_session(o) {}
  bool exec_extra(std::string const &cmd, std::vector<std::string> const &a, std::istream &) override
  {
    std::ostream &o = *out;
    if (cmd == "dumpshared") {
      colvarbias_abf *abf = dynamic_cast<colvarbias_abf *>(cvm::main()->bias_by_name(a[0]));
      if (!abf) { o << "SHARED none\n"; return true; }
      o << "SHARED idx=" << proxy->replica_index() << " step=" << cvm::step_absolute()
        << " last_step=" << abf->shared_last_step << " shared_on=" << (abf->shared_on ? 1 : 0);
      dump_cnt(o, "cnt", abf->samples); dump_sum(o, "sum", abf->gradients);
      dump_cnt(o, "lcnt", abf->last_samples); dump_sum(o, "lsum", abf->last_gradients);
      dump_cnt(o, "ocnt", abf->local_samples); dump_sum(o, "osum", abf->local_gradients);
      if (abf->b_CZAR_estimator) {
        dump_cnt(o, "zcnt", abf->z_samples); dump_sum(o, "zsum", abf->z_gradients);
        dump_cnt(o, "gzcnt", abf->global_z_samples); dump_sum(o, "gzsum", abf->global_z_gradients);
      }
      o << "\n";
      return true;
    }
    if (cmd == "dumpmeta") {
      colvarbias_meta *m = dynamic_cast<colvarbias_meta *>(cvm::main()->bias_by_name(a[0]));
      if (!m) { o << "META none\n"; return true; }
      o << "META id=" << m->replica_id << " step=" << cvm::step_absolute() << " nrep=" << m->replicas.size();
      dump_hills(o, m);
      o << "\n";
      for (size_t ir = 1; ir < m->replicas.size(); ir++) {
        colvarbias_meta *r = m->replicas[ir];
        o << "MIRROR id=" << r->replica_id << " in_sync=" << (r->replica_state_file_in_sync ? 1 : 0)
          << " pos=" << (long long) r->replica_hills_file_pos << " has_data=" << (r->has_data ? 1 : 0)
          << " state_step=" << r->state_file_step << " status=" << r->update_status
          << " state_file=" << (r->replica_state_file.size() ? r->replica_state_file : std::string("-"))
          << " hills_file=" << (r->replica_hills_file.size() ? r->replica_hills_file : std::string("-"));
        dump_hills(o, r);
        if (r->hills_energy) dump_sum(o, "grid", r->hills_energy);
        o << "\n";
      }
      if (m->hills_energy) { o << "OWNGRID"; dump_sum(o, "grid", m->hills_energy); o << "\n"; }
      return true;
    }
    if (cmd == "dumpopes") {
      colvarbias_opes *op = dynamic_cast<colvarbias_opes *>(cvm::main()->bias_by_name(a[0]));
      if (!op) { o << "OPES none\n"; return true; }
      o << "OPES idx=" << proxy->replica_index() << " step=" << cvm::step_absolute() << " nwalkers=" << op->m_num_walkers
        << " counter=" << op->m_counter << " nk=" << op->m_kernels.size() << " kernels";
      for (auto const &k : op->m_kernels) {
        o << " " << vs_hex(k.m_height) << ":";
        for (size_t i = 0; i < k.m_center.size(); i++) o << (i ? "," : "") << vs_hex(k.m_center[i]);
        o << ":";
        for (size_t i = 0; i < k.m_sigma.size(); i++) o << (i ? "," : "") << vs_hex(k.m_sigma[i]);
      }
      o << " zed=" << vs_hex(op->m_zed) << " kdenorm=" << vs_hex(op->m_kdenorm)
        << " sumw=" << vs_hex(op->m_sum_weights) << " sumw2=" << vs_hex(op->m_sum_weights2)
        << " neff=" << vs_hex(op->m_neff) << " rct=" << vs_hex(op->m_rct) << " kbt=" << vs_hex(op->m_kbt) << "\n";
      return true;
    }
    if (cmd == "share") {
      colvarbias *b = cvm::main()->bias_by_name(a[0]);
      cvm::clear_error();
      int err = b ? b->replica_share() : COLVARS_ERROR;
      o << "SHARE err=" << vs_errclass(err | cvm::get_error()) << "\n";
      cvm::clear_error();
      return true;
    }
    if (cmd == "errtext") {
      std::string t = proxy ? proxy->errtext : std::string("");
      std::replace(t.begin(), t.end(), '\n', '|');
      o << "ERRTEXT " << t << "\n";
      if (proxy) proxy->errtext.clear();
      return true;
    }
    return false;
  }
};

int main(int argc, char **argv)
{
  // a walker never outlives its controller, and never runs longer than a few minutes
  prctl(PR_SET_PDEATHSIG, SIGKILL);
  signal(SIGPIPE, SIG_IGN);
  char const *al = getenv("C14_ALARM");
  alarm(al ? atoi(al) : 600);
  c14_session s(&std::cout);
  if (argc > 1 && std::string(argv[1]) != "-") {
    std::ifstream f(argv[1]);
    if (!f) { std::cerr << "cannot open " << argv[1] << "\n"; return 2; }
    s.run(f);
  } else {
    s.run(std::cin);
  }
  std::cout.flush();
  return 0;
}
