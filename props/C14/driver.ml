(* C14 model driver: runs the extracted SharedModel on case lines from stdin, one output line per case.

   ABF <old 0|1> <n walkers> <ncount slots> <mult> <freq> ev ev ...
       ev:  s,w,addr,f0[,f1..]  sample of walker w at flat address addr of the count grid, forces f (hex);
                                the gradient grid gets -f_m at address addr*mult+m (acc_force subtracts)
            x,t                 exchange round at step t
            r,w,t               restart of walker w at step t
            a,w                 (small-step protocol only) walker w enters replica_share()
            q,w                 print walker w:  Q w last cnt=G;L;Loc sum=G;L;Loc ss=<1 when the small-step protocol
                                (SharedModel.sstep, run on the same schedule: a,w = AStart; x,t = the receives of replica 0
                                in order, the broadcast, the receives of the others, the barrier) accepted every action so
                                far and holds the same count grids for this walker>
            p,t,oc              a round at step t that a dead/absent replica interrupts (SharedModel.exchange_partial): oc = one
                                letter per walker, C = completed the round, A = is as before the call
            d,t                 print which walkers consider step t an exchange step: D t b0b1..
       The count grid runs the generic model over OCaml ints, the gradient grid over floats (the same
       extracted code, two carriers).  After every event each grid is tabulated (a closure that looks up an
       array) -- the model's grids are functions and would otherwise be re-evaluated through the whole history.
   META <fix1> <fix2> ev ev ...      (one peer / one reader)
       ev:  d,it,pay | v,c | sv,0/1 | w,S | wb | wa,S | u,S,newname | s | o | r | q
            q prints  M ok=<trace ok so far> name,sync,has,pos,S cont=it:pay;..  D=it:pay;..   or  M ok=.. none D=.. *)
open Model
open X_fops

let rec nat_of_int n = if n <= 0 then O else S (nat_of_int (n - 1))

let igrp : int grpOps = { g0 = 0; gadd = ( + ); gsub = ( - ) }
let fgrp : float grpOps = { g0 = 0.0; gadd = ( +. ); gsub = ( -. ) }

let tab (n : int) (zero : 'a) (g : 'a grid) : 'a grid =
  let a = Array.init n (fun i -> g (z_of_int i)) in
  fun z -> let i = int_of_z z in if i >= 0 && i < n then a.(i) else zero

let tabw n zero w = { wG = tab n zero w.wG; wL = tab n zero w.wL; wLoc = tab n zero w.wLoc; wlast = w.wlast }

let dump n f g = String.concat "," (List.init n (fun i -> f (g (z_of_int i))))

let split c s = String.split_on_char c s

let abf (w : string array) =
  let old = w.(1) = "1" in
  let n = int_of_string w.(2) in
  let nc = int_of_string w.(3) in
  let mult = int_of_string w.(4) in
  let _freq = int_of_string w.(5) in
  let ns = nc * mult in
  let cw = ref (init igrp (nat_of_int n)) in
  let sw = ref (init fgrp (nat_of_int n)) in
  let out = ref [] in
  (* the count grids once more, through the small-step protocol *)
  let ss = ref (Some (sinit igrp (nat_of_int n))) in
  let tabn (s : int net) = { n_root = (tabw nc 0 (fst s.n_root), snd s.n_root);
                             n_others = List.map (fun (c, ph) -> (tabw nc 0 c, ph)) s.n_others;
                             n_k = s.n_k; n_bc = s.n_bc } in
  let act a = (match !ss with Some s -> ss := (match sstep igrp s a with Some s' -> Some (tabn s') | None -> None) | None -> ()) in
  let apply_c e = cw := List.map (tabw nc 0) (apply_ev igrp old !cw e) in
  let apply_s e = sw := List.map (tabw ns 0.0) (apply_ev fgrp old !sw e) in
  for k = 6 to Array.length w - 1 do
    match split ',' w.(k) with
    | "s" :: ws :: addr :: fs ->
      let wi = nat_of_int (int_of_string ws) in
      let a = int_of_string addr in
      apply_c (ESample (wi, z_of_int a, 1));
      act (ASample (wi, z_of_int a, 1));
      List.iteri (fun m f -> apply_s (ESample (wi, z_of_int (a * mult + m), (-. (fl f))))) fs
    | [ "x"; t ] ->
      let t = z_of_int (int_of_string t) in
      apply_c (EExchange t); apply_s (EExchange t);
      for _ = 2 to n do act ARecv done;
      act ABcast;
      for p = n - 1 downto 1 do act (AGet (nat_of_int p)) done;
      act (AFinish t)
    | [ "p"; t; oc ] ->
      (* a round at step t that does not complete: walker i Committed ('C') or Aborted ('A', also for a dead one);
         the small-step machine has no failing calls: it stops being compared (ss=0 from here on) *)
      let t = z_of_int (int_of_string t) in
      let ocl = List.init (String.length oc) (fun i -> if oc.[i] = 'C' then Committed else Aborted) in
      cw := List.map (tabw nc 0) (exchange_partial igrp t ocl !cw);
      sw := List.map (tabw ns 0.0) (exchange_partial fgrp t ocl !sw);
      ss := None
    | [ "a"; ws ] -> act (AStart (nat_of_int (int_of_string ws)))
    | [ "r"; ws; t ] ->
      let wi = nat_of_int (int_of_string ws) in
      let t = z_of_int (int_of_string t) in
      apply_c (ERestart (wi, t)); apply_s (ERestart (wi, t));
      (if not old then act (ARestart (wi, t)))
    | [ "q"; ws ] ->
      let i = int_of_string ws in
      let c = List.nth !cw i and s = List.nth !sw i in
      let ssok = (match !ss with
          | None -> false
          | Some st ->
            let wk = List.nth (walkers_of st) i in
            dump nc string_of_int wk.wG = dump nc string_of_int c.wG && dump nc string_of_int wk.wL = dump nc string_of_int c.wL
            && dump nc string_of_int wk.wLoc = dump nc string_of_int c.wLoc && int_of_z wk.wlast = int_of_z c.wlast) in
      out := Printf.sprintf "Q %d %d cnt=%s;%s;%s sum=%s;%s;%s ss=%d" i (int_of_z c.wlast)
          (dump nc string_of_int c.wG) (dump nc string_of_int c.wL) (dump nc string_of_int c.wLoc)
          (dump ns hex s.wG) (dump ns hex s.wL) (dump ns hex s.wLoc) (if ssok then 1 else 0) :: !out
    | [ "d"; t ] ->
      let tz = z_of_int (int_of_string t) in
      out := Printf.sprintf "D %s %s" t
          (String.concat "" (List.map (fun x -> if share_due (z_of_int _freq) tz x then "1" else "0") !cw)) :: !out
    | _ -> out := ("? " ^ w.(k)) :: !out
  done;
  print_endline (String.concat " | " (List.rev !out))

let hills l = if l = [] then "-" else String.concat ";" (List.map (fun h -> Printf.sprintf "%d:%d" (int_of_z h.hit) (int_of_z h.hpay)) l)

let meta (w : string array) =
  let f1 = w.(1) = "1" and f2 = w.(2) = "1" in
  let st = ref pinit in
  let ok = ref true in
  let out = ref [] in
  let step e = (if not (ev_ok true (fst !st) e) then ok := false); st := pstep f1 f2 !st e in
  for k = 3 to Array.length w - 1 do
    match split ',' w.(k) with
    | [ "d"; it; pay ] -> step (PDeposit { hit = z_of_int (int_of_string it); hpay = z_of_int (int_of_string pay) })
    | [ "v"; c ] -> step (PVis (z_of_int (int_of_string c)))
    | [ "w"; s ] -> step (PWState (z_of_int (int_of_string s)))
    | [ "wa"; s ] -> step (PWStateA (z_of_int (int_of_string s)))
    | [ "wb" ] -> step PWStateB
    | [ "sv"; b ] -> step (PSVis (b = "1"))
    | [ "rv"; k ] -> step (PRVis (z_of_int (int_of_string k)))
    | [ "lv"; k ] -> step (PLVis (z_of_int (int_of_string k)))
    | [ "u"; s; nn ] -> step (PSetup (z_of_int (int_of_string s), nn = "1"))
    | [ "s" ] -> step RShare
    | [ "o" ] -> step RWState
    | [ "r" ] -> step RRestart
    | [ "q" ] ->
      let (wr, om) = !st in
      let ms = (match om with
          | None -> "none"
          | Some m -> Printf.sprintf "%s,%d,%d,%d,%d cont=%s"
                        (match m.m_name with None -> "-" | Some z -> string_of_int (int_of_z z))
                        (if m.m_sync then 1 else 0) (if m.m_has then 1 else 0) (int_of_z m.m_pos) (int_of_z m.m_S)
                        (hills m.m_cont)) in
      out := Printf.sprintf "M ok=%d %s D=%s vis=%s" (if !ok then 1 else 0) ms (hills wr.w_D) (hills (visible wr)) :: !out
    | _ -> out := ("? " ^ w.(k)) :: !out
  done;
  print_endline (String.concat " | " (List.rev !out))

(* SYS <n> ev ev ...   the n-walker system of SharedModel.sys_step
     ev:  d,i,it,pay | v,i,c | sv,i,0/1 | w,i,S | wb,i | wa,i,S | u,i,S,newname | s,i | r,i | q,i
     q,i prints, for every peer p of walker i:  M ok=<sys_ok so far> name,sync,has,pos,S cont=..  (or none), peers separated by " ; " *)
let sysm (w : string array) =
  let n = int_of_string w.(1) in
  let st = ref (sys_init (nat_of_int n)) in
  let evs = ref [] in
  let out = ref [] in
  let zi s = z_of_int (int_of_string s) and ni s = nat_of_int (int_of_string s) in
  let step e = evs := e :: !evs; st := sys_step !st e in
  for k = 2 to Array.length w - 1 do
    match split ',' w.(k) with
    | [ "d"; i; it; pay ] -> step (SDeposit (ni i, { hit = zi it; hpay = zi pay }))
    | [ "v"; i; c ] -> step (SVis (ni i, zi c))
    | [ "sv"; i; b ] -> step (SSVis (ni i, b = "1"))
    | [ "rv"; i; k ] -> step (SRVis (ni i, zi k))
    | [ "lv"; i; k ] -> step (SLVis (ni i, zi k))
    | [ "w"; i; s ] -> step (SWState (ni i, zi s))
    | [ "wb"; i ] -> step (SWStateB (ni i))
    | [ "wa"; i; s ] -> step (SWStateA (ni i, zi s))
    | [ "u"; i; s; nn ] -> step (SSetup (ni i, zi s, nn = "1"))
    | [ "s"; i ] -> step (SShare (ni i))
    | [ "r"; i ] -> step (SRestart (ni i))
    | [ "q"; i ] ->
      let ok = sys_ok (nat_of_int n) (List.rev !evs) in
      let ii = int_of_string i in
      let parts = List.filter_map (fun p ->
          if p = ii then None else begin
            let (wr, om) = pair_of !st (nat_of_int ii) (nat_of_int p) in
            Some (Printf.sprintf "P %d ok=%d %s D=%s" p (if ok then 1 else 0)
                    (match om with
                     | None -> "none"
                     | Some m -> Printf.sprintf "%s,%d,%d,%d,%d cont=%s"
                                   (match m.m_name with None -> "-" | Some z -> string_of_int (int_of_z z))
                                   (if m.m_sync then 1 else 0) (if m.m_has then 1 else 0) (int_of_z m.m_pos) (int_of_z m.m_S)
                                   (hills m.m_cont))
                    (hills wr.w_D))
          end) (List.init n (fun p -> p)) in
      out := String.concat " ; " parts :: !out
    | _ -> out := ("? " ^ w.(k)) :: !out
  done;
  print_endline (String.concat " | " (List.rev !out))

(* CZAR <n> <nslots> c,c,..;c,c,..(one list per walker) f,f,..;f,f,..  -> the gathered count and sum grids *)
let czar (w : string array) =
  let ns = int_of_string w.(2) in
  let grids conv zero s = List.map (fun l -> let a = Array.of_list (List.map conv (split ',' l)) in
                                     (fun z -> let i = int_of_z z in if i >= 0 && i < Array.length a then a.(i) else zero))
      (split ';' s) in
  let gc = czar_gather igrp (grids int_of_string 0 w.(3)) in
  let gs = czar_gather fgrp (grids fl 0.0 w.(4)) in
  Printf.printf "Z cnt=%s sum=%s\n" (dump ns string_of_int gc) (dump ns hex gs)

(* GATHER <n> <nc> <ns> w0 w1 ..   with  wi = cG;cL;cLoc;cZ;sG;sL;sLoc;sZ  (comma separated grids of walker i before the gather)
   -> what every walker holds after replica_share_CZAR() according to czar_gather_step, same format, then gz=c;s of replica 0 *)
let gather (w : string array) =
  let n = int_of_string w.(1) and nc = int_of_string w.(2) and ns = int_of_string w.(3) in
  let mk conv zero l = let a = Array.of_list (List.map conv (split ',' l)) in
    (fun z -> let i = int_of_z z in if i >= 0 && i < Array.length a then a.(i) else zero) in
  let parts = List.init n (fun i -> Array.of_list (split ';' w.(4 + i))) in
  let cws = List.map (fun p -> { e_w = { wG = mk int_of_string 0 p.(0); wL = mk int_of_string 0 p.(1); wLoc = mk int_of_string 0 p.(2); wlast = Z0 };
                                 e_z = mk int_of_string 0 p.(3); e_gz = grid0 igrp }) parts in
  let sws = List.map (fun p -> { e_w = { wG = mk fl 0.0 p.(4); wL = mk fl 0.0 p.(5); wLoc = mk fl 0.0 p.(6); wlast = Z0 };
                                 e_z = mk fl 0.0 p.(7); e_gz = grid0 fgrp }) parts in
  let ca = czar_gather_step igrp cws and sa = czar_gather_step fgrp sws in
  let outs = List.map2 (fun c s ->
      Printf.sprintf "%s;%s;%s;%s;%s;%s;%s;%s" (dump nc string_of_int c.e_w.wG) (dump nc string_of_int c.e_w.wL) (dump nc string_of_int c.e_w.wLoc)
        (dump nc string_of_int c.e_z) (dump ns hex s.e_w.wG) (dump ns hex s.e_w.wL) (dump ns hex s.e_w.wLoc) (dump ns hex s.e_z)) ca sa in
  Printf.printf "G %s gz=%s;%s\n" (String.concat " " outs) (dump nc string_of_int (List.hd ca).e_gz) (dump ns hex (List.hd sa).e_gz)

(* OPES <n> c,c,..;c,c,..  (one list of contributions per round, rank order; tokens are kept as strings)
   -> the kernel list of every walker, walkers separated by ; *)
let opes (w : string array) =
  let n = int_of_string w.(1) in
  let rounds = if Array.length w > 2 then List.map (split ',') (split ';' w.(2)) else [] in
  let ws = opes_run rounds (nat_of_int n) in
  Printf.printf "O %s\n" (String.concat ";" (List.map (fun l -> if l = [] then "-" else String.concat "," l) ws))

(* OPESSUM <s0> <s20> <counter0> <kbt> h,h,..;h,h,..  (one list of kernel weights per round, rank order)
   -> after every round: sum of weights, sum of squared weights, counter, neff, rct *)
let opessum (w : string array) =
  let s0 = fl w.(1) and s20 = fl w.(2) and c0 = float_of_string w.(3) and kbt = fl w.(4) in
  let rounds = if Array.length w > 5 then List.map (fun r -> List.map fl (split ',' r)) (split ';' w.(5)) else [] in
  let out = ref [] in
  let rec go done_ rest =
    match rest with
    | [] -> ()
    | r :: tl ->
      let d = done_ @ [ r ] in
      let sw = opes_sums fgrp s0 d in
      let sw2 = opes_sums fgrp s20 (List.map (List.map (fun h -> h *. h)) d) in
      let cnt = c0 +. float_of_int (List.fold_left (fun a x -> a + List.length x) 0 d) in
      let neff = (1.0 +. sw) *. (1.0 +. sw) /. (1.0 +. sw2) in
      let rct = kbt *. log (sw /. cnt) in
      out := Printf.sprintf "%s,%s,%d,%s,%s" (hex sw) (hex sw2) (int_of_float cnt) (hex neff) (hex rct) :: !out;
      go d tl in
  go [] rounds;
  print_endline ("S " ^ String.concat ";" (List.rev !out))

let () =
  try
    while true do
      let line = input_line stdin in
      let w = Array.of_list (words line) in
      if Array.length w > 0 then
        (match w.(0) with
         | "ABF" -> abf w
         | "META" -> meta w
         | "SYS" -> sysm w
         | "CZAR" -> czar w
         | "GATHER" -> gather w
         | "OPES" -> opes w
         | "OPESSUM" -> opessum w
         | _ -> print_endline "?")
    done
  with End_of_file -> ()
