# Controller side of the multiple-walker harness: forks N walker processes (c14walk = the engine
# simulator with the replica interface) connected pairwise by socketpairs, feeds each of them
# scenario commands through a pipe and collects what they print.  The controller decides the
# interleaving: it sends one command group to one walker at a time and (unless told not to) waits
# for the walker's SYNC answer before going on, so a schedule of walker steps is executed exactly.
# Every exit path kills the walkers; every wait has a timeout.
import os, select, socket, subprocess, time, signal


class WalkerTimeout(Exception):
    pass


class Walker:
    def __init__(self, exe, index, cwd, fds_keep, env=None):
        self.index = index
        self.cwd = cwd
        e = dict(os.environ)
        e.setdefault("C14_ALARM", "600")
        e["OMP_NUM_THREADS"] = "1"
        if env:
            e.update(env)
        self.p = subprocess.Popen([exe, "-"], stdin=subprocess.PIPE, stdout=subprocess.PIPE,
                                  stderr=subprocess.DEVNULL, cwd=cwd, pass_fds=fds_keep, env=e,
                                  close_fds=True)
        self.buf = b""
        self.nsync = 0
        self.pending = []      # sync tokens sent and not yet seen
        os.set_blocking(self.p.stdout.fileno(), False)

    def send(self, lines, sync=True):
        """send command lines; when sync, append a `sync <k>` command and return the token"""
        txt = "\n".join(lines) + "\n"
        tok = None
        if sync:
            self.nsync += 1
            tok = "SYNC %d" % self.nsync
            txt += "sync %d\n" % self.nsync
            self.pending.append(tok)
        self.p.stdin.write(txt.encode())
        self.p.stdin.flush()
        return tok

    def collect(self, tok, timeout=60.0):
        """read until the line `tok` appears; returns the lines printed before it"""
        t_end = time.time() + timeout
        out = []
        while True:
            while b"\n" in self.buf:
                line, self.buf = self.buf.split(b"\n", 1)
                s = line.decode("utf8", "replace")
                if s == tok:
                    if tok in self.pending:
                        self.pending.remove(tok)
                    return out
                if s.startswith("SYNC ") and s in self.pending:
                    self.pending.remove(s)
                    continue
                out.append(s)
            left = t_end - time.time()
            if left <= 0:
                raise WalkerTimeout("walker %d: no answer to %s within %.0f s" % (self.index, tok, timeout))
            r, _, _ = select.select([self.p.stdout], [], [], min(left, 1.0))
            if r:
                try:
                    chunk = os.read(self.p.stdout.fileno(), 1 << 16)
                except BlockingIOError:
                    chunk = None
                if chunk == b"":
                    raise WalkerTimeout("walker %d exited (rc=%s) before %s" % (self.index, self.p.poll(), tok))
                if chunk:
                    self.buf += chunk
            elif self.p.poll() is not None:
                raise WalkerTimeout("walker %d exited (rc=%s) before %s" % (self.index, self.p.returncode, tok))

    def do(self, lines, timeout=60.0):
        return self.collect(self.send(lines), timeout)

    def kill(self):
        # let a walker that is still listening leave through main() (coverage data are written at exit), then make sure
        try:
            if self.p.poll() is None:
                self.p.stdin.write(b"quit\n")
                self.p.stdin.flush()
                self.p.stdin.close()
                self.p.wait(timeout=1.0)
        except Exception:
            pass
        try:
            self.p.kill()
        except Exception:
            pass
        try:
            self.p.wait(timeout=5)
        except Exception:
            pass
        for f in (self.p.stdin, self.p.stdout):
            try:
                f.close()
            except Exception:
                pass


class Team:
    """n walker processes; walker i talks to walker j over socks[i][j] (full mesh)."""

    def __init__(self, exe, n, dirs, connect=True, timeout_ms=20000):
        self.n = n
        self.walkers = []
        self.socks = []
        pairs = {}
        try:
            if connect:
                for i in range(n):
                    for j in range(i + 1, n):
                        a, b = socket.socketpair(socket.AF_UNIX, socket.SOCK_STREAM)
                        pairs[(i, j)] = a
                        pairs[(j, i)] = b
                        self.socks += [a, b]
            for i in range(n):
                mine = [pairs[(i, j)].fileno() for j in range(n) if j != i] if connect else []
                for fd in mine:
                    os.set_inheritable(fd, True)
                w = Walker(exe, i, dirs[i], mine)
                self.walkers.append(w)
                if connect:
                    fds = [(-1 if j == i else pairs[(i, j)].fileno()) for j in range(n)]
                    w.send(["reptimeout %d" % timeout_ms,
                            "replicas %d %d %s" % (i, n, " ".join(str(f) for f in fds))], sync=False)
            # the controller keeps no end of the sockets open
            for s in self.socks:
                s.close()
            self.socks = []
        except Exception:
            self.close()
            raise

    def __enter__(self):
        return self

    def __exit__(self, *a):
        self.close()

    def close(self):
        for w in self.walkers:
            w.kill()
        for s in self.socks:
            try:
                s.close()
            except Exception:
                pass
        self.walkers = []
        self.socks = []

    def all_do(self, lines_of, timeout=60.0):
        """send to every walker first, then collect (for commands that synchronise the walkers)"""
        toks = [w.send(lines_of(w.index) if callable(lines_of) else lines_of) for w in self.walkers]
        return [w.collect(t, timeout) for w, t in zip(self.walkers, toks)]
