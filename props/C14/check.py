# C14: multiple-walker sharing combines every walker's data exactly once.
#
# Tie: real walker processes (props/C14/unit.cpp = the engine simulator with the replica interface added to
# harness/vsim.h) run under the controller of walkers.py on generated schedules; the extracted Coq model
# (coq/C14/SharedModel.v) runs the same schedules; per-walker internal state is compared after every event.
# Oracles on the implementation alone: union-exactly-once recomputed in python from what was fed (shared
# ABF); prefix / completeness / own-hills-untouched recomputed from what was deposited (metadynamics).
import os, sys, json, glob, time
import vcommon as V

sys.path.insert(0, os.path.dirname(os.path.abspath(__file__)))
import scen
import walkers as W

PROP = "coq/C14/Properties_C14.v"
NB = 64     # metadynamics grid: one bin per hill as far as possible


def run_twice(f, *a, **k):
    """a walker that does not answer in time is a finding only if it happens again on the same case (the machine is shared)"""
    try:
        return f(*a, **k)
    except W.WalkerTimeout:
        return f(*a, **k)


def close(a, b, exact):
    if exact:
        return a == b
    return abs(a - b) <= 1e-9 * max(1.0, abs(a), abs(b))


# ==========================================================================================
# shared ABF
# ==========================================================================================

def gen_abf(r, cid, big=False):
    n = r.choice([2, 2, 3, 3, 4, 5, 6] if big else [2, 2, 3, 3, 4])
    nd = r.choice([1, 1, 2, 2, 3])
    nbins = [r.randint(2, 4 if nd < 3 else 3) for _ in range(nd)]
    F = r.choice([1, 2, 2, 3, 4, 5, 6, 7])
    rounds = r.randint(1, 3) if F < 5 else r.randint(1, 2)
    # the absolute step number the job starts at: beyond what an int, an unsigned int, a double hold exactly
    S0 = r.choice([0, 0, 0, 0, 2 ** 31 - 2, 2 ** 31 + 5, 2 ** 32 - 3, 2 ** 32 + 1, 2 ** 53 - 4, 2 ** 53 + 7, 2 ** 62 - 40])
    t_end = F * rounds + r.randint(0, F - 1)
    p_restart = r.choice([0.0, 0.0, 0.1, 0.25])
    # mode "script": no "shared on" in the configuration, all walkers call "cv bias a share" after the steps in xsteps
    # mode "oldfmt": restarts go through a state of the older format (no last_* section), right after an exchange
    mode = r.choice(["freq"] * 5 + ["script"] * 2 + ["oldfmt"])
    fscale = r.choice([1.0, 1.0, 1.0, 2.0 ** -26, 2.0 ** 26])      # forces of the order 1e-8 .. 1e8 (powers of two: sums stay exact)
    xsteps = set()
    if mode == "script":
        xsteps = set(t for t in range(1, t_end + 1) if r.random() < 0.4) or {max(1, t_end)}
        F = 0
        p_restart = r.choice([0.0, 0.15, 0.3])
    elif mode == "oldfmt":
        p_restart = 0.6
    output = r.random() < 0.5        # output prefix set: end-of-run output files are written at "o" events
    seqs = []
    for w in range(n):
        s = []
        for t in range(t_end + 1):
            if r.random() < 0.08:
                # just outside (by less than a bin; with frac 0.0 and bin nb: exactly on the upper boundary) and far outside
                bins = [r.choice([-1, nb, nb, -1000, nb + 10 ** 6]) if r.random() < 0.5 else r.randint(0, nb - 1) for nb in nbins]
            else:
                bins = [r.randint(0, nb - 1) for nb in nbins]
            frac = r.choice([0.5, 0.5, 0.0, 0.25, 0.984375])
            forces = [V.dyadic(r, -8, 8) * fscale for _ in range(nd)]
            s.append(["s", w, bins, forces, frac])
            if t in xsteps:
                s.append(["x", w])
            if r.random() < 0.04:
                s.append(["c", w])
            if output and r.random() < 0.15:
                s.append(["o", w])
            if r.random() < p_restart and t < t_end and (mode != "oldfmt" or (t > 0 and (S0 + t) % F == 0)):
                s.append(["R", w, r.choice(["text", "binary"])] if mode == "oldfmt" else ["r", w, r.choice(["text", "binary", "str", "buf"])])
                s.append(["s", w, bins, [V.dyadic(r, -8, 8) * fscale for _ in range(nd)], frac])   # the repeated step
        seqs.append(s)
    # interleave: a walker that issued an exchange step is blocked until all walkers issued theirs
    pos = [0] * n
    t = [None] * n
    last = [S0] * n
    first = [True] * n
    pending = set()
    events = []
    style = r.choice(["random", "random", "runahead"])
    cur = None
    while True:
        runnable = [w for w in range(n) if w not in pending and pos[w] < len(seqs[w])]
        if not runnable:
            break
        if style == "runahead" and cur in runnable and r.random() < 0.85:
            w = cur
        else:
            w = r.choice(runnable)
            cur = w
        ev = seqs[w][pos[w]]
        pos[w] += 1
        events.append(ev)
        if ev[0] == "s":
            nt = (t[w] if t[w] is not None else S0) if first[w] else t[w] + 1
            first[w] = False
            t[w] = nt
            if F > 0 and nt > last[w] and nt % F == 0:
                last[w] = nt
                pending.add(w)
                if len(pending) == n:
                    pending = set()
        elif ev[0] == "x":
            pending.add(w)
            if len(pending) == n:
                pending = set()
        elif ev[0] in ("r", "R"):
            first[w] = True
            last[w] = t[w]
    integrate, smp = r.random() < 0.6, r.random() < 0.25
    if mode == "oldfmt":
        smp = False      # (the smp cases have a second bias: the ABF block must be the last one of an unformatted state)
        if r.random() < 0.5:
            # at the very end one walker is given an unformatted state cut inside the "last_samples" keyword
            events.append(["R", r.randrange(n), "binary", True])
    return {"kind": "abf", "id": cid, "mode": mode, "step0": S0, "script": mode == "script", "oldfmt": mode == "oldfmt", "output": output, "hist": output and r.random() < 0.4, "integrate": integrate, "smp": smp, "n": n, "nd": nd, "nbins": nbins, "freq": F, "apply": r.random() < 0.7,
            "full": r.choice([1, 2, 200]), "events": events}


def abf_addr(case, bins):
    a = 0
    for d, b in enumerate(bins):
        if b < 0 or b >= case["nbins"][d]:
            return None
        a = a * case["nbins"][d] + b
    return a


def abf_expect(case):
    """Independent recomputation (python, exact) of what every walker must hold after each of its events,
    and the model's case line.  Returns (expected, model_line, qmap): expected[k] = dict for event k (None for
    events without a dump), qmap[k] = index of the model's Q answer for event k."""
    n, nd, F = case["n"], case["nd"], case["freq"]
    S0 = case.get("step0", 0)
    nc = 1
    for b in case["nbins"]:
        nc *= b
    own = [[] for _ in range(n)]           # samples (addr, forces) fed to walker w, in order
    nshared = [0] * n                      # how many of them were exchanged
    t = [None] * n
    last = [S0] * n
    first = [True] * n
    pending = []                           # (event index, walker, sample or None)
    restarted = False
    # the job starts at step S0: colvarbias_abf::init sets shared_last_step to it (in the model: a restart at S0 of the empty walker)
    tokens = ["r,%d,%d" % (w, S0) for w in range(n)] if S0 else []
    exp = [None] * len(case["events"])
    qmap = {}
    nq = 0
    dmap = {}

    def grids(w, nsh_all):
        cnt_u = [0] * nc
        sum_u = [0.0] * (nc * nd)
        for v in range(n):
            for (a, f) in own[v][:nsh_all[v]]:
                cnt_u[a] += 1
                for m in range(nd):
                    sum_u[a * nd + m] += -f[m]
        cnt_g, sum_g = list(cnt_u), list(sum_u)
        for (a, f) in own[w][nsh_all[w]:]:
            cnt_g[a] += 1
            for m in range(nd):
                sum_g[a * nd + m] += -f[m]
        cnt_o = [0] * nc
        sum_o = [0.0] * (nc * nd)
        for (a, f) in own[w][:nsh_all[w]]:
            cnt_o[a] += 1
            for m in range(nd):
                sum_o[a * nd + m] += -f[m]
        return {"cnt": cnt_g, "sum": sum_g, "lcnt": cnt_u, "lsum": sum_u, "ocnt": cnt_o, "osum": sum_o}

    def tok_sample(w, a, f):
        return "s,%d,%d,%s" % (w, a, ",".join(V.hexf(x) for x in f))

    for k, ev in enumerate(case["events"]):
        w = ev[1]
        if ev[0] == "s":
            nt = (t[w] if t[w] is not None else S0) if first[w] else t[w] + 1
            rel0 = first[w]
            first[w] = False
            t[w] = nt
            a = abf_addr(case, ev[2])
            smp = (a, ev[3]) if (a is not None and not rel0) else None
            exch = F > 0 and nt > last[w] and nt % F == 0
            tokens.append("d,%d" % nt)
            dmap[k] = (nq, w, exch)
            nq += 1
            if exch:
                last[w] = nt
                tokens.append("a,%d" % w)
                pending.append((k, w, smp))
                if len(pending) == n:
                    for v in range(n):
                        nshared[v] = len(own[v])
                    tokens.append("x,%d" % nt)
                    for (pk, pw, psmp) in pending:
                        if psmp:
                            own[pw].append(psmp)
                            tokens.append(tok_sample(pw, psmp[0], psmp[1]))
                        tokens.append("q,%d" % pw)
                        qmap[pk] = nq
                        nq += 1
                        exp[pk] = dict(grids(pw, nshared), last_step=nt, restarted=restarted)
                    pending = []
            else:
                if smp:
                    own[w].append(smp)
                    tokens.append(tok_sample(w, smp[0], smp[1]))
                tokens.append("q,%d" % w)
                qmap[k] = nq
                nq += 1
                exp[k] = dict(grids(w, nshared), last_step=last[w], restarted=restarted)
        elif ev[0] in ("o", "c"):
            tokens.append("q,%d" % w)
            qmap[k] = nq
            nq += 1
            exp[k] = dict(grids(w, nshared), last_step=last[w], restarted=restarted)
        elif ev[0] == "x":
            # exchange asked for by the script, at the step every walker is at
            nt = t[w] if t[w] is not None else S0
            last[w] = nt
            tokens.append("a,%d" % w)
            pending.append((k, w, None))
            if len(pending) == n:
                for v in range(n):
                    nshared[v] = len(own[v])
                tokens.append("x,%d" % nt)
                for (pk, pw, psmp) in pending:
                    tokens.append("q,%d" % pw)
                    qmap[pk] = nq
                    nq += 1
                    exp[pk] = dict(grids(pw, nshared), last_step=nt, restarted=restarted)
                pending = []
        elif ev[0] == "R" and len(ev) > 3 and ev[3]:
            exp[k] = None          # a damaged state: must be refused (checked on the LOAD line)
        else:
            restarted = True
            first[w] = True
            last[w] = t[w] if t[w] is not None else S0
            tokens.append("r,%d,%d" % (w, last[w]))
            tokens.append("q,%d" % w)
            qmap[k] = nq
            nq += 1
            exp[k] = dict(grids(w, nshared), last_step=last[w], restarted=True)
    line = "ABF %d %d %d %d %d %s" % (1 if case.get("oldfmt") else 0, n, nc, nd, F, " ".join(tokens))
    return exp, line, qmap, dmap


def parse_model_abf(out):
    segs = [s.strip() for s in out.split(" | ")]
    res = []
    for s in segs:
        t = s.split()
        if t[0] == "Q":
            c = t[3][4:].split(";")
            f = t[4][4:].split(";")
            res.append({"w": int(t[1]), "last_step": int(t[2]), "ss": (t[5] == "ss=1") if len(t) > 5 else None,
                        "cnt": [int(x) for x in c[0].split(",")], "lcnt": [int(x) for x in c[1].split(",")],
                        "ocnt": [int(x) for x in c[2].split(",")],
                        "sum": [float.fromhex(x) for x in f[0].split(",")], "lsum": [float.fromhex(x) for x in f[1].split(",")],
                        "osum": [float.fromhex(x) for x in f[2].split(",")]})
        elif t[0] == "D":
            res.append({"due": t[2]})
        else:
            res.append({"bad": s})
    return res


def same_abf(a, b, exact):
    for key in ("cnt", "lcnt", "ocnt"):
        if a[key] != b[key]:
            return key
    for key in ("sum", "lsum", "osum"):
        if len(a[key]) != len(b[key]) or any(not close(x, y, exact) for x, y in zip(a[key], b[key])):
            return key
    if a["last_step"] != b["last_step"]:
        return "last_step"
    return None


def check_abf(run, exe, model, cases, scratch):
    lines = []
    pre = []
    for c in cases:
        exp, line, qmap, dmap = abf_expect(c)
        pre.append((exp, qmap, dmap))
        lines.append(line)
    rc, mout, err = V.run_lines(model, lines, timeout=600)
    if rc != 0 or len(mout) != len(cases):
        raise V.InfraError("C14 model driver failed: rc=%s %s" % (rc, err[-500:]))
    ndead = 0
    for c, (exp, qmap, dmap), mo in zip(cases, pre, mout):
        if ndead >= 2:
            # every deadlocked case costs its timeouts: two concrete ones are enough
            run.dist("abf:skipped-after-deadlocks")
            continue
        nrest = sum(1 for e in c["events"] if e[0] in ("r", "R"))
        key = "abf n=%d nd=%d F=%d ev=%d r=%d" % (c["n"], c["nd"], c["freq"], len(c["events"]), nrest)
        run.dist("abf:n=%d" % c["n"])
        run.dist("abf:mode=%s" % c.get("mode", "freq"))
        run.dist("abf:restarts" if nrest else "abf:no-restart")
        run.count(json.dumps(c["events"]), True)
        run.sample({"kind": "abf", "n": c["n"], "nd": c["nd"], "nbins": c["nbins"], "freq": c["freq"],
                    "events": c["events"][:12], "more_events": max(0, len(c["events"]) - 12)}, cap=2)
        try:
            out, stats = run_twice(scen.run_abf, exe, c, scratch, timeout=10.0)
        except W.WalkerTimeout as e:
            ndead += 1
            run.violation("abf:walker-crashed" if "exited (rc=-" in str(e) else "abf:exchange-deadlock", "the walkers did not complete the schedule (%s): a walker waits for an "
                          "exchange the others do not perform, or a message is missing; case %s" % (str(e)[:200], key),
                          {"kind": "abf", "case": c})
            continue
        mres = parse_model_abf(mo)
        par = [x for s_ in stats for x in s_ if "parallel=" in x and "parallel=0" not in x]
        if par:
            run.violation("abf:replica-calls-in-parallel-bias-loop", "with the engine's thread pool on, replica_comm calls were made from inside the parallel "
                          "loop over the biases: %s" % par[:2], {"kind": "abf", "case": c})
        bad_stats = [s for s in stats if not any("errors=0" in x for x in s)]
        if bad_stats:
            ndead += 1
            run.violation("abf:communication-error", "replica_comm_send/recv reported errors: %s" % bad_stats[:2],
                          {"kind": "abf", "case": c})
        tie_ok = True
        for k, ev in enumerate(c["events"]):
            if out[k] is not None and ev[0] == "c" and any("err=ok" in x and "nbias=2" in x for x in out[k][1]):
                run.violation("config:accepted-outside-the-premises", "a second ABF bias on a variable that does not exist was accepted: %s" % out[k][1],
                              {"kind": "abf", "case": c, "event": k})
                break
            if out[k] is not None and ev[0] in ("r", "R"):
                loads = [x for x in out[k][1] if x.startswith("LOAD")]
                cut = ev[0] == "R" and len(ev) > 3 and ev[3]
                if cut and any("err=ok" in x for x in loads):
                    run.dist("abf:cut-state")
                    run.violation("abf:cut-state-accepted", "walker %d accepted an unformatted state that ends 3 bytes into the \"last_samples\" "
                                  "keyword as a complete one (%s); case %s" % (ev[1], loads, key), {"kind": "abf", "case": c, "event": k})
                    break
                if cut:
                    run.dist("abf:cut-state")
                if not cut and not any("err=ok" in x for x in loads):
                    run.violation("abf:own-state-refused", "walker %d could not read the state it (or, for the older format, its predecessor) had written: %s; "
                                  "case %s" % (ev[1], out[k][1], key), {"kind": "abf", "case": c, "event": k})
                    break
            if out[k] is None or exp[k] is None:
                continue
            w, errl, impl = out[k]
            if impl is not None and c.get("script"):
                # before the first call of "share" the local grids do not exist yet (nothing was exchanged: zero), and the
                # step of the last exchange plays no part (no frequency: exchanges happen when the script says so)
                e_ = exp[k]
                impl = dict(impl, last_step=e_["last_step"])
                for f_ in ("ocnt", "osum"):
                    if impl.get(f_) is None:
                        impl[f_] = [0] * len(e_[f_]) if f_ == "ocnt" else [0.0] * len(e_[f_])
            if impl is None:
                run.violation("abf:no-state", "walker %d printed no shared-ABF state after event %d of case %s" % (w, k, key),
                              {"kind": "abf", "case": c, "event": k})
                break
            e = exp[k]
            exact = not e["restarted"]
            # property oracle on the implementation alone: union exactly once / own contribution recoverable
            # (a state of the older format does not say what had been exchanged: everything restored counts as exchanged, and the
            # samples collected since the last exchange are never sent -- C14_abf_union_once_before_repair_refuted; after such a
            # restart only the tie with the model of that reading rule, w_restart_old, goes on)
            d = None if (c.get("oldfmt") and e["restarted"]) else same_abf(impl, e, exact)
            if d is not None:
                what = {"cnt": "global count", "sum": "global gradient sum", "lcnt": "snapshot count", "lsum": "snapshot sum",
                        "ocnt": "local count", "osum": "local sum", "last_step": "shared_last_step"}[d]
                sig = ("abf:local-not-own-samples" if d in ("ocnt", "osum") else
                       "abf:exchange-step" if d == "last_step" else "abf:union-not-exactly-once")
                if nrest and sig != "abf:exchange-step":
                    sig += ":after-restart"
                run.violation(sig, "%s of walker %d after event %d %s: implementation %s, union of what was fed %s (%d walkers, "
                              "sharedFreq %d)" % (what, w, k, ev[:3], impl[d], e[d], c["n"], c["freq"]),
                              {"kind": "abf", "case": c, "event": k, "field": d, "impl": impl, "expected": e})
                break
            # tie with the extracted model (after the first disagreement of a case only the oracle goes on)
            if not tie_ok:
                continue
            m = mres[qmap[k]] if qmap.get(k) is not None and qmap[k] < len(mres) else None
            if m is None or "cnt" not in m:
                run.mismatch("abf", {"case": c, "event": k}, impl, m)
                tie_ok = False
                continue
            d = same_abf(impl, m, exact)
            if d is not None:
                run.mismatch("abf", {"case": c, "event": k, "field": d}, {x: impl[x] for x in ("cnt", "sum", "lcnt", "lsum", "ocnt", "osum", "last_step")}, m)
                tie_ok = False
                continue
            if m.get("ss") is False and not c.get("oldfmt"):    # (the small-step machine has the restart of the current state format only)
                run.mismatch("abf:small-step", {"case": c, "event": k}, "schedule executed by the walkers",
                             "SharedModel.sstep refuses an action of this schedule or ends in different grids")
                tie_ok = False
                continue
            if k in dmap:
                qi, dw, exch = dmap[k]
                md = mres[qi].get("due") if qi < len(mres) else None
                if md is None or (md[dw] == "1") != exch:
                    run.mismatch("abf:share_due", {"case": c, "event": k}, exch, md)
                    tie_ok = False


def no_zero_length_runs(events, kinds):
    """with stepZeroData a run of zero steps deposits a second hill with the step number of the state file and writes a
    second, different state file with that step number: such runs are outside the premises of the theorems (steps_ok)
    and are not generated.  kinds: event tag -> (walker key, 'step' | 'restart')"""
    out = []
    since = {}
    skip_next_step_of = None
    for ev in events:
        k = kinds.get(ev[0])
        if k is None:
            out.append(ev)
            continue
        who = k[0](ev)
        if k[1] == "restart":
            if since.get(who, 0) < 2:
                skip_next_step_of = who      # drop the restart and the repeated step that follows it
                continue
            since[who] = 0
            out.append(ev)
        else:
            if skip_next_step_of == who:
                skip_next_step_of = None
                continue
            since[who] = since.get(who, 0) + 1
            out.append(ev)
    return out


# ==========================================================================================
# file-based multiple-walker metadynamics, walkers sharing files directly
# ==========================================================================================

def gen_meta(r, cid, big=False):
    n = r.choice([2, 2, 3, 3, 4, 5, 6] if big else [2, 2, 3, 3, 4])
    hillfreq = r.choice([1, 1, 2, 3])
    upfreq = r.choice([1, 2, 2, 3, 5])
    lock = r.random() < 0.5
    if lock:
        rf = r.choice([0, 2, 3, 4, 5, 6, 7])
        restartfreq = [rf] * n
    else:
        restartfreq = [r.choice([0, 0, 2, 3, 4, 5, 6, 7]) for _ in range(n)]
    S0 = r.choice([0, 0, 0, 2 ** 31 - 2, 2 ** 31 + 5, 2 ** 32 - 3, 2 ** 32 + 1, 2 ** 53 - 4, 2 ** 53 + 7, 2 ** 62 - 60])
    # margin 0: the first walker starts in bin 0 and the last one ends in the last bin: hills next to the boundaries, which
    # the walkers (and their mirrors of the others) also keep in the list of hills treated off the grid
    margin = r.choice([2, 2, 0])
    span = (NB - 2 * margin) // n
    nextbin = [margin + w * span for w in range(n)]
    lastbin = [None] * n
    started = [False] * n
    events = []
    nev = r.randint(14, 40)
    p_restart = r.choice([0.0, 0.04, 0.1])
    # a walker is KILLED (no final output, no state file of its last step) and started again from its last checkpoint, which is
    # older than what the others have read of it: its hills after the checkpoint are a lost timeline
    p_kill = r.choice([0.0, 0.0, 0.06, 0.12])
    if p_kill:
        nev += 20
        restartfreq = [x if x else r.choice([2, 3, 4, 5]) for x in restartfreq]

    def do_step(w):
        b = nextbin[w]
        nextbin[w] = margin + w * span + ((nextbin[w] - margin - w * span - 1) % span if w == n - 1 else (nextbin[w] - margin - w * span + 1) % span)
        lastbin[w] = b
        started[w] = True
        events.append(["s", w, b])

    if lock:
        while len(events) < nev:
            order = list(range(n))
            r.shuffle(order)
            for w in order:
                do_step(w)
            if r.random() < p_restart * n:
                w = r.randrange(n)
                events.append(["r", w, r.random() < 0.5])
                events.append(["s", w, lastbin[w]])      # the repeated first step of the new run
            if p_kill and r.random() < p_kill * n:
                w = r.randrange(n)
                events.append(["k", w])
                events.append(["s", w, lastbin[w]])
                # the others repeat nothing; the restarted walker is one engine step behind in wall-clock only
    else:
        cur = 0
        while len(events) < nev:
            if r.random() < 0.6:
                w = cur
            else:
                w = r.randrange(n)
                cur = w
            if started[w] and r.random() < p_restart:
                events.append(["r", w, r.random() < 0.5])
                events.append(["s", w, lastbin[w]])
            elif started[w] and p_kill and r.random() < p_kill:
                events.append(["k", w])
                events.append(["s", w, lastbin[w]])
            else:
                do_step(w)
    szd = r.random() < 0.2 and not p_kill
    if szd:
        events = no_zero_length_runs(events, {"s": (lambda e: e[1], "step"), "r": (lambda e: e[1], "restart")})
    case = {"kind": "meta", "id": cid, "n": n, "nbins": NB, "hillfreq": hillfreq, "upfreq": upfreq,
            "restartfreq": restartfreq, "lockstep": lock, "grids": r.random() < 0.7, "szd": szd,
            # no replicaID keyword: the name comes from the replica interface of the engine (its replica index)
            "idfromcomm": r.random() < 0.25, "step0": S0,
            # a restarted walker continues with a configuration that legally differs from the one that wrote its state
            "conf2": ({"hillfreq": r.choice([1, 2, 3]), "upfreq": r.choice([1, 2, 3, 5])} if r.random() < 0.5 else None), "events": events}
    return drop_kills_without_checkpoint(case) if p_kill else case


def drop_kills_without_checkpoint(case):
    """a walker can only be started again from a checkpoint it has written (under its current output prefix)"""
    while True:
        c2 = dict(case)
        meta_primitives(c2)
        bad = c2.get("_bad_kills", [])
        if not bad:
            return case
        case = dict(case, events=[e for k, e in enumerate(case["events"]) if k != bad[0]])


def meta_primitives(case):
    """What every implementation event means in terms of the model's primitive events, from the code's own
    schedule (newHillFrequency, replicaUpdateFrequency, restart frequency, first step of a run).
    Returns per event a list of primitives ("setup", w, S, nn) ("dep", w, it, bin) ("flush", w) ("share", w)
    ("wstate", w, S) ("rrestart", w), and per walker the deposited sequence after each event."""
    n = case["n"]
    S0 = case.get("step0", 0)
    t = [None] * n
    first = [True] * n
    started = [False] * n
    second = [False] * n        # the walker runs its second (or a later) job: with conf2 its frequencies are different ones
    def freq(w, key):
        return case["conf2"][key] if (second[w] and case.get("conf2")) else case[key]
    D = [[] for _ in range(n)]
    prims = []
    Dafter = []
    state_n = [0] * n           # how many hills the state file of each walker holds
    ck = [None] * n             # step of the last checkpoint the walker wrote under its current output prefix
    case["_bad_kills"] = []
    case["_state_n_after"] = []
    for ev in case["events"]:
        w = ev[1]
        p = []
        if not started[w]:
            p.append(("setup", w, S0, False))
            started[w] = True
        if ev[0] == "s":
            nt = (t[w] if t[w] is not None else S0) if first[w] else t[w] + 1
            rel0 = first[w]
            first[w] = False
            t[w] = nt
            if ((not rel0) or case.get("szd")) and nt % freq(w, "hillfreq") == 0:
                p.append(("dep", w, nt, ev[2]))
                D[w].append((nt, ev[2]))
            if nt % freq(w, "upfreq") == 0:
                p.append(("flush", w))
                p.append(("share", w))
            rf = case["restartfreq"][w]
            if rf > 0 and (not rel0) and nt % rf == 0:
                p.append(("wstate", w, nt))
                state_n[w] = len(D[w])
                ck[w] = nt
        elif ev[0] == "k":
            if ck[w] is None:
                case["_bad_kills"].append(len(prims))
            else:
                # killed: what it deposited after its last checkpoint never happened; started again from that checkpoint
                # (setup_output writes the state file of that step again and restarts the hills file)
                S = ck[w]
                D[w] = [(it, b) for (it, b) in D[w] if it <= S]
                p.append(("rollback", w, S))
                p.append(("setup", w, S, False))
                t[w] = S
                state_n[w] = len(D[w])
                first[w] = True
                second[w] = True
        else:
            p.append(("wstate", w, t[w]))
            p.append(("rrestart", w))
            p.append(("setup", w, t[w], bool(ev[2])))
            state_n[w] = len(D[w])
            first[w] = True
            second[w] = True
            ck[w] = None if ev[2] else t[w]      # (the end-of-run output wrote <prefix>.colvars.state; a new prefix has none yet)
        prims.append(p)
        Dafter.append([list(x) for x in D])
        case["_state_n_after"].append(list(state_n))
    return prims, Dafter


def pair_tokens(prims_of_event, r, p):
    toks = []
    for pr in prims_of_event:
        kind, w = pr[0], pr[1]
        if w == p:
            if kind == "dep":
                toks.append("d,%d,%d" % (pr[2], pr[3]))
            elif kind == "flush":
                toks.append("v,100000")
            elif kind == "wstate":
                toks.append("w,%d" % pr[2])
            elif kind == "setup":
                toks.append("u,%d,%d" % (pr[2], 1 if pr[3] else 0))
        if w == r:
            if kind == "share":
                toks.append("s")
            elif kind == "wstate":
                toks.append("o")
            elif kind == "rrestart":
                toks.append("r")
    return toks


def parse_model_meta(out):
    res = []
    for s in [x.strip() for x in out.split(" | ")]:
        t = s.split()
        if not t or t[0] != "M":
            res.append({"bad": s})
            continue
        d = {"ok": t[1] == "ok=1"}
        if t[2] == "none":
            d["mirror"] = None
            rest = t[3:]
        else:
            name, sync, has, pos, S = t[2].split(",")
            cont = t[3][5:]
            d["mirror"] = {"name": name, "sync": int(sync), "has": int(has), "pos": int(pos), "S": int(S),
                           "cont": [] if cont == "-" else [tuple(int(y) for y in x.split(":")) for x in cont.split(";")]}
            rest = t[4:]
        for x in rest:
            k, v = x.split("=")
            d[k] = [] if v == "-" else [tuple(int(y) for y in z.split(":")) for z in v.split(";")]
        res.append(d)
    return res


def counts_of(hills, nb):
    c = [0.0] * nb
    for (it, b) in hills:
        c[b] += 1.0
    return c


def prefix_len(counts, D, nb):
    """k such that the multiset of the first k hills of D has these per-bin counts, or None"""
    c = [0.0] * nb
    if c == counts:
        return 0
    for k, (it, b) in enumerate(D):
        c[b] += 1.0
        if c == counts:
            return k + 1
    return None


def show(counts):
    return [b for b, x in enumerate(counts) for _ in range(int(round(x)))]


def check_meta(run, exe, model, cases, scratch, fixflags="1 1"):
    for c in cases:
        n = c["n"]
        prims, Dafter = meta_primitives(c)
        run.dist("meta:n=%d" % n)
        run.dist("meta:lockstep" if c["lockstep"] else "meta:async")
        nrest = sum(1 for e in c["events"] if e[0] == "r")
        run.dist("meta:restarts" if nrest else "meta:no-restart")
        nkill = sum(1 for e in c["events"] if e[0] == "k")
        if nkill:
            run.dist("meta:killed-and-restarted-from-checkpoint")
        run.dist("meta:useGrids-on" if c.get("grids", True) else "meta:useGrids-off")
        if c.get("szd"):
            run.dist("meta:stepZeroData")
        run.count(json.dumps([c["events"], c["restartfreq"], c["upfreq"], c["hillfreq"]]), True)
        run.sample({"kind": "meta", "n": n, "hillfreq": c["hillfreq"], "upfreq": c["upfreq"], "restartfreq": c["restartfreq"],
                    "lockstep": c["lockstep"], "events": c["events"][:14], "more_events": max(0, len(c["events"]) - 14)}, cap=4)
        try:
            out = run_twice(scen.run_meta, exe, c, scratch, timeout=25.0)
        except W.WalkerTimeout as e:
            run.violation("meta:walker-died", "a walker stopped answering (%s)" % str(e)[:200], {"kind": "meta", "case": c})
            continue
        # model: the n-walker system of SharedModel.sys_step on the primitive events of the schedule
        toks = []
        qidx = {(rr, pp): {} for rr in range(n) for pp in range(n) if rr != pp}
        nq = 0
        for k, ev in enumerate(c["events"]):
            for pr in prims[k]:
                kind, w = pr[0], pr[1]
                if kind == "dep":
                    toks.append("d,%d,%d,%d" % (w, pr[2], pr[3]))
                elif kind == "flush":
                    toks.append("v,%d,100000" % w)
                elif kind == "wstate":
                    toks.append("w,%d,%d" % (w, pr[2]))
                elif kind == "setup":
                    toks.append("u,%d,%d,%d" % (w, pr[2], 1 if pr[3] else 0))
                elif kind == "share":
                    toks.append("s,%d" % w)
                elif kind == "rrestart":
                    toks.append("r,%d" % w)
            toks.append("q,%d" % ev[1])
            for pp in range(n):
                if pp != ev[1]:
                    qidx[(ev[1], pp)][k] = nq
            nq += 1
        rc, mout, err = V.run_lines(model, ["SYS %d %s" % (n, " ".join(toks))], timeout=600)
        if rc != 0 or len(mout) != 1:
            raise V.InfraError("C14 model driver failed: rc=%s %s" % (rc, err[-500:]))
        segs = [x.strip() for x in mout[0].split(" | ")]
        mres = {kk: [] for kk in qidx}
        for rr in range(n):
            for pp in range(n):
                if rr != pp:
                    mres[(rr, pp)] = [None] * len(segs)
        for qi, seg in enumerate(segs):
            for part in seg.split(" ; "):
                t = part.split()
                if len(t) < 3 or t[0] != "P":
                    continue
                pp = int(t[1])
                parsed = parse_model_meta("M " + " ".join(t[2:]))[0]
                for rr in range(n):
                    if rr != pp and (rr, pp) in mres:
                        mres[(rr, pp)][qi] = parsed      # filled for every reader; only the querying reader's entry is used
        lens = set(sn["reclen"] for (_, snap, _) in out for sn in snap.values() if sn.get("reclen"))
        if len(lens) > 1:
            run.dist("meta:records-of-different-length")
            continue
        reclen = lens.pop() if lens else None
        stop = False
        tie_ok = True
        # (reader, peer) -> "R": the peer was killed and rolled back, the reader has not exchanged since; "T": it has, and kept hills
        # of the lost timeline (reported once; the full re-reading after the reader's own next state file must remove them);
        # "X1"/"X2": the oracles of this event are the first after the roll-back / after roll-back, own state file and exchange
        stale = {}
        stale_ck = set()
        for k, ev in enumerate(c["events"]):
            if stop:
                break
            w, snap, d = out[k]
            for pr in prims[k]:
                if pr[0] == "rollback":
                    # the model has no lost timelines (its writers number their steps monotonically): from here on only the oracles go on
                    tie_ok = False
                    for rr in range(n):
                        if rr != pr[1]:
                            stale[(rr, pr[1])] = "R"
                            stale_ck.discard((rr, pr[1]))
                        stale.pop((pr[1], rr), None)                       # the restarted walker reads everybody afresh
                elif pr[0] == "share" and pr[1] == w:
                    for key in [x for x in stale if x[0] == w and stale[x] in ("R", "T")]:
                        stale[key] = "X2" if key in stale_ck else "X1"
                elif pr[0] == "wstate" and pr[1] == w:
                    stale_ck |= set(x for x in stale if x[0] == w and stale[x] in ("R", "T", "X1"))
            if d["own"] is None:
                run.violation("meta:no-state", "walker %d has no metadynamics bias after event %d %s (useGrids %s): %s" % (w, k, ev, "on" if c.get("grids", True) else "off", d["errtext"].strip()[:200]), {"kind": "meta", "case": c, "event": k})
                break
            did_share = any(p[0] == "share" and p[1] == w for p in prims[k])
            # ---- own data untouched (oracle on the implementation alone)
            own, okint = scen.content(d["own"], d["owngrid"], NB)
            if not okint:
                run.dist("meta:boundary-ambiguous")
                break
            if own != counts_of(Dafter[k][w], NB):
                run.violation("meta:own-hills-changed", "walker w%d's own bias after event %d %s holds hills in bins %s, it deposited %s"
                              % (w, k, ev, show(own), [b for (_, b) in Dafter[k][w]]), {"kind": "meta", "case": c, "event": k})
                break
            for p in range(n):
                if p == w:
                    continue
                mid = scen.rid(c, p)
                mir = d["mirrors"].get(mid)
                mq = mres[(w, p)][qidx[(w, p)][k]] if qidx[(w, p)].get(k) is not None and qidx[(w, p)][k] < len(mres[(w, p)]) else None
                if mq is None:
                    mq = {"bad": 1}
                Dp = Dafter[k][p]
                lvl = stale.get((w, p))
                if lvl in ("R", "T"):
                    continue
                if lvl == "X2":
                    stale.pop((w, p))
                lost_sig = {"X1": "meta:lost-timeline-kept", "X2": "meta:lost-timeline-kept-after-own-state-file"}.get(lvl)
                if mir is not None:
                    cont, okint = scen.content(mir, mir.get("grid"), NB)
                    if not okint:
                        run.dist("meta:boundary-ambiguous")
                        stop = True
                        break
                    # ---- prefix: no loss inside, no duplicate (implementation alone)
                    kpre = prefix_len(cont, Dp, NB)
                    if kpre is None:
                        sig = lost_sig or ("meta:mirror-not-a-prefix" + (":lockstep" if c["lockstep"] else ":async"))
                        run.violation(sig, "after event %d %s walker w%d holds for peer w%d hills in bins %s; the peer deposited, in order, %s "
                                      "(upfreq %d, restartfreq %s)%s" % (k, ev, w, p, show(cont), [b for (_, b) in Dp], c["upfreq"], c["restartfreq"],
                                      (" -- the peer had been killed and started again from its last checkpoint: these are the hills of the timeline that survived"
                                       + ("; the reader has written its own state file since and exchanged again" if lvl == "X2" else "")) if lost_sig else ""),
                                      {"kind": "meta", "case": c, "event": k, "reader": w, "peer": p})
                        if lvl == "X1":
                            stale[(w, p)] = "T"
                            continue
                        stop = True
                        break
                    # ---- completeness after an exchange: everything visible before this event is there
                    if did_share and snap[p]["state_step"] is not None and reclen:
                        S = snap[p]["state_step"]
                        n_state = c["_state_n_after"][k - 1][p] if k > 0 else 0
                        n_file = ((snap[p]["hills_size"] or 0) + 1) // reclen
                        if kpre < n_state + n_file:
                            sig = lost_sig or ("meta:visible-hills-missing" + (":lockstep" if c["lockstep"] else ":async"))
                            run.violation(sig, "after its exchange in event %d %s walker w%d holds %d hills of peer w%d (bins %s) although the peer's "
                                          "state file (step %d, %d hills) and the %d complete records of its hills file were on disk "
                                          "(upfreq %d, restartfreq %s)" % (k, ev, w, kpre, p, show(cont), S, n_state, n_file, c["upfreq"], c["restartfreq"]),
                                          {"kind": "meta", "case": c, "event": k, "reader": w, "peer": p})
                            if lvl == "X1":
                                stale[(w, p)] = "T"
                                continue
                            stop = True
                            break
                if lvl == "X1" and stale.get((w, p)) == "X1":
                    stale.pop((w, p))
                # ---- tie with the model (after the first disagreement of a case only the oracles go on)
                if not tie_ok:
                    continue
                if "bad" in mq:
                    run.mismatch("meta", {"case": c, "event": k}, "(no model answer)", mq)
                    tie_ok = False
                    continue
                mm = mq["mirror"]
                if (mir is None) != (mm is None):
                    run.mismatch("meta:mirror-exists", {"case": c, "event": k, "reader": w, "peer": p}, mir is not None, mm is not None)
                    tie_ok = False
                    continue
                if mir is None:
                    continue
                ipos = int(mir["pos"])
                irec = 0 if ipos <= 0 else (ipos + 1) // reclen if reclen and (ipos + 1) % reclen == 0 else -1
                isum = {"sync": int(mir["in_sync"]), "S": int(mir["state_step"]), "pos": irec, "cont": show(cont)}
                msum = {"sync": mm["sync"], "S": mm["S"], "pos": mm["pos"], "cont": show(counts_of(mm["cont"], NB))}
                if not mq["ok"] and c.get("szd") and isum == msum:
                    # a run of zero steps with stepZeroData writes two different state files with one step number: outside the
                    # premises of the theorems (steps_ok); the states are still compared
                    run.dist("meta:szd-zero-length-run-outside-premises")
                elif isum != msum or not mq["ok"]:
                    isum["pos_bytes"] = ipos
                    isum["reclen"] = reclen
                    run.mismatch("meta", {"case": c, "event": k, "reader": w, "peer": p}, isum, dict(msum, trace_ok=mq["ok"]))
                    tie_ok = False


# ==========================================================================================
# view mode: any byte prefix of the peer's hills file
# ==========================================================================================

def gen_view(r, cid, robust=False):
    hillfreq = r.choice([1, 1, 2])
    upfreq = r.choice([1, 2, 2, 3])
    restartfreq = [r.choice([0, 0, 3, 4]), r.choice([0, 2, 3, 4, 5])]     # reader, writer
    nev = r.randint(16, 40)
    events = []
    pb = 30
    rb = 2
    plast = rlast = None
    pstarted = rstarted = False
    REC = 130
    split_case = (not robust) and r.random() < 0.3
    for _ in range(nev):
        x = r.random()
        if x < 0.35:
            events.append(["ps", pb, "split"] if (split_case and r.random() < 0.6) else ["ps", pb])
            plast = pb
            pb = 30 + (pb - 30 + 1) % 30
            pstarted = True
        elif x < 0.65:
            events.append(["rs", rb])
            rlast = rb
            rb = 2 + (rb - 2 + 1) % 26
            rstarted = True
        elif x < 0.9:
            y = r.random()
            if y < 0.25:
                k = None
            elif y < 0.7:     # around a record boundary
                k = max(0, r.randint(0, 6) * REC + r.randint(-3, 3))
            else:
                k = r.randint(0, 6 * REC)
            events.append(["ph", k])
        elif x < 0.92 and split_case:
            events.append(["pb"])
        elif x < 0.93 and pstarted:
            events.append(["pt", r.choice([None, None, 0, 10, 40, 80, 200, 400, 700, 1500])])
        elif x < 0.94 and pstarted:
            events.append(["pr", r.random() < 0.5])
            events.append(["ps", plast])
        elif x < 0.97 and rstarted:
            events.append(["rr"])
            events.append(["rs", rlast])
        elif robust:
            # the list file and the registry are rewritten / appended in place: a reader may find them half-written
            y = r.random()
            if y < 0.4:
                events.append(["pl", r.choice([None, None, 0, 5, 9, 10, 30, 60, 70])])
            else:
                events.append(["pg", r.choice([None, None, 1, 2, 3, 4, 10, 20, 30])])
    szd = r.random() < 0.2
    if szd:
        events = no_zero_length_runs(events, {"ps": (lambda e: "p", "step"), "pr": (lambda e: "p", "restart"),
                                              "rs": (lambda e: "r", "step"), "rr": (lambda e: "r", "restart")})
    c = {"kind": "view", "id": cid, "n": 2, "nbins": NB, "hillfreq": hillfreq, "upfreq": upfreq,
         "restartfreq": restartfreq, "robust": robust, "grids": r.random() < 0.7, "szd": szd, "events": events}
    if robust:
        c["late_register"] = r.random() < 0.7
        events.append(["pg", None])
        events.append(["pl", None])
        for _ in range(3):
            events.append(["ps", pb])
            pb = 30 + (pb - 30 + 1) % 30
            events.append(["ph", None])
            events.append(["rs", rb])
            rb = 2 + (rb - 2 + 1) % 26
    return c


def check_view(run, exe, model, cases, scratch, fixflags="1 1"):
    for c in cases:
        run.dist("view:robust" if c["robust"] else "view:prefix")
        run.dist("view:useGrids-on" if c.get("grids", True) else "view:useGrids-off")
        run.count(json.dumps([c["events"], c["restartfreq"], c["upfreq"], c["hillfreq"]]), True)
        run.sample({"kind": "view", "hillfreq": c["hillfreq"], "upfreq": c["upfreq"], "restartfreq": c["restartfreq"],
                    "events": c["events"][:14], "more_events": max(0, len(c["events"]) - 14)}, cap=6)
        try:
            out = run_twice(scen.run_view, exe, c, scratch, timeout=25.0)
        except W.WalkerTimeout as e:
            run.violation("view:walker-died", "a walker stopped answering while reading a peer's partially written files (%s)" % str(e)[:200],
                          {"kind": "view", "case": c})
            continue
        # bookkeeping of both walkers from the code's own schedule
        t = {"p": None, "r": None}
        first = {"p": True, "r": True}
        D = {"p": [], "r": []}
        rfq = {"r": c["restartfreq"][0], "p": c["restartfreq"][1]}
        toks = ["u,0,0"] + (["rv,0"] if c.get("late_register") else [])
        lens = set(rec["reclen"] for rec in out if rec.get("reclen"))
        if len(lens) > 1:
            run.dist("view:records-of-different-length")
            continue
        reclen = lens.pop() if lens else None
        qat = {}
        shared_at = {}
        Dp_at = {}
        mid = False                # between the two halves of a state-file rewrite of P, as R sees it
        mid_step = 0
        pn = 0                     # hills in P's state file; vn: in the state file that R can see
        vn = 0
        vn_at = {}
        inside = False             # (kept for the report) R has exchanged in such a window
        inside_at = {}
        for k, rec in enumerate(out):
            ev = rec["ev"]
            who = "p" if ev[0] in ("ps", "pr") else "r" if ev[0] in ("rs", "rr") else None
            if ev[0] in ("ps", "pr", "ph", "pb") and mid:
                toks.append("wa,%d" % mid_step)
                mid = False
                vn = pn
            if ev[0] == "pt":
                toks.append("sv,%d" % (0 if rec["state_partial"] else 1))
            if ev[0] == "pl":
                toks.append("lv,%d" % rec["lv"])
            if ev[0] == "pg":
                toks.append("rv,%d" % rec["rv"])
            if ev[0] in ("ps", "rs"):
                nt = (t[who] if t[who] is not None else 0) if first[who] else t[who] + 1
                rel0 = first[who]
                first[who] = False
                t[who] = nt
                if ((not rel0) or c.get("szd")) and nt % c["hillfreq"] == 0:
                    D[who].append((nt, ev[1]))
                    if who == "p":
                        toks.append("d,%d,%d" % (nt, ev[1]))
                if nt % c["upfreq"] == 0 and who == "r":
                    toks.append("s")
                    shared_at[k] = True
                    if mid:
                        inside = True
                if rfq[who] > 0 and (not rel0) and nt % rfq[who] == 0:
                    if who == "p":
                        pn = len(D["p"])
                    if who == "p" and len(ev) > 2 and ev[2] == "split":
                        toks.append("wb")
                        mid = True
                        mid_step = nt
                    else:
                        toks.append("w,%d" % nt if who == "p" else "o")
                        if who == "p":
                            vn = pn
                            # (a state file identical to the previous one is not shown again by the controller: what the
                            # reader sees of it stays what it was)
                            toks.append("sv,%d" % (0 if rec["state_partial"] else 1))
            elif ev[0] == "pr":
                # the controller presents the writer's files to the reader under fixed names: for the reader a restart of
                # the writer with a new output prefix is a restart under the same names (new names: direct mode)
                # (setup_output rewrites the list file and the registry record; what the reader sees of them is still what
                # the controller shows)
                toks += ["w,%d" % t["p"], "u,%d,0" % t["p"], "rv,%d" % rec["rv"], "lv,%d" % rec["lv"],
                         "sv,%d" % (0 if rec["state_partial"] else 1)]
                pn = vn = len(D["p"])
                first["p"] = True
            elif ev[0] == "rr":
                toks += ["o", "r"]
                first["r"] = True
            elif ev[0] == "ph":
                if reclen:
                    toks.append("v,%d" % ((rec["view_hills_bytes"] + 1) // reclen))
            if who == "r":
                qat[k] = sum(1 for x in toks if x == "q")
                toks.append("q")
            Dp_at[k] = list(D["p"])
            vn_at[k] = vn
            rec["Dr"] = list(D["r"])
            inside_at[k] = inside
            if bool(rec.get("mid")) != mid:
                raise V.InfraError("C14 view bookkeeping out of step with the controller at event %d of %s" % (k, c["id"]))
        mres = None
        if reclen:
            rc, mout, err = V.run_lines(model, ["META %s %s" % (fixflags, " ".join(toks))], timeout=600)
            if rc != 0 or len(mout) != 1:
                raise V.InfraError("C14 model driver failed: rc=%s %s" % (rc, err[-500:]))
            mres = parse_model_meta(mout[0])
        if not reclen:
            run.dist("view:no-complete-record")
        tie_ok = True
        for k, rec in enumerate(out):
            d = rec.get("r")
            if d is None:
                continue
            if d["own"] is None:
                run.violation("view:no-state", "the reader printed no state after event %d" % k, {"kind": "view", "case": c, "event": k})
                break
            if d["err"] not in (None, "ok"):
                run.dist("view:reader-raised-%s-error" % d["err"])
                if not c["robust"] and rec["ev"][0] == "rs":
                    # nothing is wrong in this stream except that the peer's hills file ends at an arbitrary byte
                    run.violation("view:partial-record-raises-error", "the reader's step in event %d raised an %s error (fatal in the MD engines) "
                                  "while all that is special is that it sees the first %d bytes of its peer's hills file (records of %s bytes): %s"
                                  % (k, d["err"], rec["view_hills_bytes"], reclen, d["errtext"].strip()[:160]),
                                  {"kind": "view", "case": c, "event": k})
                    break
            own, okint = scen.content(d["own"], d["owngrid"], NB)
            if not okint:
                run.dist("view:boundary-ambiguous")
                break
            if own != counts_of(rec["Dr"], NB):
                run.violation("view:own-hills-changed", "the reader's own bias after event %d %s holds hills in bins %s, it deposited %s (peer file "
                              "prefix of %d bytes)" % (k, rec["ev"], show(own), [b for (_, b) in rec["Dr"]], rec["view_hills_bytes"]),
                              {"kind": "view", "case": c, "event": k})
                break
            mir = d["mirrors"].get("w1")
            Dp = Dp_at[k]
            cont = None
            known_hole = False
            if mir is None and shared_at.get(k) and rec.get("files_ok", True) and rec.get("view_state_step") is not None and c["robust"]:
                run.violation("view:peer-ignored", "after its exchange in event %d the reader has no mirror of its peer although the registry, the list file "
                              "and the state file are complete" % k, {"kind": "view", "case": c, "event": k})
                break
            if mir is not None:
                cont, okint = scen.content(mir, mir.get("grid"), NB)
                if not okint:
                    run.dist("view:boundary-ambiguous")
                    break
                kpre = prefix_len(cont, Dp, NB)
                if kpre is None:
                    run.violation("view:mirror-not-a-prefix" + (":robust" if c["robust"] else "") +
                                  (":exchange-inside-state-rewrite" if known_hole else ""),
                                  "after event %d %s the reader holds for its peer hills in bins %s; the peer deposited, in order, %s; the reader saw "
                                  "the first %d bytes of the peer's hills file (records of %s bytes)" % (k, rec["ev"], show(cont), [b for (_, b) in Dp],
                                  rec["view_hills_bytes"], reclen), {"kind": "view", "case": c, "event": k})
                    break
                if shared_at.get(k) and reclen and rec.get("files_ok", True) and rec.get("view_state_step") is not None:
                    S = rec["view_state_step"]
                    n_state = vn_at[k]
                    n_file = (rec["view_hills_bytes"] + 1) // reclen
                    if kpre < n_state + n_file:
                        run.violation("view:visible-hills-missing" + (":exchange-inside-state-rewrite" if known_hole else ""), "after its exchange in event %d the reader holds %d hills of its peer (bins %s) although the "
                                      "state file (step %d, %d hills) and %d complete records (%d bytes) were visible" %
                                      (k, kpre, show(cont), S, n_state, n_file, rec["view_hills_bytes"]), {"kind": "view", "case": c, "event": k})
                        break
            if mres is not None and tie_ok:
                mq = mres[qat[k]] if qat.get(k) is not None and qat[k] < len(mres) else {"bad": 1}
                if "bad" in mq:
                    run.mismatch("view", {"case": c, "event": k}, "(no model answer)", mq)
                    tie_ok = False
                    continue
                mm = mq["mirror"]
                if (mir is None) != (mm is None):
                    run.mismatch("view:mirror-exists", {"case": c, "event": k}, mir is not None, mm is not None)
                    tie_ok = False
                    continue
                if mir is None:
                    continue
                ipos = int(mir["pos"])
                irec = 0 if ipos <= 0 else (ipos + 1) // reclen if reclen and (ipos + 1) % reclen == 0 else -1
                isum = {"sync": int(mir["in_sync"]), "S": int(mir["state_step"]), "pos": irec, "cont": show(cont)}
                msum = {"sync": mm["sync"], "S": mm["S"], "pos": mm["pos"], "cont": show(counts_of(mm["cont"], NB))}
                if not mq["ok"] and c.get("szd") and isum == msum:
                    run.dist("view:szd-zero-length-run-outside-premises")
                elif isum != msum or not mq["ok"]:
                    isum["pos_bytes"] = ipos
                    run.mismatch("view", {"case": c, "event": k, "bytes": rec["view_hills_bytes"]}, isum, dict(msum, trace_ok=mq["ok"]))
                    tie_ok = False


# ==========================================================================================
# shared eABF: CZAR gather
# ==========================================================================================

def gen_czar(r, cid, big=False):
    n = r.choice([2, 3, 4, 5, 6] if big else [2, 3, 4])
    nb = r.randint(3, 5)
    T = r.randint(4, 9)
    steps = [[(r.randint(0, nb - 1), r.choice([0.5, 0.25, 0.75]), V.dyadic(r, -4, 4)) for _ in range(n)] for _ in range(T)]
    gather_at = sorted(set([T - 1] + ([r.randint(1, T - 1)] if r.random() < 0.5 else [])))
    freq = r.choice([2, 3, 100])
    # script: no "shared on" in the configuration, the walkers call "cv bias a share" every freq steps (the gathers come after
    # the first call: before it the bias does not share at all)
    script = r.random() < 0.35
    if script:
        freq = r.choice([2, 3])
        gather_at = [t for t in gather_at if t >= freq - 1]
    # restarts of the whole job (every walker through its own state file, after the gather of that step if there is one)
    restart_at = {}
    if r.random() < 0.5:
        for _ in range(r.randint(1, 2)):
            restart_at[str(r.randint(1, T - 2))] = [r.choice(["text", "binary", "str", "buf"]) for _ in range(n)]
    return {"kind": "czar", "id": cid, "n": n, "nbins": nb, "freq": freq, "script": script, "freq2": (r.choice([2, 3, 5]) if restart_at and not script and r.random() < 0.5 else None), "hist": r.random() < 0.3, "twice": r.random() < 0.4, "restart_at": restart_at, "steps": steps, "gather_at": gather_at}


def check_czar(run, exe, model, cases, scratch):
    for c in cases:
        run.dist("czar:n=%d" % c["n"])
        run.count(json.dumps([c["steps"], c["gather_at"], c["freq"]]), True)
        run.sample({"kind": "czar", "n": c["n"], "nbins": c["nbins"], "freq": c["freq"], "gather_at": c["gather_at"], "steps": c["steps"][:3]}, cap=7)
        try:
            res, stats = run_twice(scen.run_czar, exe, c, scratch, timeout=15.0)
        except W.WalkerTimeout as e:
            run.violation("czar:gather-deadlock", "the walkers did not complete the collective CZAR gather (%s)" % str(e)[:200], {"kind": "czar", "case": c})
            continue
        run.dist("czar:script-enabled" if c.get("script") else "czar:shared-on")
        # restart of a walker = identity on everything it holds (SharedModel.w_restart), the z grids included
        rbad = False
        for (t, w_, fmt, b, a, msgs) in c.get("_restarts", []):
            run.dist("czar:restart")
            if not any(x.startswith("LOAD") and "err=ok" in x for x in msgs):
                run.violation("czar:own-state-refused", "eABF walker %d could not read the %s state it had just written after step %d: %s" % (w_, fmt, t, msgs),
                              {"kind": "czar", "case": c, "step": t})
                rbad = True
                break
            if a is None or b is None:
                run.violation("czar:no-state", "walker %d printed no state around its restart after step %d" % (w_, t), {"kind": "czar", "case": c})
                rbad = True
                break
            def norm(d, f_):
                v = d.get(f_)
                return v if v is not None else [0] * len(d["cnt" if f_ == "ocnt" else "sum"])
            diff = [f_ for f_ in ("cnt", "lcnt", "ocnt", "zcnt") if norm(a, f_) != norm(b, f_)] + \
                   [f_ for f_ in ("sum", "lsum", "osum", "zsum") if any(not close(x, y, False) for x, y in zip(norm(a, f_), norm(b, f_)))]
            if diff and c.get("script") and diff == [f_ for f_ in diff if f_ in ("lcnt", "lsum")] and b.get("shared_on") == 0:
                diff = []     # sharing not enabled yet: the snapshot grids are not in use (and not saved)
            if diff:
                run.violation("czar:restart-changes-grids", "eABF walker %d, restart through a %s state after step %d: %s differ(s): before %s, after %s"
                              % (w_, fmt, t, diff, {f_: b.get(f_) for f_ in diff}, {f_: a.get(f_) for f_ in diff}), {"kind": "czar", "case": c, "step": t})
                rbad = True
                break
        if rbad:
            continue
        lines = []
        wrapped = [(t, w_, k_) for (t, dumps, pr, before) in res for w_, d in enumerate(list(dumps) + list(before)) if d
                   for k_ in ("cnt", "lcnt", "ocnt", "zcnt", "gzcnt") if d.get(k_) and any(x >= 2 ** 62 for x in d[k_])]
        if wrapped:
            t, w_, k_ = wrapped[0]
            run.violation("czar:count-wrapped-around", "eABF walkers: at the gather of step %d a count grid (%s) of walker %d holds a value >= 2^62: an unsigned "
                          "count was decremented below zero (a snapshot that is not what it should be was subtracted from the counts)" % (t, k_, w_ % c["n"]),
                          {"kind": "czar", "case": c, "step": t})
            continue
        for (t, dumps, pr, before) in res:
            if any(d is None or d.get("zcnt") is None for d in dumps):
                run.violation("czar:no-state", "a walker printed no CZAR state after the gather at step %d" % t, {"kind": "czar", "case": c})
                lines = None
                break
            lines.append("CZAR %d %d %s %s" % (c["n"], len(dumps[0]["zcnt"]), ";".join(",".join(str(x) for x in d["zcnt"]) for d in dumps),
                                                ";".join(",".join(V.hexf(x) for x in d["zsum"]) for d in dumps)))
        if not lines:
            continue
        rc, mout, err = V.run_lines(model, lines, timeout=300)
        if rc != 0 or len(mout) != len(lines):
            raise V.InfraError("C14 model driver failed: rc=%s %s" % (rc, err[-500:]))
        # the gather as an operation of the model (czar_gather_step): what every walker held before -> what it must hold after
        glines = []
        def gfmt(d):
            return ";".join([",".join(str(x) for x in d[k_]) for k_ in ("cnt", "lcnt", "ocnt", "zcnt")] +
                            [",".join(V.hexf(x) for x in d[k_]) for k_ in ("sum", "lsum", "osum", "zsum")])
        if any(d is None or d.get(k_) is None for (t, dumps, pr, before) in res for d in before for k_ in ("cnt", "lcnt", "ocnt", "zcnt")):
            run.dist("czar:gather-before-sharing-was-enabled")      # (script mode: nothing to gather yet; not generated on purpose)
            continue
        for (t, dumps, pr, before) in res:
            glines.append("GATHER %d %d %d %s" % (c["n"], len(before[0]["cnt"]), len(before[0]["sum"]), " ".join(gfmt(d) for d in before)))
        rc, gout, err = V.run_lines(model, glines, timeout=300)
        if rc != 0 or len(gout) != len(glines):
            raise V.InfraError("C14 model driver failed: rc=%s %s" % (rc, err[-500:]))
        frame_bad = False
        for (t, dumps, pr, before), go in zip(res, gout):
            tk = go.split()
            for w_, (d, mw) in enumerate(zip(dumps, tk[1:1 + c["n"]])):
                fields = ("cnt", "lcnt", "ocnt", "zcnt", "sum", "lsum", "osum", "zsum")
                mvals = [[(float.fromhex(x) if f_.endswith("sum") else int(x)) for x in part.split(",")] for f_, part in zip(fields, mw.split(";"))]
                diff = [f_ for f_, mv in zip(fields, mvals) if list(d[f_]) != mv]
                if diff:
                    run.mismatch("czar:frame", {"case": c, "step": t, "walker": w_, "fields": diff},
                                 {f_: d[f_] for f_ in diff}, "czar_gather_step leaves these grids as they were: %s" % {f_: before[w_][f_] for f_ in diff})
                    run.violation("czar:gather-changes-other-grids", "the CZAR gather at step %d (write_output_files between two exchanges) changed %s of walker %d: "
                                  "before %s, after %s" % (t, diff, w_, {f_: before[w_][f_] for f_ in diff}, {f_: d[f_] for f_ in diff}),
                                  {"kind": "czar", "case": c, "step": t})
                    frame_bad = True
                    break
            if frame_bad:
                break
        if frame_bad:
            continue
        for (t, dumps, pr, before), mo in zip(res, mout):
            g = dumps[0]
            # oracle on the implementation alone: replica 0's gathered grids = sum of every walker's z grids, each once
            ecnt = [sum(d["zcnt"][i] for d in dumps) for i in range(len(g["zcnt"]))]
            esum = list(dumps[0]["zsum"])
            for d in dumps[1:]:
                esum = [a + b for a, b in zip(esum, d["zsum"])]
            if g["gzcnt"] != ecnt or any(not close(a, b, False) for a, b in zip(g["gzsum"], esum)):
                run.violation("czar:gather-not-the-sum", "after the gather at step %d replica 0 holds z counts %s, the walkers' z counts are %s (sum %s)"
                              % (t, g["gzcnt"], [d["zcnt"] for d in dumps], ecnt), {"kind": "czar", "case": c, "step": t})
                break
            # shared eABF end to end: the samples are binned on the extended coordinate, whose trajectory python does not
            # know; but every walker's snapshot of the last exchange must be the sum of all walkers' local grids
            # (each walker's own exchanged samples), and global = snapshot + what the walker collected since
            lc = [sum(d["ocnt"][i] for d in dumps) for i in range(len(g["ocnt"]))]
            ls = [sum(d["osum"][i] for d in dumps) for i in range(len(g["osum"]))]
            badw = [w_ for w_, d in enumerate(dumps) if d["lcnt"] != lc or any(not close(a, b, False) for a, b in zip(d["lsum"], ls))
                    or any(x < y for x, y in zip(d["cnt"], d["lcnt"]))]
            if badw and (c["freq"] < 100 or c.get("freq2")):
                run.violation("czar:snapshot-not-the-sum-of-locals", "eABF walkers, gather at step %d: snapshot counts of walker %d are %s, the local counts of "
                              "all walkers are %s (sum %s)" % (t, badw[0], dumps[badw[0]]["lcnt"], [d["ocnt"] for d in dumps], lc), {"kind": "czar", "case": c, "step": t})
                break
            run.dist("czar:z-gradient-nonzero" if any(x != 0.0 for d in dumps for x in d["zsum"]) else "czar:z-gradient-zero")
            tk = mo.split()
            mc = [int(x) for x in tk[1][4:].split(",")]
            ms = [float.fromhex(x) for x in tk[2][4:].split(",")]
            if mc != g["gzcnt"] or any(not close(a, b, False) for a, b in zip(ms, g["gzsum"])):
                run.mismatch("czar", {"case": c, "step": t}, {"gzcnt": g["gzcnt"], "gzsum": g["gzsum"]}, {"cnt": mc, "sum": ms})
                break


# ==========================================================================================
# OPES with multiple walkers
# ==========================================================================================

def gen_opes(r, cid, big=False):
    n = r.choice([2, 3, 4, 5, 6] if big else [2, 3, 4])
    pace = r.choice([1, 2, 3, 5])
    T = r.randint(3, 9) + (4 if pace == 5 else 0)
    S0 = r.choice([0, 0, 2 ** 31 - 1, 2 ** 32 + 3, 2 ** 53 - 2, 2 ** 62 - 30])
    steps = [[V.dyadic(r, -8, 8, bits=4) for _ in range(n)] for _ in range(T)]
    variant = r.choice(["plain", "plain", "compress", "nlist", "adaptive", "long", "explore"])
    if variant == "long":
        # so many kernels that the normalisation is updated from the new kernels only (the other branch of update_opes)
        pace = 1
        steps = [[V.dyadic(r, -8, 8, bits=4) for _ in range(n)] for _ in range(max(6, 30 // n) + r.randint(0, 3))]
    elif variant != "plain":
        # close positions, so that kernels are merged / neighbour lists differ / the adaptive width matters
        steps = [[V.dyadic(r, -1, 1, bits=4) for _ in range(n)] for _ in range(T + 4)]
    return {"kind": "opes", "id": cid, "n": n, "pace": pace, "variant": variant, "step0": S0, "nlreset": r.random() < 0.5, "smp": r.random() < 0.4, "steps": steps}


def check_opes(run, exe, model, cases, scratch):
    for c in cases:
        run.dist("opes:n=%d" % c["n"])
        run.count(json.dumps([c["steps"], c["pace"]]), True)
        run.sample({"kind": "opes", "n": c["n"], "pace": c["pace"], "steps": c["steps"][:3]}, cap=8)
        try:
            res, stats = run_twice(scen.run_opes, exe, c, scratch, timeout=15.0)
        except W.WalkerTimeout as e:
            run.violation("opes:gather-deadlock", "the walkers did not complete the schedule (%s)" % str(e)[:200], {"kind": "opes", "case": c})
            continue
        par = [x for s_ in stats for x in s_ if "parallel=" in x and "parallel=0" not in x]
        if par:
            run.violation("opes:replica-calls-in-parallel-bias-loop", "OPES with multiple walkers and the engine's thread pool on (a second bias defined): the "
                          "exchange of kernels and weights ran inside the parallel loop over the biases: %s" % par[:2], {"kind": "opes", "case": c})
            continue
        rounds = []
        for t, row in enumerate(c["steps"]):
            if t > 0 and (c.get("step0", 0) + t) % c["pace"] == 0:
                rounds.append([V.hexf(x) for x in row])
            dumps = res[t]
            if any(d is None for d in dumps):
                run.violation("opes:no-state", "a walker printed no OPES state at step %d" % t, {"kind": "opes", "case": c})
                break
            # oracle on the implementation alone: every walker holds the same kernels (bit for bit) and their centres are
            # what the walkers were fed at the deposition steps, in rank order
            if any(d["kernels"] != dumps[0]["kernels"] for d in dumps[1:]):
                run.violation("opes:walkers-differ", "at step %d the walkers hold different kernel lists: %s" %
                              (t, [[k[1] for k in d["kernels"]] for d in dumps]), {"kind": "opes", "case": c, "step": t})
                break
            # the normalisation: bit-identical on all walkers (sum of weights, of squared weights, neff, rct, zed, kernel norm, counter)
            norm = [tuple(d.get(x) for x in ("sumw", "sumw2", "neff", "rct", "zed", "kdenorm", "counter")) for d in dumps]
            if any(x != norm[0] for x in norm[1:]):
                run.violation("opes:normalisation-differs", "at step %d the walkers hold different normalisations (sumw, sumw2, neff, rct, zed, kdenorm, counter): %s"
                              % (t, norm), {"kind": "opes", "case": c, "step": t})
                break
            run.dist("opes:%s" % c.get("variant", "plain")) if t == 0 else None
            if c.get("variant", "plain") not in ("plain", "long"):
                # kernel compression, neighbour lists, adaptive width: what every walker holds is a function of the same
                # gathered data, so it must still be the same bit for bit (checked above); the rest needs the plain kernels
                continue
            exp = [x for rd in rounds for x in rd]
            got = [V.hexf(float.fromhex(k[1])) for k in dumps[0]["kernels"]]
            if got != exp:
                run.violation("opes:kernels-not-the-contributions", "at step %d the kernel centres are %s, the walkers were fed %s at the deposition steps (rank order)"
                              % (t, got, exp), {"kind": "opes", "case": c, "step": t})
                break
            if t == 0:
                base = dumps[0]
                hrounds = []
            if t > 0 and (c.get("step0", 0) + t) % c["pace"] == 0:
                nk = len(dumps[0]["kernels"])
                hrounds.append([k[0] for k in dumps[0]["kernels"][nk - c["n"]:]])
                # oracle on the implementation alone: the sum of weights is the initial value plus the weight of every
                # kernel of every walker, each once (weights = kernel heights: fixedGaussianSigma, compression off)
                sw = float.fromhex(base["sumw"])
                for r_ in hrounds:
                    acc = float.fromhex(r_[0])
                    for h_ in r_[1:]:
                        acc += float.fromhex(h_)
                    sw += acc
                if not close(sw, float.fromhex(dumps[0]["sumw"]), False):
                    run.violation("opes:sum-of-weights-not-the-contributions", "at step %d the walkers' sum of weights is %r; the initial value plus the "
                                  "weights of all kernels of all walkers is %r (rounds %s)" % (t, float.fromhex(dumps[0]["sumw"]), sw, hrounds),
                                  {"kind": "opes", "case": c, "step": t})
                    break
                rc, mo2, err = V.run_lines(model, ["OPESSUM %s %s %d %s %s" % (base["sumw"], base["sumw2"], base["counter"], base["kbt"],
                                                   ";".join(",".join(r_) for r_ in hrounds))], timeout=60)
                if rc != 0 or len(mo2) != 1:
                    raise V.InfraError("C14 model driver failed: rc=%s %s" % (rc, err[-500:]))
                last = mo2[0].split()[1].split(";")[-1].split(",")
                got_n = (dumps[0]["sumw"], dumps[0]["sumw2"], str(dumps[0]["counter"]), dumps[0]["neff"], dumps[0]["rct"])
                okn = all((a == b) if i == 2 else close(float.fromhex(a), float.fromhex(b), False) for i, (a, b) in enumerate(zip(got_n, last)))
                if not okn:
                    run.mismatch("opes:sums", {"case": c, "step": t}, got_n, last)
                    break
            rc, mout, err = V.run_lines(model, ["OPES %d %s" % (c["n"], ";".join(",".join(rd) for rd in rounds))], timeout=60)
            if rc != 0 or len(mout) != 1:
                raise V.InfraError("C14 model driver failed: rc=%s %s" % (rc, err[-500:]))
            mlists = [[] if x == "-" else x.split(",") for x in mout[0].split()[1].split(";")]
            if any(ml != [V.hexf(float.fromhex(k[1])) for k in d["kernels"]] for ml, d in zip(mlists, dumps)) or len(mlists) != len(dumps):
                run.mismatch("opes", {"case": c, "step": t}, [[k[1] for k in d["kernels"]] for d in dumps], mlists)
                break


# ==========================================================================================
# shared ABF walkers whose grids differ in size: must be refused, not combined
# ==========================================================================================

def check_different_grids(run, exe, scratch):
    for (nb0, nb1) in ((4, 5), (5, 4)):
        dirs = []
        for i in range(2):
            d = os.path.join(scratch, "dg%d" % i)
            if os.path.exists(d):
                import shutil as _sh
                _sh.rmtree(d, ignore_errors=True)
            os.makedirs(d)
            dirs.append(d)
        run.count("different-grids:%d/%d" % (nb0, nb1), True)
        run.dist("abf:different-grids")
        try:
            with W.Team(exe, 2, dirs, timeout_ms=3000) as T:
                T.all_do(lambda i: scen.abf_setup({"nd": 1, "nbins": [nb0 if i == 0 else nb1], "freq": 2}), 20)
                res = None
                for t in range(3):
                    res = T.all_do(lambda i: ["pos 1 0 0 %s" % float(0.5 + t).hex(), "eforce 1 0 0 0x1p+0", "step", "errtext", "dumpshared a"], 30)
                errs = [[x for x in r if x.startswith("STEP")][0] for r in res]
                d0 = scen.parse_shared(res[0])
        except W.WalkerTimeout as e:
            run.violation("abf:different-grids-hang", "two shared-ABF walkers with %d and %d bins: a walker stopped answering at the exchange (%s)" % (nb0, nb1, str(e)[:120]),
                          {"kind": "different-grids", "nbins": [nb0, nb1]})
            continue
        # the exchange of step 2 must fail with an error on at least one side, and replica 0 must not have combined anything:
        # its counts are its own two samples (steps 1 and 2)
        if all("err=ok" in e for e in errs) or sum(d0["cnt"]) != 2:
            run.violation("abf:different-grids-combined", "two shared-ABF walkers with %d and %d bins exchanged at step 2 without an error (%s) or replica 0 "
                          "combined data of a different grid (its counts %s; it sampled twice)" % (nb0, nb1, errs, d0["cnt"]),
                          {"kind": "different-grids", "nbins": [nb0, nb1]})


# ==========================================================================================
# data read through inputPrefix is what every walker starts from: it is in the union once
# ==========================================================================================

def check_input_prefix(run, exe, scratch):
    import shutil as _sh
    for mode, n in (("shared", 2), ("script", 2), ("script", 3)):
        run.count("input-prefix:%s:%d" % (mode, n), True)
        run.dist("abf:input-prefix")
        dirs = []
        for i in range(n):
            d = os.path.join(scratch, "ip%d" % i)
            _sh.rmtree(d, ignore_errors=True)
            os.makedirs(d)
            dirs.append(d)
        case = {"nd": 1, "nbins": [3], "freq": 2, "n": n, "output": True}
        try:
            with W.Team(exe, n, dirs, timeout_ms=3000) as T:
                T.all_do(lambda i: scen.abf_setup(case), 20)
                for t in range(5):
                    T.all_do(lambda i: scen.step_lines(case, [i % 2], [1.0]), 20)
                d0 = scen.parse_shared(T.all_do(["postrun", "dumpshared a"], 20)[0])
            inp = list(d0["cnt"])           # what out.all.count holds: the global counts of replica 0 at the end of the first job
            case2 = dict(case, script=(mode == "script"), freq=(0 if mode == "script" else 2), output=False)

            def setup2(i):
                L = scen.abf_setup(case2)
                k = L.index("  name a")
                L.insert(k + 1, "  inputPrefix %s/out.all" % dirs[0])
                return L
            with W.Team(exe, n, dirs, timeout_ms=3000) as T:
                T.all_do(setup2, 20)
                for t in range(3):
                    res = T.all_do(lambda i: scen.step_lines(case2, [2], [1.0]), 20)
                if mode == "script":
                    res = T.all_do(["script cv bias a share", "dumpshared a"], 20)
                dumps = [scen.parse_shared(r) for r in res]
        except W.WalkerTimeout as e:
            run.violation("abf:input-prefix-hang", "walkers with inputPrefix stopped answering (%s)" % str(e)[:120], {"kind": "input-prefix", "mode": mode})
            continue
        # steps 1 and 2 of the second job are sampled (bin 2) before the exchange of step 2 (shared on: the sample of step 2 comes
        # after the exchange and is in the global grid only)
        new = 2 * n if mode == "script" else n
        exp = [inp[0], inp[1], inp[2] + new]
        got = [d["lcnt"] for d in dumps]
        if any(g != exp for g in got):
            run.violation("abf:input-data-not-once", "%d walkers read the same counts %s through inputPrefix (sharing enabled by %s) and sampled bin 2: after the "
                          "first exchange the combined counts are %s, the input once plus every new sample once is %s" %
                          (n, inp, "the configuration" if mode == "shared" else "a script", got, exp), {"kind": "input-prefix", "mode": mode, "n": n})


# ==========================================================================================
# two shared ABF biases on one variable (their rounds share the channels), then one is deleted
# ==========================================================================================

def check_two_biases(run, exe, scratch):
    import shutil as _sh
    nb = 3
    for n, named in ((3, True), (2, False)):
        run.count("two-biases:%d:%s" % (n, named), True)
        run.dist("abf:two-biases")
        dirs = []
        for i in range(n):
            d = os.path.join(scratch, "tb%d" % i)
            _sh.rmtree(d, ignore_errors=True)
            os.makedirs(d)
            dirs.append(d)
        # without names the biases are called abf1 and abf2
        na, nbn = ("a", "b") if named else ("abf1", "abf2")
        conf = scen.abf_conf({"nd": 1, "nbins": [nb], "freq": 2})
        k = conf.index("abf {")
        first = [x for x in conf[k:] if named or not x.strip().startswith("name ")]
        second = [("  name b" if x.strip() == "name a" else "  sharedFreq 3" if x.strip().startswith("sharedFreq") else x) for x in conf[k:]]
        second = [x for x in second if named or not x.strip().startswith("name ")]
        setup = ["natoms 1", "samestep 1", "includecv 1", "new", "config EOF"] + conf[:k] + first + second + ["EOF", "show cv 0 energy 0 bias 0 atomf 0"]

        def union(t_last):
            c = [0] * nb
            for w in range(n):
                for t in range(1, t_last + 1):
                    c[(w + t) % nb] += 1
            return c
        try:
            with W.Team(exe, n, dirs, timeout_ms=3000) as T:
                r0 = T.all_do(setup, 20)
                if not all(any("CONFIG err=ok" in x and "nbias=2" in x for x in r) for r in r0):
                    raise W.WalkerTimeout("configuration failed: %s" % r0[0])
                seen = {}
                for t in range(13):
                    T.all_do(lambda i: ["pos 1 0 0 %s" % float((i + t) % nb + 0.5).hex(), "eforce 1 0 0 0x1p+0", "step"], 20)
                    if t == 6:
                        seen["b6"] = [scen.parse_shared(r) for r in T.all_do(["dumpshared %s" % nbn], 20)]
                        seen["a6"] = [scen.parse_shared(r) for r in T.all_do(["dumpshared %s" % na], 20)]
                    if t == 7:
                        seen["del"] = T.all_do(["script cv bias %s delete" % nbn], 20)
                seen["a12"] = [scen.parse_shared(r) for r in T.all_do(["dumpshared %s" % na], 20)]
                stats = T.all_do(["repstat"], 20)
        except W.WalkerTimeout as e:
            run.violation("abf:two-biases-hang", "two shared ABF biases on one variable (%d walkers): a walker stopped answering (%s)" % (n, str(e)[:160]),
                          {"kind": "two-biases", "n": n, "named": named})
            continue
        bad = []
        for key, t_last in (("b6", 5), ("a6", 5), ("a12", 11)):
            for w, d in enumerate(seen[key]):
                if d is None or d["lcnt"] != union(t_last):
                    bad.append((key, w, d and d["lcnt"], union(t_last)))
        if bad or not all(any("errors=0" in x for x in s_) for s_ in stats):
            run.violation("abf:two-biases-mixed-up", "two shared ABF biases (%s every 2 steps, %s every 3, the second deleted after step 7) on %d walkers: snapshot counts "
                          "(bias at step, walker, found, union of what was fed) %s; %s" % (na, nbn, n, bad[:3], [x for s_ in stats for x in s_][:2]),
                          {"kind": "two-biases", "n": n, "named": named})


# ==========================================================================================
# an exchange round that a dying walker interrupts, at every point of the round
# ==========================================================================================

def gen_death(r, cid, big=False):
    n = r.choice([2, 3, 3, 4] + ([5, 6] if big else []))
    nb = r.randint(2, 4)
    F = r.choice([1, 2, 3])
    T = F * r.randint(1, 3)
    victim = r.randrange(n)
    # replica calls of a walker in one round: replica 0 receives n-1 times, sends n-1 times, barrier; the others send, receive, barrier
    ncalls = 2 * (n - 1) + 1 if victim == 0 else 3
    steps = [[(r.randint(0, nb - 1), V.dyadic(r, -8, 8)) for _ in range(n)] for _ in range(T + 1)]
    return {"kind": "death", "id": cid, "n": n, "nd": 1, "nbins": [nb], "freq": F, "T": T, "victim": victim,
            "die_after": r.randrange(ncalls), "integrate": r.random() < 0.5, "steps": steps}


def check_death(run, exe, model, cases, scratch):
    for c in cases:
        n, F, T, nb = c["n"], c["freq"], c["T"], c["nbins"][0]
        run.dist("death:n=%d" % n)
        run.dist("death:victim=%s" % ("replica0" if c["victim"] == 0 else "other"))
        run.count(json.dumps([c["steps"], F, c["victim"], c["die_after"]]), True)
        run.sample({"kind": "death", "n": n, "freq": F, "T": T, "victim": c["victim"], "die_after": c["die_after"]}, cap=6)
        try:
            before, after = run_twice(scen.run_death, exe, c, scratch, timeout=15.0)
        except W.WalkerTimeout as e:
            run.violation("death:survivor-hangs-or-dies", "shared ABF, walker %d dies at its replica call %d of the round of step %d: a surviving walker "
                          "did not return from the step (%s)" % (c["victim"], c["die_after"], T, str(e)[:160]), {"kind": "death", "case": c})
            continue
        if any(d is None for (_, d) in after.values()):
            run.violation("death:no-state", "a surviving walker printed no state after the interrupted round", {"kind": "death", "case": c})
            continue
        oc = "".join("C" if (w in after and after[w][1]["last_step"] == T) else "A" for w in range(n))
        run.dist("death:outcome=%s" % ("all-aborted" if "C" not in oc else "all-survivors-committed" if all(oc[w] == "C" for w in after) else "mixed"))
        # oracle on the implementation alone (1): what a survivor sampled itself is what its grids give back
        bad = None
        for w, (stl, d) in sorted(after.items()):
            cnt = [0] * nb
            sm = [0.0] * nb
            for t in range(1, T + 1):
                b_, f_ = c["steps"][t][w]
                cnt[b_] += 1
                sm[b_] += -f_
            own_c = [o + (g - l) for o, g, l in zip(d["ocnt"], d["cnt"], d["lcnt"])]
            own_s = [o + (g - l) for o, g, l in zip(d["osum"], d["sum"], d["lsum"])]
            if own_c != cnt or any(not close(a, b, True) for a, b in zip(own_s, sm)):
                bad = (w, own_c, cnt, own_s, sm)
                break
        if bad:
            run.violation("death:own-data-corrupted", "shared ABF, %d walkers, walker %d dies at its replica call %d of the round of step %d: walker %d's own "
                          "samples (local + global - snapshot) read %s, it sampled %s (outcomes %s)" % (n, c["victim"], c["die_after"], T, bad[0], bad[1], bad[2], oc),
                          {"kind": "death", "case": c, "walker": bad[0]})
            continue
        # (2) nobody can have completed the round unless replica 0 did (or died trying to tell the others)
        if 0 in after and oc[0] == "A" and "C" in oc:
            run.violation("death:round-completed-without-replica-0", "outcomes %s: a walker completed a round that replica 0 gave up" % oc, {"kind": "death", "case": c})
            continue
        # tie: the model's exchange_partial with the outcomes the walkers report
        tokens = []
        for t in range(T):
            if t > 0 and t % F == 0:
                tokens += ["a,%d" % w for w in range(n)] + ["x,%d" % t]
            if t >= 1:
                tokens += ["s,%d,%d,%s" % (w, c["steps"][t][w][0], V.hexf(c["steps"][t][w][1])) for w in range(n)]
        tokens.append("p,%d,%s" % (T, oc))
        tokens += ["s,%d,%d,%s" % (w, c["steps"][T][w][0], V.hexf(c["steps"][T][w][1])) for w in sorted(after)]
        tokens += ["q,%d" % w for w in sorted(after)]
        rc, mout, err = V.run_lines(model, ["ABF 0 %d %d 1 %d %s" % (n, nb, F, " ".join(tokens))], timeout=60)
        if rc != 0 or len(mout) != 1:
            raise V.InfraError("C14 model driver failed: rc=%s %s" % (rc, err[-500:]))
        mres = parse_model_abf(mout[0])
        for m, w in zip(mres, sorted(after)):
            d = dict(after[w][1])
            if "cnt" not in m:
                run.mismatch("death", {"case": c, "walker": w}, d, m)
                break
            k_ = same_abf(d, m, True)
            if k_ is not None:
                run.mismatch("death", {"case": c, "walker": w, "field": k_, "outcomes": oc}, {x: d[x] for x in ("cnt", "sum", "lcnt", "lsum", "ocnt", "osum", "last_step")}, m)
                break


def gen_odeath(r, cid, big=False):
    n = r.choice([2, 3, 3, 4])
    pace = r.choice([1, 2, 3])
    T = pace * r.randint(1, 2)
    variant = r.choice(["plain", "plain", "nlist", "adaptive"])
    steps = [[V.dyadic(r, -2, 2, bits=4) for _ in range(n)] for _ in range(T + 1)]
    return {"kind": "odeath", "id": cid, "n": n, "pace": pace, "variant": variant, "T": T, "victim": r.randrange(n),
            "die_after": r.randrange(14), "steps": steps}


def check_odeath(run, exe, model, cases, scratch):
    keys = ("sumw", "sumw2", "neff", "rct", "zed", "kdenorm", "counter")
    for c in cases:
        n, T = c["n"], c["T"]
        run.dist("opes-death:n=%d" % n)
        run.count(json.dumps([c["steps"], c["pace"], c["victim"], c["die_after"], c["variant"]]), True)
        try:
            before, after = run_twice(scen.run_odeath, exe, c, scratch, timeout=15.0)
        except W.WalkerTimeout as e:
            run.violation("opes-death:survivor-hangs-or-dies", "OPES, walker %d dies at its replica call %d of the round of step %d: a surviving walker did "
                          "not return from the step (%s)" % (c["victim"], c["die_after"], T, str(e)[:160]), {"kind": "odeath", "case": c})
            continue
        if any(d is None for d in before) or any(d is None for (_, d) in after.values()):
            run.violation("opes-death:no-state", "a walker printed no OPES state around the interrupted round", {"kind": "odeath", "case": c})
            continue
        for w, (stl, d) in sorted(after.items()):
            b = before[w]
            same = d["kernels"] == b["kernels"] and all(d.get(k_) == b.get(k_) for k_ in keys)
            full = c["variant"] == "plain" and len(d["kernels"]) == len(b["kernels"]) + n and d["counter"] == b["counter"] + n
            moved = len(d["kernels"]) > len(b["kernels"]) and d["counter"] == b["counter"] + n      # (compression may merge kernels)
            run.dist("opes-death:%s" % ("aborted" if same else "completed" if (full or moved) else "half"))
            if not (same or full or moved):
                run.violation("opes-death:half-completed-round", "OPES, %d walkers (%s), walker %d dies at its replica call %d of the round of step %d: walker %d "
                              "is neither as before the step nor after a complete round: kernels %d -> %d, counter %s -> %s, sum of weights %s -> %s"
                              % (n, c["variant"], c["victim"], c["die_after"], T, w, len(b["kernels"]), len(d["kernels"]), b["counter"], d["counter"],
                                 b["sumw"], d["sumw"]), {"kind": "odeath", "case": c, "walker": w})
                break


# ==========================================================================================
# configurations outside the premises of the models: they must be refused, not run
# ==========================================================================================

def check_rejected_configs(run, exe, scratch):
    """The models assume: every walker has a name, a registry, a positive exchange frequency, a grid fixed ahead of time
    (no expandBoundaries) and projects its hills (no keepHills); shared ABF has no UI estimator and outputs at multiples of
    the exchange frequency.  init_replicas_params() / colvarbias_abf::init() refuse everything else."""
    d = os.path.join(scratch, "rej")
    import shutil as _sh
    _sh.rmtree(d, ignore_errors=True)
    os.makedirs(d)
    base = {"nbins": 8, "hillfreq": 1, "upfreq": 1}
    reg = os.path.join(d, "registry.txt")

    def meta(drop=None, add=()):
        L = [x for x in scen.meta_conf(base, "w0", reg) if not (drop and x.strip().startswith(drop))]
        return L[:-1] + list(add) + ["}"]

    def abf(add):
        L = scen.abf_conf({"nd": 1, "nbins": [3], "freq": 2})
        return L[:-1] + list(add) + ["}"]
    cases = [
        ("meta:no-replicaID-and-no-replica-interface", meta(drop="replicaID")),
        ("meta:no-registry", meta(drop="replicasRegistry")),
        ("meta:replicaUpdateFrequency-0", meta(drop="replicaUpdateFrequency", add=["  replicaUpdateFrequency 0"])),
        ("meta:keepHills", meta(add=["  keepHills on"])),
        ("abf:outputFreq-not-a-multiple-of-sharedFreq", ["colvarsTrajFrequency 0"] + abf(["  outputFreq 3"])),
    ]
    # "cv bias a share" on a walker whose engine has no replica interface: an error, nothing else
    run.count("rejected-config:script-share-without-replicas", True)
    run.dist("rejected-config")
    rc, out, err = V.run_lines(exe, ["natoms 1", "new", "config EOF"] + scen.abf_conf({"nd": 1, "nbins": [3], "freq": 0, "script": True}) +
                               ["EOF", "pos 1 0 0 0x1p-1", "step", "script cv bias a share", "dumpshared a"], timeout=60, cwd=d)
    sl = [x for x in out if x.startswith("SCRIPT")]
    dm = scen.parse_shared(out)
    if rc != 0 or not sl or "err=ok" in sl[0] or dm is None or dm.get("shared_on") != 0:
        run.violation("config:share-without-replicas", "\"cv bias a share\" without a replica interface: rc=%s, %s, shared_on=%s (expected: an error, "
                      "and sharing stays off)" % (rc, sl, dm and dm.get("shared_on")), {"kind": "rejected-config", "name": "script-share-without-replicas"})
    for name, conf in cases:
        run.count("rejected-config:" + name, True)
        run.dist("rejected-config")
        rc, out, err = V.run_lines(exe, ["natoms 1", "new", "config EOF"] + conf + ["EOF", "errtext"], timeout=60, cwd=d)
        cl = [x for x in out if x.startswith("CONFIG")]
        if rc != 0 or not cl:
            run.violation("config:walker-crashed", "configuration %s: the walker ended with rc=%s, output %s" % (name, rc, out[-3:]),
                          {"kind": "rejected-config", "name": name, "conf": conf})
        elif "err=ok" in cl[0] and "nbias=1" in cl[0]:
            run.violation("config:accepted-outside-the-premises", "configuration %s was accepted (%s): the models of C14 do not describe what such "
                          "walkers do" % (name, cl[0]), {"kind": "rejected-config", "name": name, "conf": conf})


# ==========================================================================================
# the order of the two halves of write_state_to_replicas, as the operating system sees it
# ==========================================================================================

def check_rewrite_order(run, exe, scratch):
    """The model (ev_ok proto) and the view-mode stream present a state-file rewrite as: hills file removed and
    created again, THEN state file renamed into place.  Which order the code uses cannot be seen from the files
    after the step; it is read off the system calls of a walker (strace)."""
    import shutil as _sh
    if not _sh.which("strace"):
        run.dist("order:strace-not-available")
        return
    d = os.path.join(scratch, "order")
    _sh.rmtree(d, ignore_errors=True)
    os.makedirs(d)
    case = {"nbins": NB, "hillfreq": 1, "upfreq": 1}
    L = scen.meta_setup(case, "w0", os.path.join(d, "registry.txt"), "out0", 3)
    for b in range(2, 9):
        L += ["pos 1 0 0 %s" % float(b + 0.5).hex(), "step"]
    L += ["postrun", "quit"]
    open(os.path.join(d, "in.scn"), "w").write("\n".join(L) + "\n")
    rc, o, e = V.sh(["strace", "-f", "-o", "trace.txt", "-e", "trace=rename,renameat,renameat2,unlink,unlinkat", exe, "in.scn"], cwd=d, timeout=120)
    try:
        lines = open(os.path.join(d, "trace.txt")).read().split("\n")
    except OSError:
        run.dist("order:strace-failed")
        return
    seq = []
    for ln in lines:
        if "unlink" in ln and ".hills" in ln and "= 0" in ln:
            seq.append("B")
        elif "rename" in ln and ".state.tmp" in ln and "w0.state" in ln and "= 0" in ln:
            seq.append("A")
    run.count("order:" + "".join(seq), True)
    run.dist("order:checked")
    run.sample({"kind": "order", "syscalls": "".join(seq), "meaning": "B = hills file unlinked, A = state file renamed into place"}, cap=9)
    # setup_output: B A ; every write_state_to_replicas after that must be B A as well
    pairs = ["".join(seq[i:i + 2]) for i in range(0, len(seq) - 1, 2)]
    if len(seq) < 4 or len(seq) % 2 or any(p != "BA" for p in pairs):
        run.violation("meta:state-rewrite-order", "a walker writing its state every 3 steps performed the removals of its hills file (B) and the "
                      "renamings of its state file (A) in the order %s; the model, and a reader that exchanges in between, need B before A "
                      "every time (C14_meta_prefix_old_order_refuted shows what is lost otherwise)" % "".join(seq),
                      {"kind": "order", "scenario": L, "syscalls": seq})


# ==========================================================================================

def load_corpus():
    cases = []
    for f in sorted(glob.glob(os.path.join(V.ROOT, "corpus", "C14_*.txt"))):
        for line in open(f):
            line = line.strip()
            if line and not line.startswith("#"):
                cases.append(json.loads(line))
    return cases


def run_cases(run, exe, model, cases, scratch):
    check_abf(run, exe, model, [c for c in cases if c["kind"] == "abf"], scratch)
    check_meta(run, exe, model, [c for c in cases if c["kind"] == "meta"], scratch)
    check_view(run, exe, model, [c for c in cases if c["kind"] == "view"], scratch)
    check_czar(run, exe, model, [c for c in cases if c["kind"] == "czar"], scratch)
    check_opes(run, exe, model, [c for c in cases if c["kind"] == "opes"], scratch)
    check_death(run, exe, model, [c for c in cases if c["kind"] == "death"], scratch)
    check_odeath(run, exe, model, [c for c in cases if c["kind"] == "odeath"], scratch)


def check(run):
    st = V.standard_start(run, PROP, "coq/C14/Extract_C14.v", "props/C14/driver.ml", {"c14walk": ["props/C14/unit.cpp"]},
                          variant=os.environ.get("C14_VARIANT", "plain"))
    if st is None:
        return
    model, exes = st
    exe = exes["c14walk"]
    scratch = V.scratch("C14")
    r = V.rng("C14")
    quick = run.tier == "quick"
    run.cov["rule"] = ("one case = one generated schedule (interleaving of walker steps, exchange points, restarts, visibility prefixes) run on "
                       "2-4 real walker processes and on the extracted model; distinct = distinct event list + frequencies")
    try:
        check_rewrite_order(run, exe, scratch)
        check_different_grids(run, exe, scratch)
        check_rejected_configs(run, exe, scratch)
        check_input_prefix(run, exe, scratch)
        check_two_biases(run, exe, scratch)
        run_cases(run, exe, model, load_corpus(), scratch)
        na, nm, nv, nr = (60, 45, 30, 12) if quick else (1500, 1200, 800, 300)
        big = not quick      # more than four walkers: thorough tier only
        cases = [gen_abf(r, "a%d" % i, big) for i in range(na)]
        cases += [gen_meta(r, "m%d" % i, big) for i in range(nm)]
        cases += [gen_view(r, "v%d" % i) for i in range(nv)]
        cases += [gen_view(r, "x%d" % i, robust=True) for i in range(nr)]
        cases += [gen_czar(r, "z%d" % i, big) for i in range(8 if quick else 150)]
        cases += [gen_opes(r, "o%d" % i, big) for i in range(8 if quick else 150)]
        cases += [gen_death(r, "d%d" % i, big) for i in range(6 if quick else 120)]
        cases += [gen_odeath(r, "e%d" % i, big) for i in range(5 if quick else 100)]
        run_cases(run, exe, model, cases, scratch)
    finally:
        leftover = V.sh(["pgrep", "-f", exe])[1].split()
        if leftover:
            V.sh(["pkill", "-9", "-f", exe])
            run.notes.append("killed %d leftover walker processes" % len(leftover))
    run.notes.append("walker processes: forked per case, connected by socketpairs (ABF) or sharing scratch directories (metadynamics); "
                     "all are killed on every exit path and die with the controller (PR_SET_PDEATHSIG, alarm)")


def setup():
    V.build_prog("c14walk", ["props/C14/unit.cpp"])
    V.extract_model("C14", "coq/C14/Extract_C14.v", "props/C14/driver.ml", ["ocaml/fops.ml"])


def replay(path):
    j = json.load(open(path))
    print(json.dumps(j, indent=1)[:6000])
    def find_case(x):
        if isinstance(x, dict):
            if x.get("kind") in ("abf", "meta", "view", "czar", "opes") and ("events" in x or "steps" in x):
                return x
            for v in x.values():
                c = find_case(v)
                if c:
                    return c
        elif isinstance(x, list):
            for v in x:
                c = find_case(v)
                if c:
                    return c
        return None
    case = find_case(j["replay"])
    if case is None:
        return 0
    exe = V.build_prog("c14walk", ["props/C14/unit.cpp"])
    model = V.extract_model("C14", "coq/C14/Extract_C14.v", "props/C14/driver.ml", ["ocaml/fops.ml"])
    run = V.Run("C14", "replay")
    run_cases(run, exe, model, [case], V.scratch("C14r"))
    run.conclude()
    for sig, what, _, _ in run.violations:
        print("REPLAY: %s: %s" % (sig, what))
    for sig, txt in run.known_hit:
        print("REPLAY (known): %s" % sig)
    if not run.violations and not run.known_hit:
        print("REPLAY: implementation, model and oracle agree on this case")
    return 0
