# C18: distances, gradients and wrapping of variable values form a consistent metric.
import os, sys, json, math
import vcommon as V

PROP = "coq/C18/Properties_C18.v"
TOL = 1e-9


def hx(x):
    return V.hexf(x)


def close(a, b, tol=TOL):
    if math.isnan(a) or math.isnan(b):
        return False
    return abs(a - b) <= tol * max(1.0, abs(a), abs(b))


def parse(line):
    try:
        return [float.fromhex(t) for t in line.split()]
    except ValueError:
        return None


def unit(r, n):
    while True:
        v = [r.gauss(0, 1) for _ in range(n)]
        s = math.sqrt(sum(x * x for x in v))
        if s > 0.2:
            return [x / s for x in v]


def tangent(r, x):
    """random unit tangent vector at x on the sphere"""
    while True:
        e = [r.gauss(0, 1) for _ in x]
        d = sum(a * b for a, b in zip(e, x))
        e = [a - d * b for a, b in zip(e, x)]
        s = math.sqrt(sum(a * a for a in e))
        if s > 0.2:
            return [a / s for a in e]


def move_on_sphere(x, e, t):
    v = [a + t * b for a, b in zip(x, e)]
    s = math.sqrt(sum(a * a for a in v))
    return [a / s for a in v]


def fmt(kind, pre, x1, x2):
    return "%s %s%s %s" % (kind, pre, " ".join(map(hx, x1)), " ".join(map(hx, x2)))


class Group:
    """a base case with its derived lines and the relations its outputs must satisfy"""
    def __init__(self, kind, pre, x1, x2, manifold=False):
        self.kind, self.pre, self.x1, self.x2, self.manifold = kind, pre, x1, x2, manifold
        self.lines = [fmt(kind, pre, x1, x2), fmt(kind, pre, x2, x1), fmt(kind, pre, x1, x1)]
        self.fd = None
        self.inv = []   # indices of lines whose dist2 must equal the base dist2

    def add_fd(self, r, h):
        if self.manifold:
            e = tangent(r, self.x1)
            xp, xm = move_on_sphere(self.x1, e, h), move_on_sphere(self.x1, e, -h)
        else:
            e = [float(r.randint(-2, 2)) for _ in self.x1]
            if not any(e):
                e[0] = 1.0
            xp = [a + h * b for a, b in zip(self.x1, e)]
            xm = [a - h * b for a, b in zip(self.x1, e)]
        self.fd = (len(self.lines), e, h)
        self.lines += [fmt(self.kind, self.pre, xp, self.x2), fmt(self.kind, self.pre, xm, self.x2)]

    def add_inv(self, x1, x2):
        self.inv.append(len(self.lines))
        self.lines.append(fmt(self.kind, self.pre, x1, x2))


def gen_groups(r, n):
    G = []
    periods = [360.0, 2.0, 1.0, 8.0, 0.5, 6.0]
    for k in range(n):
        kind = r.choice(["SC", "PER", "PER", "V3", "UV", "UV", "Q", "Q", "VEC", "DV", "DV", "DV"])
        if kind == "SC":
            g = Group("SC", "", [V.dyadic(r, -50, 50)], [V.dyadic(r, -50, 50)])
            g.add_fd(r, 2.0 ** -6)
        elif kind == "PER":
            P = r.choice(periods); c = V.dyadic(r, -4, 4, bits=2)
            m = r.random()
            x2 = V.dyadic(r, -3, 3, bits=8) * P
            if m < 0.3:      # exactly half a period apart (the cut), plus whole periods
                x1 = x2 + P / 2 * r.choice([-1, 1]) + r.randint(-2, 2) * P
            elif m < 0.5:    # whole periods apart
                x1 = x2 + r.randint(-3, 3) * P
            else:
                x1 = V.dyadic(r, -3, 3, bits=8) * P
            g = Group("PER", "%s %s " % (hx(P), hx(c)), [x1], [x2])
            d = (x1 - x2) / P
            if abs(d - round(d)) < 0.49:     # FD only away from the cut
                g.add_fd(r, 2.0 ** -9 * P)
            g.add_inv([x1 + r.randint(-3, 3) * P], [x2 + r.randint(-3, 3) * P])
        elif kind == "V3":
            g = Group("V3", "", [V.dyadic(r, -9, 9) for _ in range(3)], [V.dyadic(r, -9, 9) for _ in range(3)])
            g.add_fd(r, 2.0 ** -6)
        elif kind == "UV":
            g = Group("UV", "", unit(r, 3), unit(r, 3), manifold=True)
            g.add_fd(r, 1e-4)
        elif kind == "Q":
            q1, q2 = unit(r, 4), unit(r, 4)
            g = Group("Q", "", q1, q2, manifold=True)
            c = sum(a * b for a, b in zip(q1, q2))
            if abs(c) > 0.02 and abs(c) < 0.999:
                g.add_fd(r, 1e-4)
            g.add_inv(q1, [-a for a in q2])
            g.add_inv([-a for a in q1], q2)
        elif kind == "VEC":
            nn = r.randint(1, 6)
            g = Group("VEC", "%d " % nn, [V.dyadic(r, -9, 9) for _ in range(nn)], [V.dyadic(r, -9, 9) for _ in range(nn)])
            g.add_fd(r, 2.0 ** -6)
        else:
            pbc = r.randint(0, 1); hc = r.randint(0, 1)
            L = [r.choice([4.0, 8.0, 16.0]) for _ in range(3)]
            x1 = [V.dyadic(r, -20, 20) for _ in range(3)]; x2 = [V.dyadic(r, -20, 20) for _ in range(3)]
            if r.random() < 0.25:   # a component exactly half a cell apart
                j = r.randrange(3); x1[j] = x2[j] + L[j] / 2 + r.randint(-1, 1) * L[j]
            g = Group("DV", "%d %d %s " % (pbc, hc, " ".join(map(hx, L))), x1, x2)
            oncut = pbc and hc and any(abs(((a - b) / l) % 1.0 - 0.5) < 0.01 for a, b, l in zip(x1, x2, L))
            if not oncut:
                g.add_fd(r, 2.0 ** -6)
            if pbc and hc:
                g.add_inv(x1, [b + r.randint(-2, 2) * l for b, l in zip(x2, L)])
                g.add_inv([a + r.randint(-2, 2) * l for a, l in zip(x1, L)], x2)
        G.append(g)
    return G


def gen_misc(r, n):
    L = []
    for k in range(n):
        kind = r.choice(["WRAP", "WRAP", "ISC", "IV3", "IUV", "IVEC"])
        lam = r.choice([0.0, 1.0, 0.5, 0.25, V.dyadic(r, 0, 1, bits=6)])
        if kind == "WRAP":
            P = r.choice([360.0, 2.0, 1.0, 8.0, 0.5, 6.0]); c = V.dyadic(r, -4, 4, bits=2)
            m = r.random()
            x = c + P / 2 * r.choice([-1, 1]) + r.randint(-2, 2) * P if m < 0.3 else V.dyadic(r, -4, 4, bits=8) * P
            L.append("WRAP %s %s %s" % (hx(P), hx(c), hx(x)))
        elif kind == "ISC":
            L.append("ISC %s %s %s" % (hx(V.dyadic(r, -9, 9)), hx(V.dyadic(r, -9, 9)), hx(lam)))
        elif kind == "IV3":
            L.append("IV3 %s %s %s" % (" ".join(hx(V.dyadic(r, -9, 9)) for _ in range(3)), " ".join(hx(V.dyadic(r, -9, 9)) for _ in range(3)), hx(lam)))
        elif kind == "IUV":
            L.append("IUV %s %s %s" % (" ".join(map(hx, unit(r, 3))), " ".join(map(hx, unit(r, 3))), hx(lam)))
        else:
            nn = r.randint(1, 5)
            L.append("IVEC %d %s %s %s" % (nn, " ".join(hx(V.dyadic(r, -9, 9)) for _ in range(nn)), " ".join(hx(V.dyadic(r, -9, 9)) for _ in range(nn)), hx(lam)))
    return L


def gen_obj(r, n):
    """histories on one periodic variable: modifications of period / wrapping centre (modifycvcs) interleaved
    with colvar::wrap and colvar::dist2 calls; values aimed at the edges of the interval in force"""
    L = []
    periods = [360.0, 2.0, 1.0, 8.0, 0.5, 6.0, 25.0, 10.0]
    for k in range(n):
        P = r.choice(periods); c = V.dyadic(r, -4, 4, bits=2)
        w = ["OBJ", hx(P), hx(c)]
        for j in range(r.randint(2, 7)):
            m = r.random()
            if m < 0.35:
                P = r.choice(periods); c = V.dyadic(r, -4, 4, bits=2)
                w += ["M", hx(P), hx(c)]
            elif m < 0.75:
                x = c + P / 2 * r.choice([-1, 1]) + r.randint(-2, 2) * P if r.random() < 0.3 else c + V.dyadic(r, -3, 3, bits=8) * P
                w += ["W", hx(x)]
            else:
                w += ["D", hx(V.dyadic(r, -9, 9) * P / 4), hx(V.dyadic(r, -9, 9) * P / 4)]
        if "M" not in w:
            P = r.choice(periods); c = V.dyadic(r, -4, 4, bits=2)
            w += ["M", hx(P), hx(c), "W", hx(c + V.dyadic(r, -3, 3, bits=8) * P)]
        if "W" not in w and "D" not in w:
            w += ["W", hx(c + V.dyadic(r, -3, 3, bits=8) * P)]
        L.append(" ".join(w))
    return L


def oracle_obj(line, out):
    """on the implementation's own outputs: every wrap result lies in the one-period interval around the centre IN FORCE
    at the time of the call, on a value equivalent under the period in force; dist2 = (shortest image)^2, grad = 2*image"""
    w = line.split(); o = parse(out)
    if o is None:
        return "no numeric result (%s)" % out
    P, c = float.fromhex(w[1]), float.fromhex(w[2])
    i = 3; k = 0
    while i < len(w):
        if w[i] == "M":
            P, c = float.fromhex(w[i + 1]), float.fromhex(w[i + 2]); i += 3
        elif w[i] == "W":
            x = float.fromhex(w[i + 1]); i += 2
            if k >= len(o):
                return "missing output"
            y = o[k]; k += 1
            n = (x - y) / P
            if not (c - P / 2 <= y < c + P / 2) or abs(n - round(n)) > 1e-9:
                return ("after the history %s: wrap(%r) returned %r, which is not the equivalent value in [c-P/2, c+P/2) "
                        "for the period %r and centre %r in force" % (" ".join(w[:i - 2]), x, y, P, c))
        else:
            x1, x2 = float.fromhex(w[i + 1]), float.fromhex(w[i + 2]); i += 3
            if k + 1 >= len(o):
                return "missing output"
            d2, g = o[k], o[k + 1]; k += 2
            d = x1 - x2
            img = d - math.floor(d / P + 0.5) * P
            if not close(d2, img * img, 1e-8) or not close(g, 2 * img, 1e-8):
                return ("after the history %s: dist2(%r,%r) = %r, gradient %r; the shortest image under the period %r in force is %r"
                        % (" ".join(w[:i - 3]), x1, x2, d2, g, P, img))
    return None


def oracle_misc(line, out):
    w = line.split(); o = parse(out)
    if o is None:
        return "no numeric result (%s)" % out
    if w[0] == "WRAP":
        P, c, x = [float.fromhex(t) for t in w[1:4]]
        y = o[0]
        n = (x - y) / P
        if not (c - P / 2 <= y < c + P / 2) or abs(n - round(n)) > 1e-9:
            return "wrap(%r) with period %r around %r returned %r: not the equivalent value in [c-P/2, c+P/2)" % (x, P, c, y)
    elif w[0] == "IUV":
        lam = float.fromhex(w[-1])
        x1 = [float.fromhex(t) for t in w[1:4]]; x2 = [float.fromhex(t) for t in w[4:7]]
        lin = [(1 - lam) * a + lam * b for a, b in zip(x1, x2)]
        if math.sqrt(sum(a * a for a in lin)) > 1e-3:
            if not close(sum(a * a for a in o), 1.0):
                return "interpolated unit vector %r is not normalised" % o
            if lam == 0.0 and not all(close(a, b) for a, b in zip(o, x1)):
                return "interpolation at lambda=0 does not return the first end point"
            if lam == 1.0 and not all(close(a, b) for a, b in zip(o, x2)):
                return "interpolation at lambda=1 does not return the second end point"
    return None


def setup():
    V.extract_model("C18", "coq/C18/Extract_C18.v", "props/C18/driver.ml", ["ocaml/fops.ml"])
    V.build_prog("c18unit", ["props/C18/unit.cpp"])


def check(run):
    r = V.rng("C18")
    quick = run.tier == "quick"
    run.cov["rule"] = ("groups of related calls to dist2/dist2_grad (colvarvalue for scalar, 3-vector, unit vector, quaternion, vector; real colvar objects for "
                       "periodic distanceZ and distanceVec with/without forceNoPBC and cell): base, swapped, identical arguments, +/-h along a (tangent) direction, "
                       "period/sign/lattice images; ~30% of periodic cases exactly on the half-period cut; plus wrap and interpolate calls, and histories on one periodic "
                       "variable object (modifycvcs changes of period/wrapAround interleaved with colvar::wrap and colvar::dist2 calls). "
                       "distinct = distinct base line; non-trivial = arguments differ and (for periodic/cell cases) the nearest image is not the identity image or the case is on the cut")
    run.assumptions += ["theorems are about the R instance of the model; the tie runs the float instance and compares with relative tolerance 1e-9 (acos, sqrt) and exactly for dyadic cases",
                        "colvar::dist2_rgrad is not used by any bias and is outside the property (gradient with respect to the first argument)",
                        "gradient-is-derivative is proved for scalar, periodic scalar (off the cut), 3-vector; for unit vectors and quaternions it is checked by finite differences along tangent directions only (T2)"]
    st = V.standard_start(run, PROP, "coq/C18/Extract_C18.v", "props/C18/driver.ml", {"c18unit": ["props/C18/unit.cpp"]})
    if st is None:
        return
    model, exes = st
    unitp = exes["c18unit"]
    groups = gen_groups(r, 700 if quick else 20000)
    misc = gen_misc(r, 300 if quick else 8000)
    misc += gen_obj(r, 150 if quick else 3000)
    lines = []
    for g in groups:
        g.off = len(lines)
        lines += g.lines
    moff = len(lines)
    lines += misc
    rc1, impl, e1 = V.run_lines(unitp, lines)
    rc2, mod, e2 = V.run_lines(model, lines)
    if len(impl) != len(lines):
        run.violation("unit:crash", "the C18 unit driver died (rc=%d) after %d of %d cases: %s" % (rc1, len(impl), len(lines), e1[-300:]),
                      {"kind": "unit", "case": lines[len(impl)] if len(impl) < len(lines) else None})
        return
    # correspondence: every line
    for i, (l, a) in enumerate(zip(lines, impl)):
        b = mod[i] if i < len(mod) else "<none>"
        if l.split()[0] == "IQ":
            continue
        pa, pb = parse(a), parse(b)
        if pa is None or pb is None or len(pa) != len(pb) or not all(close(x, y) or (math.isnan(x) and math.isnan(y)) for x, y in zip(pa, pb)):
            run.mismatch("value:" + l.split()[0], l, a, b)
    # property oracles on the implementation
    for g in groups:
        base = parse(impl[g.off]); sw = parse(impl[g.off + 1]); same = parse(impl[g.off + 2])
        nontriv = g.x1 != g.x2
        run.count(g.lines[0], nontriv)
        run.dist("group:" + g.kind + ("" if g.kind != "DV" else g.pre[:3].replace(" ", "")))
        rep = {"kind": "unit", "lines": g.lines, "impl": impl[g.off:g.off + len(g.lines)]}
        sigk = g.kind + (g.pre[:3].replace(" ", "") if g.kind == "DV" else "")
        if base is None or sw is None or same is None:
            run.violation("metric:%s:nonnumeric" % sigk, "no numeric result for %s" % g.lines[0], rep)
            continue
        d2 = base[0]
        if not (d2 >= 0):
            run.violation("metric:%s:nonneg" % sigk, "dist2 = %r is negative for %s" % (d2, g.lines[0]), rep)
        if not close(d2, sw[0]):
            run.violation("metric:%s:sym" % sigk, "dist2(x1,x2) = %r but dist2(x2,x1) = %r for %s" % (d2, sw[0], g.lines[0]), rep)
        if not abs(same[0]) <= 1e-12:
            run.violation("metric:%s:self" % sigk, "dist2(x,x) = %r is not zero for %s" % (same[0], g.lines[2]), rep)
        if nontriv and g.kind in ("SC", "V3", "VEC") and not d2 > 0:
            run.violation("metric:%s:zero" % sigk, "dist2 = 0 for different values %s" % g.lines[0], rep)
        for j in g.inv:
            o = parse(impl[g.off + j])
            if o is None or not close(d2, o[0], 1e-8):
                run.violation("metric:%s:image" % sigk, "dist2 changes from %r to %r under a period / sign / lattice image: %s vs %s" % (d2, o and o[0], g.lines[0], g.lines[j]), rep)
        if g.fd:
            j, e, h = g.fd
            p, m = parse(impl[g.off + j]), parse(impl[g.off + j + 1])
            grad = base[1:]
            if p is None or m is None or len(grad) != len(e):
                run.violation("grad:%s:shape" % sigk, "gradient has the wrong shape for %s" % g.lines[0], rep)
                continue
            fdv = (p[0] - m[0]) / (2 * h)
            an = sum(a * b for a, b in zip(grad, e))
            tol = 1e-5 if g.manifold else 1e-8
            if not (abs(fdv - an) <= tol * max(1.0, abs(fdv), abs(an))):
                run.violation("grad:%s:fd" % sigk,
                              "reported gradient along direction %s is %r but the finite difference of dist2 is %r for %s" % (e, an, fdv, g.lines[0]), rep)
    for i, l in enumerate(misc):
        run.count(l, True)
        run.dist("misc:" + l.split()[0])
        bad = oracle_obj(l, impl[moff + i]) if l.startswith("OBJ") else oracle_misc(l, impl[moff + i])
        if bad:
            run.violation("misc:" + l.split()[0], bad, {"kind": "unit", "lines": [l], "impl": [impl[moff + i]]})
    run.sample({"group": groups[0].lines, "impl": impl[groups[0].off:groups[0].off + len(groups[0].lines)]})
    run.sample({"misc": misc[0], "impl": impl[moff]})
    run.cov["correspondence"].update({"lines": len(lines)})


def replay(path):
    j = json.load(open(path))
    print(json.dumps(j, indent=1)[:3000])
    rp = j["replay"]
    if rp.get("kind") == "unit":
        unitp = V.build_prog("c18unit", ["props/C18/unit.cpp"])
        model = V.extract_model("C18", "coq/C18/Extract_C18.v", "props/C18/driver.ml", ["ocaml/fops.ml"])
        print("impl :", V.run_lines(unitp, rp["lines"])[1])
        print("model:", V.run_lines(model, rp["lines"])[1])
    return 0
