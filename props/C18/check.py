# C18: distances, gradients and wrapping of variable values form a consistent metric.
import os, sys, json, math, threading
import vcommon as V

PROP = "coq/C18/Properties_C18.v"
TOL = 1e-9


def hx(x):
    return V.hexf(x)


def close(a, b, tol=TOL):
    if math.isnan(a) or math.isnan(b):
        return False
    if a == b:          # equal infinities (gradient at the exact antipode of a unit vector)
        return True
    return abs(a - b) <= tol * max(1.0, abs(a), abs(b))


def parse(line):
    try:
        return [float(t) if t.lstrip("+-").lower() in ("inf", "infinity", "nan") else float.fromhex(t) for t in line.split()]
    except ValueError:
        return None


def unit(r, n):
    while True:
        v = [r.gauss(0, 1) for _ in range(n)]
        s = math.sqrt(sum(x * x for x in v))
        if s > 0.2:
            return [x / s for x in v]


def tangent(r, x):
    """random unit tangent vector at x on the sphere"""
    while True:
        e = [r.gauss(0, 1) for _ in x]
        d = sum(a * b for a, b in zip(e, x))
        e = [a - d * b for a, b in zip(e, x)]
        s = math.sqrt(sum(a * a for a in e))
        if s > 0.2:
            return [a / s for a in e]


def move_on_sphere(x, e, t):
    v = [a + t * b for a, b in zip(x, e)]
    s = math.sqrt(sum(a * a for a in v))
    return [a / s for a in v]


def fmt(kind, pre, x1, x2):
    return "%s %s%s %s" % (kind, pre, " ".join(map(hx, x1)), " ".join(map(hx, x2)))


class Group:
    """a base case with its derived lines and the relations its outputs must satisfy"""
    def __init__(self, kind, pre, x1, x2, manifold=False):
        self.kind, self.pre, self.x1, self.x2, self.manifold = kind, pre, x1, x2, manifold
        self.lines = [fmt(kind, pre, x1, x2), fmt(kind, pre, x2, x1), fmt(kind, pre, x1, x1)]
        self.fd = None
        self.inv = []   # indices of lines whose dist2 must equal the base dist2

    def add_fd(self, r, h):
        if self.manifold:
            e = tangent(r, self.x1)
            xp, xm = move_on_sphere(self.x1, e, h), move_on_sphere(self.x1, e, -h)
        else:
            e = [float(r.randint(-2, 2)) for _ in self.x1]
            if not any(e):
                e[0] = 1.0
            xp = [a + h * b for a, b in zip(self.x1, e)]
            xm = [a - h * b for a, b in zip(self.x1, e)]
        self.fd = (len(self.lines), e, h)
        self.lines += [fmt(self.kind, self.pre, xp, self.x2), fmt(self.kind, self.pre, xm, self.x2)]

    def add_inv(self, x1, x2):
        self.inv.append(len(self.lines))
        self.lines.append(fmt(self.kind, self.pre, x1, x2))


def gen_groups(r, n):
    G = []
    periods = [360.0, 2.0, 1.0, 8.0, 0.5, 6.0, 2.0 ** -20, 2.0 ** 20]      # also very small and very large periods (scales 1e-6 .. 1e6)
    for k in range(n):
        kind = r.choice(["SC", "PER", "PER", "V3", "UV", "UV", "Q", "Q", "VEC", "DV", "DV", "DV"])
        sc = r.choice([1.0, 1.0, 2.0 ** -26, 2.0 ** 26])       # scale of the data for the flat types (1e-8 .. 1e8)
        if kind == "SC":
            g = Group("SC", "", [sc * V.dyadic(r, -50, 50)], [sc * V.dyadic(r, -50, 50)])
            g.add_fd(r, sc * 2.0 ** -6)
        elif kind == "PER":
            P = r.choice(periods); c = V.dyadic(r, -4, 4, bits=2)
            m = r.random()
            x2 = V.dyadic(r, -3, 3, bits=8) * P
            if m < 0.3:      # exactly half a period apart (the cut), plus whole periods
                x1 = x2 + P / 2 * r.choice([-1, 1]) + r.randint(-2, 2) * P
            elif m < 0.5:    # whole periods apart
                x1 = x2 + r.randint(-3, 3) * P
            else:
                x1 = V.dyadic(r, -3, 3, bits=8) * P
            g = Group("PER", "%s %s " % (hx(P), hx(c)), [x1], [x2])
            d = (x1 - x2) / P
            if abs(d - round(d)) < 0.49:     # FD only away from the cut
                g.add_fd(r, 2.0 ** -9 * P)
            g.add_inv([x1 + r.randint(-3, 3) * P], [x2 + r.randint(-3, 3) * P])
        elif kind == "V3":
            g = Group("V3", "", [sc * V.dyadic(r, -9, 9) for _ in range(3)], [sc * V.dyadic(r, -9, 9) for _ in range(3)])
            g.add_fd(r, sc * 2.0 ** -6)
        elif kind == "UV":
            g = Group("UV", "", unit(r, 3), unit(r, 3), manifold=True)
            if sum(a * b for a, b in zip(g.x1, g.x2)) > -0.98:      # near the antipode the third derivative makes the central difference too coarse
                g.add_fd(r, 1e-4)
        elif kind == "Q":
            q1, q2 = unit(r, 4), unit(r, 4)
            g = Group("Q", "", q1, q2, manifold=True)
            c = sum(a * b for a, b in zip(q1, q2))
            if abs(c) > 0.02 and abs(c) < 0.999:
                g.add_fd(r, 1e-4)
            g.add_inv(q1, [-a for a in q2])
            g.add_inv([-a for a in q1], q2)
        elif kind == "VEC":
            nn = r.randint(1, 6)
            g = Group("VEC", "%d " % nn, [sc * V.dyadic(r, -9, 9) for _ in range(nn)], [sc * V.dyadic(r, -9, 9) for _ in range(nn)])
            g.add_fd(r, sc * 2.0 ** -6)
        else:
            pbc = r.randint(0, 1); hc = r.randint(0, 1)
            L = [r.choice([4.0, 8.0, 16.0]) for _ in range(3)]
            x1 = [V.dyadic(r, -20, 20) for _ in range(3)]; x2 = [V.dyadic(r, -20, 20) for _ in range(3)]
            if r.random() < 0.25:   # a component exactly half a cell apart
                j = r.randrange(3); x1[j] = x2[j] + L[j] / 2 + r.randint(-1, 1) * L[j]
            g = Group("DV", "%d %d %s " % (pbc, hc, " ".join(map(hx, L))), x1, x2)
            oncut = pbc and hc and any(abs(((a - b) / l) % 1.0 - 0.5) < 0.01 for a, b, l in zip(x1, x2, L))
            if not oncut:
                g.add_fd(r, 2.0 ** -6)
            if pbc and hc:
                g.add_inv(x1, [b + r.randint(-2, 2) * l for b, l in zip(x2, L)])
                g.add_inv([a + r.randint(-2, 2) * l for a, l in zip(x1, L)], x2)
        G.append(g)
    return G


def dyadic_unit4(r):
    """unit quaternions with dyadic components (exact inner products): permutations / signs of (1,0,0,0), (1/2,1/2,1/2,1/2), (3/5,4/5,0,0)-like are not dyadic, so only the first two families"""
    if r.random() < 0.5:
        q = [0.0, 0.0, 0.0, 0.0]; q[r.randrange(4)] = r.choice([-1.0, 1.0]); return q
    return [r.choice([-0.5, 0.5]) for _ in range(4)]



# ---- real single-component variables of every kind: colvar::dist2 / dist2_lgrad / dist2_rgrad / wrap ----
SCALAR_KINDS = ["distance", "eulerTheta", "polarTheta", "tilt", "orientationAngle"]
PERIODIC_KINDS = ["dihedral", "spinAngle", "eulerPhi", "eulerPsi", "polarPhi", "dihedralSum", "dihedralDiff"]       # period 360, wrapAround configurable
# sums of components with different periodicities (NOT periodic: plain scalar metric) and components that nest other components
MIXED_KINDS = ["mixDihedralDistance", "mixAngleDihedral", "mixPeriods"]
NESTED_SCALAR_KINDS = ["lcScalar", "gspathCV", "gzpathCV", "aspathCV", "azpathCV"]
# dihedralCoeff2: a periodic component with coefficient 2 makes a NON-periodic variable (documented: "will not be treated as periodic")
WRAP_CENTRES = [0.0, 90.0, -180.0, 180.0, 45.5, -77.25]
SCRIPTED_PERIODS = [360.0, 2.0, 8.0]


def pywrap(x, c, P):
    return x - math.floor((x - c) / P + 0.5) * P


class CGroup:
    """one pair of values on one real variable: base, swapped, identical, images, wrapped arguments, wrap calls, finite differences in both arguments"""
    def __init__(self, r):
        m = r.random()
        self.P = None; self.c = 0.0; self.n = 1; self.manifold = False
        if m < 0.22:
            self.kind = r.choice(SCALAR_KINDS + ["dihedralCoeff2"] + MIXED_KINDS + MIXED_KINDS + NESTED_SCALAR_KINDS); self.cls = "scalar"
            if self.kind == "dihedralCoeff2" or self.kind in MIXED_KINDS:
                self.c = r.choice(WRAP_CENTRES)
        elif m < 0.50:
            self.kind = r.choice(PERIODIC_KINDS); self.cls = "periodic"; self.P = 360.0; self.c = r.choice(WRAP_CENTRES)
        elif m < 0.65:
            self.P = r.choice(SCRIPTED_PERIODS); self.kind = "scripted:%r" % self.P; self.cls = "periodic"
            self.c = r.choice([0.0, self.P / 2, -self.P / 4, self.P / 8])
        elif m < 0.75:
            self.kind = "distanceDir"; self.cls = "unit"; self.n = 3; self.manifold = True
        elif m < 0.85:
            self.kind = "orientation"; self.cls = "quat"; self.n = 4; self.manifold = True
        elif m < 0.90:
            self.kind = "cartesian"; self.cls = "vector"; self.n = 6
        elif m < 0.94:
            self.kind = "lcVec3"; self.cls = "vector"; self.n = 3
        else:
            self.kind = "distancePairs"; self.cls = "vector"; self.n = 4
        P = self.P
        if self.cls == "scalar":
            x1 = [V.dyadic(r, -50, 50)]; x2 = [V.dyadic(r, -50, 50)]
            if self.kind in MIXED_KINDS and r.random() < 0.6:
                # values a whole number of periods of ONE of the components apart: different values of a non-periodic variable
                x1 = [x2[0] + r.choice([-2, -1, 1, 2]) * r.choice([360.0, 10.0, 20.0])]
        elif self.cls == "periodic":
            x2 = [V.dyadic(r, -3, 3, bits=8) * P]
            mm = r.random()
            if mm < 0.25:
                x1 = [x2[0] + P / 2 * r.choice([-1, 1]) + r.randint(-2, 2) * P]
            elif mm < 0.4:
                x1 = [x2[0] + r.randint(-3, 3) * P]
            else:
                x1 = [V.dyadic(r, -3, 3, bits=8) * P]
        elif self.cls == "unit":
            x1, x2 = unit(r, 3), unit(r, 3)
        elif self.cls == "quat":
            x1, x2 = unit(r, 4), unit(r, 4)
        else:
            x1 = [V.dyadic(r, -9, 9) for _ in range(self.n)]; x2 = [V.dyadic(r, -9, 9) for _ in range(self.n)]
        self.x1, self.x2 = x1, x2
        self.lines = [self.cd(x1, x2), self.cd(x2, x1), self.cd(x1, x1)]
        self.inv = []; self.fd1 = None; self.fd2 = None; self.wr = None
        if self.cls == "periodic":
            self.inv.append(len(self.lines)); self.lines.append(self.cd([x1[0] + r.randint(-3, 3) * P], [x2[0] + r.randint(-3, 3) * P]))
            # wrapped arguments (python's own wrap; the implementation's wrap is checked on the CW lines)
            self.inv.append(len(self.lines)); self.lines.append(self.cd([pywrap(x1[0], self.c, P)], [pywrap(x2[0], self.c, P)]))
            d = (x1[0] - x2[0]) / P
            self.oncut = abs(d - round(d)) >= 0.49
        else:
            self.oncut = False
        if self.cls == "unit":
            self.oncut = sum(a * b for a, b in zip(x1, x2)) <= -0.98
        if self.cls == "quat":
            self.inv.append(len(self.lines)); self.lines.append(self.cd(x1, [-a for a in x2]))
            cc = sum(a * b for a, b in zip(x1, x2))
            self.oncut = not (0.02 < abs(cc) < 0.999)
        # wrap calls
        self.wr = len(self.lines)
        xw = [x1[0] + r.randint(-2, 2) * P] if self.cls == "periodic" else x1
        if self.cls == "periodic" and r.random() < 0.3:
            xw = [self.c + P / 2 * r.choice([-1, 1]) + r.randint(-2, 2) * P]
        self.xw = xw
        self.lines.append("CW %s %s %d %s" % (self.kind, hx(self.c), self.n, " ".join(map(hx, xw))))
        # finite differences in the first and in the second argument
        if not self.oncut:
            h = 1e-4 if self.manifold else (2.0 ** -9 * P if P else 2.0 ** -6)
            for which in (1, 2):
                base = x1 if which == 1 else x2
                if self.manifold:
                    e = tangent(r, base); xp, xm = move_on_sphere(base, e, h), move_on_sphere(base, e, -h)
                else:
                    e = [float(r.randint(-2, 2)) for _ in base]
                    if not any(e):
                        e[0] = 1.0
                    xp = [a + h * b for a, b in zip(base, e)]; xm = [a - h * b for a, b in zip(base, e)]
                j = len(self.lines)
                if which == 1:
                    self.lines += [self.cd(xp, x2), self.cd(xm, x2)]; self.fd1 = (j, e, h)
                else:
                    self.lines += [self.cd(x1, xp), self.cd(x1, xm)]; self.fd2 = (j, e, h)

    def cd(self, a, b):
        return "CD %s %s %d %s %s" % (self.kind, hx(self.c), self.n, " ".join(map(hx, a)), " ".join(map(hx, b)))


def oracle_cgroup(g, impl, run):
    """metric relations on the implementation's own outputs for one real variable"""
    outs = [parse(impl[g.off + i]) for i in range(len(g.lines))]
    rep = {"kind": "unit", "lines": g.lines, "impl": impl[g.off:g.off + len(g.lines)]}
    sigk = g.kind.split(":")[0]
    n = g.n
    if any(o is None for o in outs) or any(len(outs[i]) != 1 + 2 * n for i in range(len(outs)) if i != g.wr) or len(outs[g.wr]) != n:
        run.violation("comp:%s:shape" % sigk, "no numeric result / wrong shape for %s: %s" % (g.lines[0], impl[g.off]), rep)
        return
    base, sw, same = outs[0], outs[1], outs[2]
    d2, lg, rg = base[0], base[1:1 + n], base[1 + n:]
    tolm = 1e-8
    if not (d2 >= 0):
        run.violation("comp:%s:nonneg" % sigk, "dist2 = %r is negative for %s" % (d2, g.lines[0]), rep)
    if not close(d2, sw[0], tolm):
        run.violation("comp:%s:sym" % sigk, "%s: dist2(x1,x2) = %r but dist2(x2,x1) = %r (%s)" % (g.kind, d2, sw[0], g.lines[0]), rep)
    if g.cls in ("scalar", "vector") and g.x1 != g.x2 and not d2 > 0:
        run.violation("comp:%s:zero" % sigk, "%s is not a periodic variable but dist2 = %r between the different values %r and %r (%s)" % (g.kind, d2, g.x1, g.x2, g.lines[0]), rep)
    if not abs(same[0]) <= 1e-12:
        run.violation("comp:%s:self" % sigk, "%s: dist2(x,x) = %r is not zero (%s)" % (g.kind, same[0], g.lines[2]), rep)
    # the gradient with respect to the second argument is the left gradient with the arguments exchanged
    if not all(close(a, b, tolm) for a, b in zip(rg, sw[1:1 + n])):
        run.violation("comp:%s:rgrad" % sigk, "%s: dist2_rgrad(x1,x2) = %r but dist2_lgrad(x2,x1) = %r (%s)" % (g.kind, rg, sw[1:1 + n], g.lines[0]), rep)
    for j in g.inv:
        if not close(d2, outs[j][0], tolm):
            run.violation("comp:%s:image" % sigk, "%s: dist2 changes from %r to %r under a period image / wrapping of the arguments / sign flip: %s vs %s" % (g.kind, d2, outs[j][0], g.lines[0], g.lines[j]), rep)
    # wrap
    y = outs[g.wr]
    if g.cls == "periodic":
        k = (g.xw[0] - y[0]) / g.P
        if not (g.c - g.P / 2 <= y[0] < g.c + g.P / 2) or abs(k - round(k)) > 1e-9:
            run.violation("comp:%s:wrap" % sigk, "%s with period %r and wrapAround %r: wrap(%r) = %r is not the equivalent value in [c-P/2, c+P/2)" % (g.kind, g.P, g.c, g.xw[0], y[0]), rep)
    elif y != g.xw:
        run.violation("comp:%s:wrap" % sigk, "%s is not periodic but wrap(%r) = %r" % (g.kind, g.xw, y), rep)
    for which, fd in ((1, g.fd1), (2, g.fd2)):
        if not fd:
            continue
        j, e, h = fd
        fdv = (outs[j][0] - outs[j + 1][0]) / (2 * h)
        an = sum(a * b for a, b in zip(lg if which == 1 else rg, e))
        tol = 1e-5 if g.manifold else 1e-8
        if not (abs(fdv - an) <= tol * max(1.0, abs(fdv), abs(an))):
            run.violation("comp:%s:fd%d" % (sigk, which),
                          "%s: reported %s gradient along %s is %r but the finite difference of dist2 in argument %d is %r (%s)"
                          % (g.kind, "left" if which == 1 else "right", e, an, which, fdv, g.lines[0]), rep)



class TGroup:
    """distanceVec in a general (triclinic) cell: base, swapped, identical, lattice image, +/-h in each argument"""
    def __init__(self, r):
        while True:
            L = [r.choice([4.0, 8.0, 16.0]) for _ in range(3)]
            ortho = r.random() < 0.2
            sh = [0.0, 0.0, 0.0] if ortho else [V.dyadic(r, -0.5, 0.5, bits=3) * L[0], V.dyadic(r, -0.5, 0.5, bits=3) * L[0], V.dyadic(r, -0.5, 0.5, bits=3) * L[1]]
            self.a = [L[0], 0.0, 0.0]; self.b = [sh[0], L[1], 0.0]; self.c = [sh[1], sh[2], L[2]]
            self.x1 = [V.dyadic(r, -20, 20) for _ in range(3)]; self.x2 = [V.dyadic(r, -20, 20) for _ in range(3)]
            if min(abs(f - math.floor(f) - 0.5) for f in self.frac([q - p for p, q in zip(self.x1, self.x2)])) > 1e-2:
                break       # well off the cut, also for the finite-difference neighbours (boundary-ambiguous cases are not generated; the exact cut is a recorded limitation)
        n = [r.randint(-2, 2) for _ in range(3)]
        img = [q + n[0] * ai + n[1] * bi + n[2] * ci for q, ai, bi, ci in zip(self.x2, self.a, self.b, self.c)]
        self.lines = [self.ln(self.x1, self.x2), self.ln(self.x2, self.x1), self.ln(self.x1, self.x1), self.ln(self.x1, img)]
        h = 2.0 ** -10
        self.fd = []
        for which in (1, 2):
            e = [float(r.randint(-2, 2)) for _ in range(3)]
            if not any(e):
                e[0] = 1.0
            base = self.x1 if which == 1 else self.x2
            xp = [u + h * v for u, v in zip(base, e)]; xm = [u - h * v for u, v in zip(base, e)]
            self.fd.append((len(self.lines), e, h, which))
            self.lines += [self.ln(xp, self.x2), self.ln(xm, self.x2)] if which == 1 else [self.ln(self.x1, xp), self.ln(self.x1, xm)]

    def frac(self, d):
        # solve d = s1 a + s2 b + s3 c for the upper-triangular cell
        s3 = d[2] / self.c[2]; s2 = (d[1] - s3 * self.c[1]) / self.b[1]; s1 = (d[0] - s2 * self.b[0] - s3 * self.c[0]) / self.a[0]
        return [s1, s2, s3]

    def ln(self, p, q):
        return "DVT %s %s %s %s %s" % tuple(" ".join(map(hx, v)) for v in (self.a, self.b, self.c, p, q))


def oracle_tgroup(g, impl, run):
    outs = [parse(impl[g.off + i]) for i in range(len(g.lines))]
    rep = {"kind": "unit", "lines": g.lines, "impl": impl[g.off:g.off + len(g.lines)]}
    if any(o is None or len(o) != 7 for o in outs):
        run.violation("tricl:shape", "no numeric result for %s: %s" % (g.lines[0], impl[g.off]), rep)
        return
    base, sw, same, img = outs[:4]
    d2 = base[0]
    what = "distanceVec in the cell %r %r %r" % (g.a, g.b, g.c)
    if not d2 >= 0:
        run.violation("tricl:nonneg", "%s: dist2 = %r" % (what, d2), rep)
    if not close(d2, sw[0], 1e-8):
        run.violation("tricl:sym", "%s: dist2(x1,x2) = %r but dist2(x2,x1) = %r for x1=%r x2=%r" % (what, d2, sw[0], g.x1, g.x2), rep)
    if not abs(same[0]) <= 1e-12:
        run.violation("tricl:self", "%s: dist2(x,x) = %r" % (what, same[0]), rep)
    if not close(d2, img[0], 1e-8):
        run.violation("tricl:image", "%s: dist2 changes from %r to %r when x2 is translated by a lattice vector (%s vs %s)" % (what, d2, img[0], g.lines[0], g.lines[3]), rep)
    if not all(close(u, v, 1e-8) for u, v in zip(base[4:7], sw[1:4])):
        run.violation("tricl:rgrad", "%s: dist2_rgrad(x1,x2) = %r but dist2_lgrad(x2,x1) = %r" % (what, base[4:7], sw[1:4]), rep)
    # the reduced difference must be inside the cell centred on the origin: fractional coordinates in [-1/2, 1/2]
    for (j, e, h, which) in g.fd:
        fdv = (outs[j][0] - outs[j + 1][0]) / (2 * h)
        an = sum(u * v for u, v in zip(base[1:4] if which == 1 else base[4:7], e))
        if not (abs(fdv - an) <= 1e-8 * max(1.0, abs(fdv), abs(an))):
            run.violation("tricl:fd%d" % which, "%s: reported %s gradient along %s is %r but the finite difference of dist2 is %r (x1=%r x2=%r)"
                          % (what, "left" if which == 1 else "right", e, an, fdv, g.x1, g.x2), rep)



# ---- variables that are sums of 1..5 components: colvar::init's periodic decision and the metric that follows from it ----
SUM_KW = ["angle", "dihedral", "distance", "distanceZ", "eulerPhi", "polarPhi", "spinAngle"]      # alphabetical = creation order
SUM_PER360 = ("dihedral", "eulerPhi", "polarPhi", "spinAngle")


class SGroup:
    def __init__(self, r, directed=None, modify=False):
        """directed = (position of the odd component in CREATION order: 0 first / 1 middle / 2 last, kind of oddity 0..3): a 3-component
        sum of period-360 components with exactly that one odd component (every run has all 12 combinations)"""
        n = r.choice([1, 2, 3, 3, 3, 4, 4, 5]) if directed is None else 3
        style = r.random() if directed is None else 2.0
        comps = []
        for i in range(n):
            if style < 0.45:      # all periodic with period 360 ... (an odd one is put in below)
                kw = r.choice(SUM_PER360 + ("distanceZ",)); P = 360.0 if kw == "distanceZ" else 0.0
            else:
                kw = r.choice(SUM_KW); P = r.choice([0.0, 360.0, 360.0, 50.0, 10.0]) if kw == "distanceZ" else 0.0
            co = r.choice([1.0, -1.0]) if r.random() < 0.95 else r.choice([2.0, 0.5, -2.0])
            ex = 1 if r.random() < 0.96 else 2
            comps.append([kw, P, co, ex, r.choice([0.0, 90.0, -180.0, 45.5])])
        if style < 0.45 and n >= 2 and r.random() < 0.6:
            # ... except one component, anywhere in the list: not periodic, of another period, with another coefficient or exponent
            j = r.randrange(n)
            how = r.random()
            if how < 0.6:
                comps[j][0] = r.choice(["angle", "distance", "distanceZ", "distanceZ"]); comps[j][1] = r.choice([0.0, 50.0, 10.0]) if comps[j][0] == "distanceZ" else 0.0
            elif how < 0.8:
                comps[j][2] = r.choice([2.0, 0.5, -2.0])      # a coefficient that is not +-1
            else:
                comps[j][3] = 2                               # an exponent that is not 1
        if directed is not None:
            pos, how = directed
            kws = sorted(r.choice(["dihedral", "eulerPhi", "polarPhi"]) for _ in range(3))       # creation order; distance/distanceZ sort in between
            if how in (0, 1):
                odd = ["distance", 0.0] if how == 0 else ["distanceZ", r.choice([50.0, 10.0])]
                # put the odd keyword at the wanted creation position by choosing neighbours on either side of it alphabetically
                lo, hi = ["dihedral"], ["eulerPhi", "polarPhi", "spinAngle"]
                names = ([r.choice(lo), odd[0], r.choice(hi)] if pos == 1 else
                         ([odd[0], r.choice(hi), r.choice(hi)] if pos == 0 else [r.choice(lo), r.choice(lo), odd[0]]))
                comps = [[k, (odd[1] if k == odd[0] else 0.0), r.choice([1.0, -1.0]), 1, r.choice([0.0, 90.0, -180.0, 45.5])] for k in names]
            else:
                comps = [[k, 0.0, r.choice([1.0, -1.0]), 1, r.choice([0.0, 90.0, -180.0, 45.5])] for k in kws]
                order0 = sorted(range(3), key=lambda i: SUM_KW.index(comps[i][0]))
                if how == 2:
                    comps[order0[pos]][2] = r.choice([2.0, 0.5, -2.0])
                else:
                    comps[order0[pos]][3] = 2
        if modify:
            # mostly period-360 components with at least one distanceZ, so that a run-time change of its period or of a coefficient flips the decision
            n = r.choice([2, 3, 3, 4])
            comps = [[r.choice(SUM_PER360), 0.0, r.choice([1.0, -1.0]), 1, r.choice([0.0, 90.0, -180.0])] for _ in range(n)]
            comps[r.randrange(n)] = ["distanceZ", r.choice([360.0, 360.0, 50.0, 0.0]), r.choice([1.0, -1.0]), 1, r.choice([0.0, 90.0])]
            if r.random() < 0.3:
                comps[r.randrange(n)][2] = 2.0
        r.shuffle(comps)
        self.comps = comps
        self.mod = None
        order = sorted(range(n), key=lambda i: SUM_KW.index(comps[i][0]))
        # wrapAround is only given to (and kept by) a component that is periodic when it is created
        wc0 = [c[4] if (c[0] in SUM_PER360 or (c[0] == "distanceZ" and c[1] != 0.0)) else 0.0 for c in comps]
        if modify:
            # modifycvcs on one component (index in creation order): a distanceZ gets a new period, any component a new coefficient
            jc = r.randrange(n); cj = comps[order[jc]]
            Pn = r.choice([360.0, 360.0, 50.0, 10.0]) if cj[0] == "distanceZ" and r.random() < 0.8 else 0.0
            cn = r.choice([1.0, -1.0, 1.0, -1.0, 2.0])
            self.mod = (jc, Pn, cn)
            comps = [list(c) for c in comps]            # the expectation below is computed on the MODIFIED components
            comps[order[jc]][2] = cn
            if Pn:
                comps[order[jc]][1] = Pn
        # expected decision, recomputed independently: creation order = stable sort by keyword
        def per(c):
            return 360.0 if c[0] in SUM_PER360 else (c[1] if c[0] == "distanceZ" and c[1] != 0.0 else None)
        first = comps[order[0]]
        P = per(first)
        ok = P is not None and all(per(c) == P and abs(abs(c[2]) - 1.0) <= 1e-10 and c[3] == 1 for c in comps)
        self.P = P if ok else None
        self.c = wc0[order[0]] if ok else 0.0
        x2 = V.dyadic(r, -3, 3, bits=8) * 360.0
        m = r.random()
        if m < 0.5:
            x1 = x2 + r.choice([-2, -1, 1, 2]) * r.choice([360.0, 360.0, 50.0, 10.0])
        elif m < 0.6:
            x1 = x2 + 200.0
        else:
            x1 = V.dyadic(r, -3, 3, bits=8) * 360.0
        self.x1, self.x2 = x1, x2
        self.lines = [self.ln(x1, x2, x1), self.ln(x2, x1, x2), self.ln(x1, x1, x1)]

    def ln(self, a, b, w):
        head = "%d %s" % (len(self.comps), " ".join("%s %s %s %d %s" % (c[0], hx(c[1]), hx(c[2]), c[3], hx(c[4])) for c in self.comps))
        if self.mod:
            return "SUMM %s %d %s %s %s %s %s" % (head, self.mod[0], hx(self.mod[1]), hx(self.mod[2]), hx(a), hx(b), hx(w))
        return "SUM %s %s %s %s" % (head, hx(a), hx(b), hx(w))

    def desc(self):
        return ("" if not self.mod else "[after modifycvcs of component %d in creation order: %scomponentCoeff %g] " % (self.mod[0], "period %g, " % self.mod[1] if self.mod[1] else "", self.mod[2])) + " + ".join("%s%s%s%s" % ("" if c[2] == 1.0 else "%g*" % c[2], c[0], "{period %g}" % c[1] if c[1] else "", "^%d" % c[3] if c[3] != 1 else "") for c in self.comps)


def oracle_sgroup(g, impl, run):
    outs = [parse(impl[g.off + i]) for i in range(3)]
    rep = {"kind": "unit", "lines": g.lines, "impl": impl[g.off:g.off + 3]}
    if any(o is None or len(o) != 7 for o in outs):
        run.violation("sum:shape", "no numeric result for %s: %s" % (g.lines[0], impl[g.off]), rep)
        return
    flag, P, c, d2, lg, rg, w = outs[0]
    what = "the variable %s (config order)" % g.desc()
    if (flag != 0.0) != (g.P is not None) or (g.P is not None and (P != g.P or c != g.c)):
        run.violation("sum:decision", "%s is flagged %s (period %r, wrapAround %r) but %s" % (
            what, "periodic" if flag else "not periodic", P, c,
            "every component is periodic with period %r, coefficient +-1 and exponent 1 (first created component's wrapAround %r)" % (g.P, g.c) if g.P is not None
            else "its components are not all periodic with one common period, coefficient +-1 and exponent 1"), rep)
    d = g.x1 - g.x2
    if g.P is None:
        if g.x1 != g.x2 and not d2 > 0:
            run.violation("sum:zero", "%s is not periodic but dist2(%r, %r) = %r" % (what, g.x1, g.x2, d2), rep)
        elif not close(d2, d * d, 1e-9) or not close(lg, 2 * d, 1e-9):
            run.violation("sum:metric", "%s is not periodic but dist2(%r, %r) = %r, gradient %r (plain: %r, %r)" % (what, g.x1, g.x2, d2, lg, d * d, 2 * d), rep)
        if w != g.x1:
            run.violation("sum:wrap", "%s is not periodic but wrap(%r) = %r" % (what, g.x1, w), rep)
    else:
        img = d - math.floor(d / g.P + 0.5) * g.P
        if not close(d2, img * img, 1e-8) or not close(lg, 2 * img, 1e-8):
            run.violation("sum:metric", "%s is periodic with period %r but dist2(%r, %r) = %r, gradient %r (closest image %r)" % (what, g.P, g.x1, g.x2, d2, lg, img), rep)
        k = (g.x1 - w) / g.P
        if not (g.c - g.P / 2 <= w < g.c + g.P / 2) or abs(k - round(k)) > 1e-9:
            run.violation("sum:wrap", "%s is periodic (period %r, wrapAround %r) but wrap(%r) = %r" % (what, g.P, g.c, g.x1, w), rep)
    if not close(d2, outs[1][3], 1e-8):
        run.violation("sum:sym", "%s: dist2(x1,x2) = %r but dist2(x2,x1) = %r" % (what, d2, outs[1][3]), rep)
    if not close(rg, outs[1][4], 1e-8):
        run.violation("sum:rgrad", "%s: dist2_rgrad(x1,x2) = %r but dist2_lgrad(x2,x1) = %r" % (what, rg, outs[1][4]), rep)
    if not abs(outs[2][3]) <= 1e-12:
        run.violation("sum:self", "%s: dist2(x,x) = %r" % (what, outs[2][3]), rep)



# ---- consumers of the metric through real objects: harmonic restraint, finite-difference velocity, harmonic walls ----
def py_dist2(cls, P, a, b):
    """independent recomputation of the squared distance of each kind"""
    if cls == "scalar":
        return (a[0] - b[0]) ** 2
    if cls == "periodic":
        d = a[0] - b[0]; d -= math.floor(d / P + 0.5) * P
        return d * d
    if cls == "vector":
        return sum((u - v) ** 2 for u, v in zip(a, b))
    c = max(-1.0, min(1.0, sum(u * v for u, v in zip(a, b))))
    th = math.acos(c)
    if cls == "quat" and c <= 0:
        th = math.pi - th
    return th * th


class HGroup:
    """a harmonic restraint on a real variable: energy/force at the value, at equivalent values/centres, and +/-h along a (tangent) direction"""
    def __init__(self, r):
        m = r.random()
        self.P = None; self.c = 0.0; self.n = 1; self.manifold = False
        if m < 0.30:
            self.kind = r.choice(["dihedral", "spinAngle", "eulerPhi", "polarPhi", "dihedralSum"]); self.cls = "periodic"; self.P = 360.0; self.c = r.choice(WRAP_CENTRES)
        elif m < 0.50:
            self.P = r.choice([360.0, 2.0, 8.0, 25.0]); self.kind = "distanceZ:%r" % self.P; self.cls = "periodic"
            self.c = r.choice([0.0, self.P / 2, -self.P / 4, self.P / 8, 3 * self.P])
        elif m < 0.60:
            self.P = r.choice(SCRIPTED_PERIODS); self.kind = "scripted:%r" % self.P; self.cls = "periodic"; self.c = r.choice([0.0, self.P / 2, -self.P / 4])
        elif m < 0.68:
            self.kind = r.choice(["distance", "tilt", "mixDihedralDistance", "lcScalar"]); self.cls = "scalar"
        elif m < 0.80:
            self.kind = "distanceDir"; self.cls = "unit"; self.n = 3; self.manifold = True
        elif m < 0.92:
            self.kind = "orientation"; self.cls = "quat"; self.n = 4; self.manifold = True
        else:
            self.kind = r.choice(["cartesian", "lcVec3"]); self.cls = "vector"; self.n = 6 if self.kind == "cartesian" else 3
        P, c = self.P, self.c
        self.k = r.choice([1.0, 2.0, 0.5, 10.0]); self.w = r.choice([1.0, 1.0, 0.5, 2.0, 10.0])
        if self.cls == "periodic":
            if r.random() < 0.5:
                # value and centre on either side of the wrap boundary c + P/2 (e.g. centre 179, value -179)
                dc = V.dyadic(r, 0.0, 0.125, bits=8) * P; dx = V.dyadic(r, 0.0, 0.125, bits=8) * P
                xc = [c + P / 2 - dc]; x = [c - P / 2 + dx]
                if r.random() < 0.5:
                    x, xc = xc, x
            else:
                x = [V.dyadic(r, -2, 2, bits=8) * P]; xc = [V.dyadic(r, -2, 2, bits=8) * P]
        elif self.cls == "scalar":
            x = [V.dyadic(r, -50, 50)]; xc = [V.dyadic(r, -50, 50)]
        elif self.cls == "unit":
            x, xc = unit(r, 3), unit(r, 3)
            if r.random() < 0.15:
                xc = [-a for a in x]        # a restraint centred exactly opposite to the value: the force must stay finite
        elif self.cls == "quat":
            x, xc = unit(r, 4), unit(r, 4)
        else:
            x = [V.dyadic(r, -9, 9) for _ in range(self.n)]; xc = [V.dyadic(r, -9, 9) for _ in range(self.n)]
        self.x, self.xc = x, xc
        self.lines = [self.ln(x, xc)]
        self.inv = []
        if self.cls == "periodic":
            self.inv.append(len(self.lines)); self.lines.append(self.ln([x[0] + r.randint(-2, 2) * P], [xc[0] + r.randint(-2, 2) * P]))
            self.inv.append(len(self.lines)); self.lines.append(self.ln([pywrap(x[0], c, P)], [pywrap(xc[0], c, P)]))
        if self.cls == "quat":
            self.inv.append(len(self.lines)); self.lines.append(self.ln([-a for a in x], xc))
            self.inv.append(len(self.lines)); self.lines.append(self.ln(x, [-a for a in xc]))
        # finite difference of the energy along a (tangent) direction
        self.fd = None
        if self.cls == "periodic":
            d = (x[0] - xc[0]) / P; oncut = abs(d - round(d)) >= 0.49
        elif self.manifold:
            cc = sum(a * b for a, b in zip(x, xc))
            oncut = cc <= -0.98 or cc >= 0.9999 if self.cls == "unit" else not (0.02 < abs(cc) < 0.999)
        else:
            oncut = False
        if not oncut:
            h = 1e-4 if self.manifold else (2.0 ** -9 * P if P else 2.0 ** -6)
            if self.manifold:
                e = tangent(r, x); xp, xm = move_on_sphere(x, e, h), move_on_sphere(x, e, -h)
            else:
                e = [float(r.randint(-2, 2)) for _ in x]
                if not any(e):
                    e[0] = 1.0
                xp = [a + h * b for a, b in zip(x, e)]; xm = [a - h * b for a, b in zip(x, e)]
            self.fd = (len(self.lines), e, h)
            self.lines += [self.ln(xp, xc), self.ln(xm, xc)]

    def ln(self, a, b):
        return "HB %s %s %d %s %s %s %s" % (self.kind, hx(self.c), self.n, hx(self.k), hx(self.w), " ".join(map(hx, a)), " ".join(map(hx, b)))


def oracle_hgroup(g, impl, run):
    outs = [parse(impl[g.off + i]) for i in range(len(g.lines))]
    rep = {"kind": "unit", "lines": g.lines, "impl": impl[g.off:g.off + len(g.lines)]}
    sigk = g.kind.split(":")[0]
    if any(o is None or len(o) != 1 + g.n for o in outs):
        run.violation("restraint:%s:shape" % sigk, "no numeric result for %s: %s" % (g.lines[0], impl[g.off]), rep)
        return
    E, F = outs[0][0], outs[0][1:]
    what = "harmonic restraint (k=%r, width=%r) on %s%s centred at %r, value %r" % (g.k, g.w, g.kind, " (wrapAround %r)" % g.c if g.P else "", g.xc, g.x)
    if not all(math.isfinite(t) for t in outs[0]):
        run.violation("restraint:%s:finite" % sigk, "%s: energy %r, force %r are not finite" % (what, E, F), rep)
        return
    want = 0.5 * g.k / (g.w * g.w) * py_dist2(g.cls, g.P, g.x, g.xc)
    if not close(E, want, 1e-8):
        run.violation("restraint:%s:energy" % sigk, "%s: energy %r, but 0.5 k/w^2 times the squared distance of the variable's metric is %r" % (what, E, want), rep)
    for j in g.inv:
        if not close(E, outs[j][0], 1e-8):
            run.violation("restraint:%s:image" % sigk, "%s: energy changes from %r to %r for an equivalent value / centre (%s vs %s)" % (what, E, outs[j][0], g.lines[0], g.lines[j]), rep)
    if g.fd:
        j, e, h = g.fd
        fdv = (outs[j][0] - outs[j + 1][0]) / (2 * h)
        an = -sum(a * b for a, b in zip(F, e))
        tol = 1e-5 if g.manifold else 1e-8
        if not (abs(fdv - an) <= tol * max(1.0, abs(fdv), abs(an))):
            run.violation("restraint:%s:force" % sigk, "%s: minus the reported force along %s is %r but the finite difference of the energy is %r" % (what, e, an, fdv), rep)


def gen_consumers(r, n):
    """FV (finite-difference velocity) and HW (harmonic walls) lines with their own checks"""
    L = []
    for _ in range(n):
        if r.random() < 0.5:
            P = r.choice([360.0, 8.0, 25.0]); c = r.choice([0.0, P / 2, -P / 4])
            kind = r.choice(["dihedral", "polarPhi", "spinAngle"]) if P == 360.0 and r.random() < 0.5 else "distanceZ:%r" % P
            if kind in ("dihedral", "polarPhi", "spinAngle"):
                c = r.choice(WRAP_CENTRES)
            dt = r.choice([1.0, 0.5, 2.0])
            if r.random() < 0.5:      # a step across the wrap boundary
                xo = c + P / 2 - V.dyadic(r, 0, 0.0625, bits=8) * P; xn = c - P / 2 + V.dyadic(r, 0, 0.0625, bits=8) * P
                if r.random() < 0.5:
                    xo, xn = xn, xo
            else:
                xo = V.dyadic(r, -1, 1, bits=8) * P; xn = xo + V.dyadic(r, -0.4, 0.4, bits=8) * P
            L.append("FV %s %s 1 %s %s %s" % (kind, hx(c), hx(dt), hx(xo), hx(xn)))
        else:
            P = r.choice([360.0, 8.0, 0.0]); c = r.choice([0.0, P / 2, -P / 4]) if P else 0.0
            sc = P if P else 10.0
            lo = V.dyadic(r, -0.5, 0.5, bits=6) * sc + c; up = lo + V.dyadic(r, 0.0625, 0.75, bits=6) * sc
            x = V.dyadic(r, -1.5, 1.5, bits=8) * sc + c
            vals = [r.choice([1.0, 2.0, 0.5]), r.choice([1.0, 0.5, 2.0]), r.choice([1.0, 3.0]), r.choice([1.0, 0.25])]
            L.append("HW %s %s %s %s %s %s" % (hx(P), hx(c), " ".join(map(hx, vals)), hx(lo), hx(up), hx(x)))
            if P:
                # the same walls and value replaced by periodic images (marked: compared with the line before)
                L.append("HW %s %s %s %s %s %s IMG" % (hx(P), hx(c), " ".join(map(hx, vals)), hx(lo + r.randint(-1, 1) * P), hx(up + r.randint(-1, 1) * P), hx(x + r.randint(-2, 2) * P)))
    return L


def gen_hills(r, n):
    """one metadynamics hill (ML) / one OPES kernel (OK) evaluated at a value, half of them across the periodic boundary or at an
    equivalent quaternion; each followed by the same case with value and centre replaced by equivalent ones (marked IMG)"""
    L = []
    for _ in range(n):
        W = r.choice([1.0, 0.5, 2.0]); m = r.random()
        if m < 0.55:
            P = r.choice([360.0, 8.0, 25.0]); c = r.choice([0.0, P / 2, -P / 4])
            sg = r.choice([0.03125, 0.0625, 0.125]) * P
            if r.random() < 0.6:
                xc = c + P / 2 - V.dyadic(r, 0, 0.0625, bits=8) * P; x = c - P / 2 + V.dyadic(r, 0, 0.0625, bits=8) * P
            else:
                xc = V.dyadic(r, -1, 1, bits=8) * P; x = xc + V.dyadic(r, -0.45, 0.45, bits=8) * P
            x2, xc2 = x + r.randint(-2, 2) * P, xc + r.randint(-2, 2) * P
            if r.random() < 0.6:
                kind = "distanceZ:%r" % P
                L.append("ML %s %s 1 %s %s %s %s" % (kind, hx(c), hx(W), hx(sg), hx(x), hx(xc)))
                L.append("ML %s %s 1 %s %s %s %s IMG" % (kind, hx(c), hx(W), hx(sg), hx(x2), hx(xc2)))
            else:
                cut2 = r.choice([16.0, 36.0]); vac = math.exp(-0.5 * cut2)
                d = x - xc; d -= math.floor(d / P + 0.5) * P
                if abs((d / sg) ** 2 - cut2) < 0.05 * cut2:
                    continue        # too close to the kernel cut-off: which side is taken depends on rounding
                L.append("OK %s %s %s %s %s %s %s %s" % (hx(P), hx(c), hx(W), hx(xc), hx(sg), hx(cut2), hx(vac), hx(x)))
                L.append("OK %s %s %s %s %s %s %s %s IMG" % (hx(P), hx(c), hx(W), hx(xc2), hx(sg), hx(cut2), hx(vac), hx(x2)))
        elif m < 0.8:
            q, qc = unit(r, 4), unit(r, 4); sg = r.choice([0.25, 0.5, 1.0])
            L.append("ML orientation 0x0p+0 4 %s %s %s %s" % (hx(W), hx(sg), " ".join(map(hx, q)), " ".join(map(hx, qc))))
            flip = r.random() < 0.5
            L.append("ML orientation 0x0p+0 4 %s %s %s %s IMG" % (hx(W), hx(sg), " ".join(map(hx, [-a for a in q] if flip else q)), " ".join(map(hx, qc if flip else [-a for a in qc]))))
        else:
            a, b = unit(r, 3), unit(r, 3); sg = r.choice([0.25, 0.5, 1.0])
            L.append("ML distanceDir 0x0p+0 3 %s %s %s %s" % (hx(W), hx(sg), " ".join(map(hx, a)), " ".join(map(hx, b))))
    return L


def oracle_hill(line, out, prev):
    w = line.split(); o = parse(out)
    img = w[-1] == "IMG"
    if img:
        w = w[:-1]
    if o is None:
        return "no numeric result (%s)" % out
    if w[0] == "ML":
        n = int(w[3]); W, sg = float.fromhex(w[4]), float.fromhex(w[5])
        v = [float.fromhex(t) for t in w[6:]]; x, c = v[:n], v[n:]
        kind = w[1]
        cls, P = ("periodic", float(kind.split(":")[1])) if ":" in kind else (("quat", None) if n == 4 else ("unit", None))
        sq = py_dist2(cls, P, x, c) / (sg * sg)
        want = 0.0 if sq > 23.0 else W * math.exp(-0.5 * sq)
        if abs(sq - 23.0) > 1e-6 and not close(o[0], want, 1e-8):
            return "metadynamics hill (weight %r, width %r) on %s centred at %r evaluated at %r: energy %r, expected %r from the variable's distance" % (W, sg, kind, c, x, o[0], want)
        if not all(math.isfinite(t) for t in o):
            return "metadynamics hill on %s: energy/force %r not finite" % (kind, o)
    else:
        P, c, h, kc, sg, cut2, vac, x = [float.fromhex(t) for t in w[1:9]]
        d = x - kc; d -= math.floor(d / P + 0.5) * P
        n2 = (d / sg) ** 2
        want = 0.0 if n2 >= cut2 else h * (math.exp(-0.5 * n2) - vac)
        if not close(o[0], want, 1e-8) or not close(o[1], want, 1e-8):
            return "OPES kernel (height %r, centre %r, sigma %r) on a variable of period %r evaluated at %r: %r / %r, expected %r from the closest image" % (h, kc, sg, P, x, o[0], o[1], want)
    if img and prev is not None:
        po = parse(prev[1])
        if po and not close(po[0], o[0], 1e-8):
            return "the value of a hill / kernel changes from %r to %r when value and centre are replaced by equivalent ones (%s vs %s)" % (po[0], o[0], prev[0], line)
    return None


def oracle_consumer(line, out, prev):
    w = line.split(); o = parse(out)
    if o is None:
        return "no numeric result (%s)" % out
    if w[0] == "FV":
        kind = w[1]; c = float.fromhex(w[2]); dt, xo, xn = [float.fromhex(t) for t in w[4:7]]
        P = float(kind.split(":")[1]) if ":" in kind else 360.0
        disp = o[0] * dt
        k = (xn - xo - disp) / P
        if not (-P / 2 - 1e-9 <= disp <= P / 2 + 1e-9) or abs(k - round(k)) > 1e-9:
            return "finite-difference velocity of %s (period %r) from %r to %r over dt=%r is %r: not the closest-image displacement over dt" % (kind, P, xo, xn, dt, o[0])
    else:
        P, c, k, wd, lk, uk, lo, up, x = [float.fromhex(t) for t in w[1:10]]
        dist, E, F = o
        if P:
            im = lambda d: d - math.floor(d / P + 0.5) * P
            dl, du = im(x - lo), im(x - up)
            if abs(abs(dl) - abs(du)) < 1e-9 * P or abs(abs(dl) - P / 2) < 1e-9 * P or abs(abs(du) - P / 2) < 1e-9 * P:
                return None       # equidistant from both walls / on the cut: ambiguous
            want = (dl if dl < 0 else 0.0) if dl * dl < du * du else (du if du > 0 else 0.0)
        else:
            want = (x - lo) if x < lo else ((x - up) if x > up else 0.0)
        if not close(dist, want, 1e-9):
            return "harmonic walls [%r, %r] on a %s variable at %r: displacement %r, expected %r" % (lo, up, "periodic (period %r)" % P if P else "plain", x, dist, want)
        sc = uk if dist > 0 else lk
        if not close(E, 0.5 * k * sc / (wd * wd) * dist * dist, 1e-9) or not close(F, -k * sc / (wd * wd) * dist, 1e-9):
            return "harmonic walls: energy %r / force %r do not follow from the displacement %r" % (E, F, dist)
        if prev is not None and w[-1] == "IMG" and P:
            po = parse(prev[1])
            if po and (not close(po[1], E, 1e-9)):
                return "harmonic walls on a periodic variable: energy changes from %r to %r when value and walls are replaced by periodic images (%s vs %s)" % (po[1], E, prev[0], line)
    return None


class OMGroup:
    """OPES kernel merge on a periodic variable: base and period images of either kernel centre"""
    def __init__(self, r):
        self.P = r.choice([360.0, 2.0, 8.0]); self.c = V.dyadic(r, -4, 4, bits=2)
        P = self.P
        self.h1 = V.dyadic(r, 0.25, 4, bits=4); self.h2 = V.dyadic(r, 0.25, 4, bits=4)
        self.k1 = V.dyadic(r, -1, 1, bits=8) * P; self.k2 = V.dyadic(r, -1, 1, bits=8) * P
        if r.random() < 0.3:     # centres on either side of the wrap boundary
            self.k1 = self.c + P / 2 - V.dyadic(r, 0, 0.125, bits=8) * P; self.k2 = self.c - P / 2 + V.dyadic(r, 0, 0.125, bits=8) * P
        s1 = V.dyadic(r, 0.125, 2, bits=4); s2 = V.dyadic(r, 0.125, 2, bits=4)
        f = lambda k1, k2: "OM %s %s %s %s %s %s %s %s" % (hx(P), hx(self.c), hx(self.h1), hx(k1), hx(s1), hx(self.h2), hx(k2), hx(s2))
        self.lines = [f(self.k1, self.k2), f(self.k1 + r.randint(-2, 2) * P, self.k2), f(self.k1, self.k2 + r.randint(-2, 2) * P)]


def oracle_omgroup(g, impl, run):
    outs = [parse(impl[g.off + i]) for i in range(3)]
    rep = {"kind": "unit", "lines": g.lines, "impl": impl[g.off:g.off + 3]}
    if any(o is None or len(o) != 2 for o in outs):
        run.violation("opes:shape", "no numeric result for %s: %s" % (g.lines[0], impl[g.off]), rep)
        return
    P, c = g.P, g.c
    d = g.k1 - g.k2; img = d - math.floor(d / P + 0.5) * P
    if abs(abs(img) - P / 2) < 1e-9 * P:
        return      # the two centres are exactly half a period apart: which image is "closest" is ambiguous
    mean = (g.h1 * (g.k2 + img) + g.h2 * g.k2) / (g.h1 + g.h2)
    y = outs[0][0]
    k = (mean - y) / P
    if not (c - P / 2 <= y < c + P / 2) or abs(k - round(k)) > 1e-9:
        run.violation("opes:merge-centre", "merged OPES kernel centre of %r (height %r) and %r (height %r), period %r wrapAround %r, is %r: not the value of [c-P/2,c+P/2) "
                      "equivalent to the height-weighted mean %r of the closest images" % (g.k1, g.h1, g.k2, g.h2, P, c, y, mean), rep)
    for j in (1, 2):
        dd = (outs[j][0] - y) / P
        if abs(dd - round(dd)) > 1e-9 or (abs(outs[j][0] - y) > 1e-9 * P and abs(abs(y - c) - P / 2) > 1e-9 * P):
            run.violation("opes:merge-image", "merged OPES kernel centre changes from %r to %r when a kernel centre is replaced by a periodic image: %s vs %s" % (y, outs[j][0], g.lines[0], g.lines[j]), rep)


def gen_misc(r, n):
    L = []
    for k in range(n):
        kind = r.choice(["WRAP", "WRAP", "ISC", "IV3", "IUV", "IVEC", "IQ", "IQ", "ACUV", "ACQ", "INN", "AR", "AR", "ERR", "MR", "MR"])
        lam = r.choice([0.0, 1.0, 0.5, 0.25, V.dyadic(r, 0, 1, bits=6)])
        if kind == "WRAP":
            P = r.choice([360.0, 2.0, 1.0, 8.0, 0.5, 6.0, 2.0 ** -20, 2.0 ** 20]); c = V.dyadic(r, -4, 4, bits=2)
            m = r.random()
            x = c + P / 2 * r.choice([-1, 1]) + r.randint(-2, 2) * P if m < 0.3 else V.dyadic(r, -4, 4, bits=8) * P
            L.append("WRAP %s %s %s" % (hx(P), hx(c), hx(x)))
        elif kind == "ISC":
            L.append("ISC %s %s %s" % (hx(V.dyadic(r, -9, 9)), hx(V.dyadic(r, -9, 9)), hx(lam)))
        elif kind == "IV3":
            L.append("IV3 %s %s %s" % (" ".join(hx(V.dyadic(r, -9, 9)) for _ in range(3)), " ".join(hx(V.dyadic(r, -9, 9)) for _ in range(3)), hx(lam)))
        elif kind == "IUV":
            a = unit(r, 3)
            b = [-x for x in a] if r.random() < 0.15 else unit(r, 3)     # antipodal end points: the documented undefined case at 1/2
            L.append("IUV %s %s %s" % (" ".join(map(hx, a)), " ".join(map(hx, b)), hx(lam)))
        elif kind == "IQ":
            a = r.choice([unit(r, 4), dyadic_unit4(r)])
            m = r.random()
            b = [-x for x in a] if m < 0.2 else (list(a) if m < 0.3 else r.choice([unit(r, 4), dyadic_unit4(r)]))   # opposite (equivalent) / identical / generic
            L.append("IQ %s %s %s" % (" ".join(map(hx, a)), " ".join(map(hx, b)), hx(lam)))
        elif kind == "ACUV":
            L.append("AC UV %s" % " ".join(hx(V.dyadic(r, -9, 9)) for _ in range(3)))
        elif kind == "ACQ":
            L.append("AC Q %s" % " ".join(hx(V.dyadic(r, -9, 9)) for _ in range(4)))
        elif kind == "INN":
            t = r.choice(["UV", "V3", "Q", "VEC"])
            if t == "UV":
                L.append("INN UV %s %s" % (" ".join(map(hx, unit(r, 3))), " ".join(map(hx, unit(r, 3)))))
            elif t == "V3":
                L.append("INN V3 %s %s" % (" ".join(hx(V.dyadic(r, -9, 9)) for _ in range(3)), " ".join(hx(V.dyadic(r, -9, 9)) for _ in range(3))))
            elif t == "Q":
                L.append("INN Q %s %s" % (" ".join(map(hx, unit(r, 4))), " ".join(map(hx, unit(r, 4)))))
            else:
                nn = r.randint(1, 5)
                L.append("INN VEC %d %s %s" % (nn, " ".join(hx(V.dyadic(r, -9, 9)) for _ in range(nn)), " ".join(hx(V.dyadic(r, -9, 9)) for _ in range(nn))))
        elif kind == "AR":
            t = r.choice(["SC", "UV", "V3", "Q", "VEC"]); f = r.choice([2.0, -0.5, 0.25, 3.0])
            if t == "SC":
                L.append("AR SC %s %s %s" % (hx(f), hx(V.dyadic(r, -9, 9)), hx(V.dyadic(r, -9, 9))))
            elif t in ("UV", "V3"):
                L.append("AR %s %s %s %s" % (t, hx(f), " ".join(hx(V.dyadic(r, -9, 9)) for _ in range(3)), " ".join(hx(V.dyadic(r, -9, 9)) for _ in range(3))))
            elif t == "Q":
                L.append("AR Q %s %s %s" % (hx(f), " ".join(hx(V.dyadic(r, -9, 9)) for _ in range(4)), " ".join(hx(V.dyadic(r, -9, 9)) for _ in range(4))))
            else:
                nn = r.randint(1, 5)
                L.append("AR VEC %s %d %s %s" % (hx(f), nn, " ".join(hx(V.dyadic(r, -9, 9)) for _ in range(nn)), " ".join(hx(V.dyadic(r, -9, 9)) for _ in range(nn))))
        elif kind == "ERR":
            L.append(r.choice(["ERR UVD", "ERR QD", "ERR IL %s" % hx(r.choice([-0.25, 1.5, 2.0]))]))
        elif kind == "MR":
            # moving restraint centre on a periodic variable: end points possibly several periods apart / outside the wrap interval
            P = r.choice([360.0, 2.0, 8.0, 0.5]); c = V.dyadic(r, -4, 4, bits=2)
            x0 = V.dyadic(r, -3, 3, bits=6) * P; x1 = V.dyadic(r, -3, 3, bits=6) * P
            lams = [0.0, 1.0] + [V.dyadic(r, 0, 1, bits=5) for _ in range(3)]
            L.append("MR %s %s %s %s %s" % (hx(P), hx(c), hx(x0), hx(x1), " ".join(map(hx, lams))))
        else:
            nn = r.randint(1, 5)
            L.append("IVEC %d %s %s %s" % (nn, " ".join(hx(V.dyadic(r, -9, 9)) for _ in range(nn)), " ".join(hx(V.dyadic(r, -9, 9)) for _ in range(nn)), hx(lam)))
    return L


def gen_obj(r, n):
    """histories on one periodic variable: modifications of period / wrapping centre (modifycvcs) interleaved
    with colvar::wrap and colvar::dist2 calls; values aimed at the edges of the interval in force"""
    L = []
    periods = [360.0, 2.0, 1.0, 8.0, 0.5, 6.0, 25.0, 10.0]
    for k in range(n):
        P = r.choice(periods); c = V.dyadic(r, -4, 4, bits=2)
        w = ["OBJ", hx(P), hx(c)]
        for j in range(r.randint(2, 7)):
            m = r.random()
            if m < 0.35:
                P = r.choice(periods); c = V.dyadic(r, -4, 4, bits=2)
                w += [r.choice(["M", "M", "S"]), hx(P), hx(c)]      # modifycvcs, or the engine-side colvar::set_cvc_param
            elif m < 0.75:
                x = c + P / 2 * r.choice([-1, 1]) + r.randint(-2, 2) * P if r.random() < 0.3 else c + V.dyadic(r, -3, 3, bits=8) * P
                w += ["W", hx(x)]
            elif m < 0.88:
                w += ["D", hx(V.dyadic(r, -9, 9) * P / 4), hx(V.dyadic(r, -9, 9) * P / 4)]
            else:
                w += ["X", hx(V.dyadic(r, -9, 9) * P / 4), hx(V.dyadic(r, -9, 9) * P / 4)]
        if "M" not in w and "S" not in w:
            P = r.choice(periods); c = V.dyadic(r, -4, 4, bits=2)
            w += ["M", hx(P), hx(c), "W", hx(c + V.dyadic(r, -3, 3, bits=8) * P)]
        if "W" not in w and "D" not in w and "X" not in w:
            w += ["W", hx(c + V.dyadic(r, -3, 3, bits=8) * P)]
        L.append(" ".join(w))
    return L


def oracle_obj(line, out):
    """on the implementation's own outputs: every wrap result lies in the one-period interval around the centre IN FORCE
    at the time of the call, on a value equivalent under the period in force; dist2 = (shortest image)^2, grad = 2*image"""
    w = line.split(); o = parse(out)
    if o is None:
        return "no numeric result (%s)" % out
    P, c = float.fromhex(w[1]), float.fromhex(w[2])
    i = 3; k = 0
    while i < len(w):
        if w[i] in ("M", "S"):
            P, c = float.fromhex(w[i + 1]), float.fromhex(w[i + 2]); i += 3
        elif w[i] == "W":
            x = float.fromhex(w[i + 1]); i += 2
            if k >= len(o):
                return "missing output"
            y = o[k]; k += 1
            n = (x - y) / P
            if not (c - P / 2 <= y < c + P / 2) or abs(n - round(n)) > 1e-9:
                return ("after the history %s: wrap(%r) returned %r, which is not the equivalent value in [c-P/2, c+P/2) "
                        "for the period %r and centre %r in force" % (" ".join(w[:i - 2]), x, y, P, c))
        else:
            wrapped = w[i] == "X"
            x1, x2 = float.fromhex(w[i + 1]), float.fromhex(w[i + 2]); i += 3
            if k + 1 >= len(o):
                return "missing output"
            d2, g = o[k], o[k + 1]; k += 2
            d = x1 - x2
            img = d - math.floor(d / P + 0.5) * P
            if not close(d2, img * img, 1e-8) or not close(g, 2 * img, 1e-8):
                return ("after the history %s: %s(%r,%r) = %r, gradient %r; the shortest image under the period %r in force is %r"
                        % (" ".join(w[:i - 3]), "dist2 of the wrapped values of " if wrapped else "dist2", x1, x2, d2, g, P, img))
    return None


def oracle_misc(line, out):
    w = line.split(); o = parse(out)
    if o is None:
        return "no numeric result (%s)" % out
    if w[0] == "WRAP":
        P, c, x = [float.fromhex(t) for t in w[1:4]]
        y = o[0]
        n = (x - y) / P
        if not (c - P / 2 <= y < c + P / 2) or abs(n - round(n)) > 1e-9:
            return "wrap(%r) with period %r around %r returned %r: not the equivalent value in [c-P/2, c+P/2)" % (x, P, c, y)
    elif w[0] in ("IUV", "IQ"):
        nn = 3 if w[0] == "IUV" else 4
        lam = float.fromhex(w[-1])
        x1 = [float.fromhex(t) for t in w[1:1 + nn]]; x2 = [float.fromhex(t) for t in w[1 + nn:1 + 2 * nn]]
        val, err = o[:nn], o[nn]
        what = "unit vector" if nn == 3 else "quaternion"
        if err == 0.0:
            # no documented "undefined" error was raised: the result must be on the manifold
            if any(math.isnan(a) for a in val) or not close(sum(a * a for a in val), 1.0):
                return "interpolation between the %ss %r and %r at lambda=%r returned %r without raising the undefined-result error: not on the manifold" % (what, x1, x2, lam, val)
            # end points: the value itself; for quaternions q and -q are the same point of the manifold (the tie still pins which one)
            same = lambda u, v: all(close(a, b) for a, b in zip(u, v)) or (nn == 4 and all(close(a, -b) for a, b in zip(u, v)))
            if lam == 0.0 and not same(val, x1):
                return "interpolation between %r and %r at lambda=0 returned %r, not the first end point" % (x1, x2, val)
            if lam == 1.0 and not same(val, x2):
                return "interpolation between %r and %r at lambda=1 returned %r, not the second end point" % (x1, x2, val)
        else:
            lin = [(1 - lam) * a + lam * b for a, b in zip(x1, x2)]
            if math.sqrt(sum(a * a for a in lin)) > 1e-3:
                return "interpolation between %r and %r at lambda=%r raised the undefined-result error although the combination %r is far from zero" % (x1, x2, lam, lin)
    elif w[0] in ("ISC", "IV3", "IVEC"):
        v = [float.fromhex(t) for t in (w[2:] if w[0] == "IVEC" else w[1:])]
        lam = v[-1]; nn = (len(v) - 1) // 2
        x1, x2 = v[:nn], v[nn:2 * nn]
        if lam == 0.0 and not all(close(a, b) for a, b in zip(o, x1)):
            return "interpolation between %r and %r at lambda=0 returned %r, not the first end point" % (x1, x2, o)
        if lam == 1.0 and not all(close(a, b) for a, b in zip(o, x2)):
            return "interpolation between %r and %r at lambda=1 returned %r, not the second end point" % (x1, x2, o)
    elif w[0] == "AC":
        x = [float.fromhex(t) for t in w[2:]]
        nrm = math.sqrt(sum(a * a for a in x))
        if nrm > 0:
            if not close(sum(a * a for a in o), 1.0):
                return "apply_constraints(%r) = %r is not normalised" % (x, o)
            if not all(close(a, b / nrm) for a, b in zip(o, x)):
                return "apply_constraints(%r) = %r is not the value divided by its norm" % (x, o)
    elif w[0] == "INN":
        v = [float.fromhex(t) for t in (w[3:] if w[1] == "VEC" else w[2:])]
        a, b = v[:len(v) // 2], v[len(v) // 2:]
        if not close(o[0], sum(x * y for x, y in zip(a, b))) or not close(o[1], sum(x * x for x in a)):
            return "inner product / squared norm of %r and %r reported as %r" % (a, b, o)
        if w[1] in ("UV", "Q") and abs(o[0]) > 1 + 1e-12:
            return "inner product of two values on the unit sphere is %r" % o[0]
    elif w[0] == "AR":
        f = float.fromhex(w[2])
        v = [float.fromhex(t) for t in (w[4:] if w[1] == "VEC" else w[3:])]
        nn = len(v) // 2; a, b = v[:nn], v[nn:]
        want = [x + y for x, y in zip(a, b)] + [x - y for x, y in zip(a, b)] + [f * x for x in a] + [x / f for x in a]
        if len(o) != 4 * nn or not all(close(x, y) for x, y in zip(o, want)):
            return "colvarvalue arithmetic on %r and %r (factor %r): sum, difference, product, quotient reported as %r" % (a, b, f, o)
    elif w[0] == "ERR":
        if o != [1.0, 1.0]:
            return "%s: a documented error (distance between derivative-type values / interpolation parameter outside [0,1]) was not raised" % line
    elif w[0] == "MR":
        P, c, x0, x1 = [float.fromhex(t) for t in w[1:5]]
        lams = [float.fromhex(t) for t in w[5:]]
        for lam, y in zip(lams, o):
            lin = (1 - lam) * x0 + lam * x1
            n = (lin - y) / P
            if not (c - P / 2 <= y < c + P / 2) or abs(n - round(n)) > 1e-9:
                return ("moving restraint between centres %r and %r (period %r, wrapAround %r): the centre at lambda=%r is %r, "
                        "not the value of [c-P/2, c+P/2) equivalent to the interpolated centre %r" % (x0, x1, P, c, lam, y, lin))
    return None


def setup():
    V.extract_model("C18", "coq/C18/Extract_C18.v", "props/C18/driver.ml", ["ocaml/fops.ml"])
    V.build_prog("c18unit", ["props/C18/unit.cpp"])


def check(run):
    r = V.rng("C18")
    quick = run.tier == "quick"
    run.cov["rule"] = ("groups of related calls to dist2/dist2_grad (colvarvalue for scalar, 3-vector, unit vector, quaternion, vector; real colvar objects for "
                       "periodic distanceZ and distanceVec with/without forceNoPBC and cell): base, swapped, identical arguments, +/-h along a (tangent) direction, "
                       "period/sign/lattice images; ~30% of periodic cases exactly on the half-period cut; component groups on real single-component variables of 17 kinds "
                       "(distance, dihedral, spinAngle, eulerPhi/Psi/Theta, polarPhi/Theta, tilt, orientationAngle, distanceDir, orientation, cartesian, distancePairs, a periodic scripted "
                       "variable, a coefficient-2 dihedral, a sum and a difference of two dihedrals, sums of components with different periodicities (60% of them a whole number of one component's periods apart), "
                       "linearCombination with scalar / 3-vector value, gspathCV/gzpathCV/aspathCV/azpathCV; 6 wrapping centres): dist2/lgrad/rgrad base, swapped, identical, period image, wrapped arguments, sign flip, "
                       "colvar::wrap (30% on the interval edge), +/-h in each argument; OPES kernel-merge groups (base + period image of either centre, 30% across the wrap boundary); "
                       "wrap, interpolate (all types incl. quaternions: 20% opposite, 10% identical end points; 15% antipodal unit vectors), apply_constraints, inner/norm2, moving-restraint centres, "
                       "real harmonic restraints on 20 kinds of variables (50% of periodic cases with centre and value on either side of the wrap boundary; equivalent values/centres; +/-h of the energy), "
                       "harmonic walls and finite-difference velocities across the boundary, colvarvalue arithmetic, documented error branches; sums of 1..5 components (angle, dihedral, distance, distanceZ with period 0/360/50/10, eulerPhi, polarPhi, spinAngle; coefficients +-1, 5% others; exponent 1, 4% 2; config order shuffled; 45% all of period 360 with, in 60% of those, "
                       "one odd component anywhere; values whole periods of some component apart): colvar::init decision + dist2/lgrad/rgrad/wrap; distanceVec in triclinic cells (base, swapped, identical, lattice image, +/-h in each argument; never on the cut), pairs of unit vectors from the pool with opposites and one-ulp neighbours, "
                       "and histories on one periodic variable object (modifycvcs changes of period/wrapAround interleaved with colvar::wrap, colvar::dist2 and wrap-then-dist2 calls). "
                       "distinct = distinct base line; non-trivial = arguments differ")
    run.assumptions += ["theorems are about the R instance of the model; the tie runs the float instance and compares with relative tolerance 1e-9 (acos, sqrt) and exactly for dyadic cases",
                        "the model is of the code after the fix: commits of C18 (fix-C18-6: null gradient at opposite unit vectors, periodicity after modifycvcs; fix-C18-3: metric of sums of components with different periodicities; fix-C18: dist2_rgrad, wrap of spinAngle/eulerPhi/eulerPsi, periodic scripted distance, q/-q interpolation NaN)",
                        "NaN is outside the real-number model: the 0/0 of interpolating q and -q at 1/2 is seen by the oracle and the float tie only"]
    groups = gen_groups(r, 460 if quick else 20000)
    misc = gen_misc(r, 250 if quick else 8000)
    misc += gen_obj(r, 150 if quick else 3000)
    cgroups = [CGroup(r) for _ in range(350 if quick else 15000)]
    omgroups = [OMGroup(r) for _ in range(60 if quick else 1500)]
    tgroups = [TGroup(r) for _ in range(120 if quick else 4000)]
    # every pair of a pool of the tie's unit vectors (and their opposites / one-ulp neighbours): dist2 and gradient must be finite
    pool = [g.x1 for g in groups if g.kind == "UV"][:40 if quick else 400]
    uvpairs = []
    for i, u in enumerate(pool):
        for v in (u, [-t for t in u], [math.nextafter(t, 2.0) for t in u], [math.nextafter(t, -2.0) for t in u], pool[(i * 7 + 3) % len(pool)], pool[(i * 13 + 5) % len(pool)]):
            uvpairs.append(fmt("UV", "", u, v))
    hgroups = [HGroup(r) for _ in range(150 if quick else 6000)]
    cons = gen_consumers(r, 100 if quick else 4000)
    hills = gen_hills(r, 45 if quick else 2000)
    sgroups = [SGroup(r, (pos, how)) for pos in range(3) for how in range(4)] + [SGroup(r) for _ in range(110 if quick else 5000)] + [SGroup(r, modify=True) for _ in range(50 if quick else 1500)]
    lines = []
    for g in groups + cgroups + omgroups + tgroups + sgroups + hgroups:
        g.off = len(lines)
        lines += g.lines
    uvoff = len(lines)
    lines += uvpairs
    coff = len(lines)
    lines += cons
    hloff = len(lines)
    lines += hills
    moff = len(lines)
    lines += misc
    if os.environ.get("C18_DUMP_LINES"):
        open(os.environ["C18_DUMP_LINES"], "w").write("\n".join(lines) + "\n")
    # the implementation is built and run in a thread while the property file is proved (the Print Assumptions of the theorems
    # dominate the wall time); the model is extracted and run afterwards
    side = {}

    def impl_side():
        try:
            side["exe"] = V.build_prog("c18unit", ["props/C18/unit.cpp"])
            side["out"] = V.run_lines(side["exe"], lines, cwd=V.scratch("C18"))
        except Exception as e:      # reported below, in the main thread
            side["err"] = e
    th = threading.Thread(target=impl_side)
    th.start()
    st = V.standard_start(run, PROP, "coq/C18/Extract_C18.v", "props/C18/driver.ml", None)
    th.join()
    if st is None:
        return
    model, _ = st
    if "err" in side:
        e = side["err"]
        if not isinstance(e, V.InfraError) or "compilation of /repo failed" in str(e):
            raise e
        run.violation("tie:harness-build", "the harness no longer builds against the tree: %s" % str(e)[-800:],
                      {"kind": "harness-build", "log": str(e)[-3000:]}, found_input=False)
        return
    rc1, impl, e1 = side["out"]
    rc2, mod, e2 = V.run_lines(model, lines)
    if len(impl) != len(lines):
        run.violation("unit:crash", "the C18 unit driver died (rc=%d) after %d of %d cases: %s" % (rc1, len(impl), len(lines), e1[-300:]),
                      {"kind": "unit", "case": lines[len(impl)] if len(impl) < len(lines) else None})
        return
    # correspondence: every line
    for i, (l, a) in enumerate(zip(lines, impl)):
        b = mod[i] if i < len(mod) else "<none>"
        pa, pb = parse(a), parse(b)
        if pa is None or pb is None or len(pa) != len(pb) or not all(close(x, y) or (math.isnan(x) and math.isnan(y)) for x, y in zip(pa, pb)):
            run.mismatch("value:" + l.split()[0], l, a, b)
    # property oracles on the implementation
    for g in groups:
        base = parse(impl[g.off]); sw = parse(impl[g.off + 1]); same = parse(impl[g.off + 2])
        nontriv = g.x1 != g.x2
        run.count(g.lines[0], nontriv)
        run.dist("group:" + g.kind + ("" if g.kind != "DV" else g.pre[:3].replace(" ", "")))
        rep = {"kind": "unit", "lines": g.lines, "impl": impl[g.off:g.off + len(g.lines)]}
        sigk = g.kind + (g.pre[:3].replace(" ", "") if g.kind == "DV" else "")
        if base is None or sw is None or same is None:
            run.violation("metric:%s:nonnumeric" % sigk, "no numeric result for %s" % g.lines[0], rep)
            continue
        d2 = base[0]
        if not (d2 >= 0):
            run.violation("metric:%s:nonneg" % sigk, "dist2 = %r is negative for %s" % (d2, g.lines[0]), rep)
        if not close(d2, sw[0]):
            run.violation("metric:%s:sym" % sigk, "dist2(x1,x2) = %r but dist2(x2,x1) = %r for %s" % (d2, sw[0], g.lines[0]), rep)
        if not abs(same[0]) <= 1e-12:
            run.violation("metric:%s:self" % sigk, "dist2(x,x) = %r is not zero for %s" % (same[0], g.lines[2]), rep)
        if nontriv and g.kind in ("SC", "V3", "VEC") and not d2 > 0:
            run.violation("metric:%s:zero" % sigk, "dist2 = 0 for different values %s" % g.lines[0], rep)
        if g.kind == "DV":
            # gradient with respect to the second argument = left gradient with the arguments exchanged
            if len(base) != 7 or len(sw) != 7 or not all(close(a, b, 1e-8) for a, b in zip(base[4:7], sw[1:4])):
                run.violation("metric:%s:rgrad" % sigk, "distanceVec: dist2_rgrad(x1,x2) = %r but dist2_lgrad(x2,x1) = %r for %s" % (base[4:7], sw[1:4], g.lines[0]), rep)
        for j in g.inv:
            o = parse(impl[g.off + j])
            if o is None or not close(d2, o[0], 1e-8):
                run.violation("metric:%s:image" % sigk, "dist2 changes from %r to %r under a period / sign / lattice image: %s vs %s" % (d2, o and o[0], g.lines[0], g.lines[j]), rep)
        if g.fd:
            j, e, h = g.fd
            p, m = parse(impl[g.off + j]), parse(impl[g.off + j + 1])
            grad = base[1:1 + len(g.x1)]
            if p is None or m is None or len(grad) != len(e):
                run.violation("grad:%s:shape" % sigk, "gradient has the wrong shape for %s" % g.lines[0], rep)
                continue
            fdv = (p[0] - m[0]) / (2 * h)
            an = sum(a * b for a, b in zip(grad, e))
            tol = 1e-5 if g.manifold else 1e-8
            # flat types: relative to the data scale (the central difference of a quadratic is exact up to rounding)
            if not (abs(fdv - an) <= tol * max(1.0 if (g.manifold or g.kind in ("PER", "DV")) else h, abs(fdv), abs(an))):
                run.violation("grad:%s:fd" % sigk,
                              "reported gradient along direction %s is %r but the finite difference of dist2 is %r for %s" % (e, an, fdv, g.lines[0]), rep)
    for g in cgroups:
        run.count(g.lines[0], g.x1 != g.x2)
        run.dist("comp:" + g.kind.split(":")[0])
        oracle_cgroup(g, impl, run)
    for g in hgroups:
        run.count(g.lines[0], g.x != g.xc)
        run.dist("restraint:" + g.kind.split(":")[0])
        oracle_hgroup(g, impl, run)
    prev = None
    for i, l in enumerate(cons):
        run.count(l, True)
        run.dist("consumer:" + l.split()[0])
        bad = oracle_consumer(l, impl[coff + i], prev)
        if bad:
            run.violation("consumer:" + l.split()[0], bad, {"kind": "unit", "lines": [l] if prev is None else [prev[0], l], "impl": [impl[coff + i]]})
        prev = (l, impl[coff + i])
    prev = None
    for i, l in enumerate(hills):
        run.count(l, True)
        run.dist("hill:" + l.split()[0])
        bad = oracle_hill(l, impl[hloff + i], prev)
        if bad:
            run.violation("hill:" + l.split()[0], bad, {"kind": "unit", "lines": [l] if prev is None else [prev[0], l], "impl": [impl[hloff + i]]})
        prev = (l, impl[hloff + i])
    for g in sgroups:
        run.count(g.lines[0], g.x1 != g.x2)
        run.dist("sum:n=%d:%s" % (len(g.comps), "periodic" if g.P is not None else "plain"))
        oracle_sgroup(g, impl, run)
    for g in tgroups:
        run.count(g.lines[0], g.x1 != g.x2)
        run.dist("triclinic")
        oracle_tgroup(g, impl, run)
    for i, l in enumerate(uvpairs):
        run.count(l, True)
        run.dist("uv-finite")
        o = parse(impl[uvoff + i])
        if o is None or len(o) != 4 or not all(math.isfinite(t) for t in o) or not (-1e-12 <= o[0] <= math.pi ** 2 * (1 + 1e-12)):
            run.violation("metric:UV:finite", "dist2 / gradient between the unit vectors of %s is not finite or outside [0, pi^2]: %s" % (l, impl[uvoff + i]),
                          {"kind": "unit", "lines": [l], "impl": [impl[uvoff + i]]})
    for g in omgroups:
        run.count(g.lines[0], True)
        run.dist("opes-merge")
        oracle_omgroup(g, impl, run)
    for i, l in enumerate(misc):
        run.count(l, True)
        run.dist("misc:" + l.split()[0])
        bad = oracle_obj(l, impl[moff + i]) if l.startswith("OBJ") else oracle_misc(l, impl[moff + i])
        if bad:
            run.violation("misc:" + l.split()[0], bad, {"kind": "unit", "lines": [l], "impl": [impl[moff + i]]})
    run.sample({"group": groups[0].lines, "impl": impl[groups[0].off:groups[0].off + len(groups[0].lines)]})
    run.sample({"misc": misc[0], "impl": impl[moff]})
    run.cov["correspondence"].update({"lines": len(lines)})


def replay(path):
    j = json.load(open(path))
    print(json.dumps(j, indent=1)[:3000])
    rp = j["replay"]
    if rp.get("kind") == "unit":
        unitp = V.build_prog("c18unit", ["props/C18/unit.cpp"])
        model = V.extract_model("C18", "coq/C18/Extract_C18.v", "props/C18/driver.ml", ["ocaml/fops.ml"])
        print("impl :", V.run_lines(unitp, rp["lines"], cwd=V.scratch("C18"))[1])
        print("model:", V.run_lines(model, rp["lines"])[1])
    return 0
