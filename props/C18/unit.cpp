// C18 unit driver: calls colvarvalue::dist2/dist2_grad/interpolate and, through real colvar objects,
// colvar::dist2/dist2_lgrad/wrap (periodic distanceZ, distanceVec with and without forceNoPBC).
#include "vsim.h"
static double num(std::string const &s) { return strtod(s.c_str(), NULL); }
static std::string H(double x) { return vs_hex(x); }

int main()
{
  vsim_session S(&std::cout);
  S.eng.resize(2);
  S.fresh();
  std::map<std::string, colvar *> cache;
  int ncv = 0;
  auto get_cv = [&](std::string const &key, std::string const &body) -> colvar * {
    auto it = cache.find(key);
    if (it != cache.end()) return it->second;
    std::string name = "c" + cvm::to_str(ncv++);
    std::string conf = "colvar {\n  name " + name + "\n" + body + "}\n";
    cvm::clear_error();
    S.proxy->colvars->read_config_string(conf);
    colvar *c = cvm::colvar_by_name(name);
    cvm::clear_error();
    cache[key] = c;
    return c;
  };
  std::string line;
  while (std::getline(std::cin, line)) {
    std::istringstream is(line);
    std::string cmd; if (!(is >> cmd)) continue;
    std::vector<std::string> a; std::string w; while (is >> w) a.push_back(w);
    size_t p = 0;
    auto nf = [&]() { return num(a[p++]); };
    auto ni = [&]() { return atoi(a[p++].c_str()); };
    auto v3 = [&]() { double x = nf(), y = nf(), z = nf(); return cvm::rvector(x, y, z); };
    std::ostream &o = std::cout;
    cvm::clear_error();
    if (cmd == "SC") {
      colvarvalue x1(nf()), x2(nf());
      o << H(x1.dist2(x2)) << " " << vs_hex(x1.dist2_grad(x2)) << "\n";
    } else if (cmd == "PER" || cmd == "WRAP") {
      std::string P = a[p++], c = a[p++];
      char buf[256]; snprintf(buf, sizeof(buf), "%.17g %.17g", num(P), num(c));
      char body[1024];
      snprintf(body, sizeof(body), "  distanceZ {\n    main { atomNumbers 1 }\n    ref { dummyAtom (0,0,0) }\n    axis (0,0,1)\n    period %.17g\n    wrapAround %.17g\n  }\n", num(P), num(c));
      colvar *cv = get_cv(std::string("per ") + buf, body);
      if (!cv) { o << "noconfig\n"; continue; }
      if (cmd == "PER") {
        colvarvalue x1(nf()), x2(nf());
        o << H(cv->dist2(x1, x2)) << " " << vs_hex(cv->dist2_lgrad(x1, x2)) << "\n";
      } else {
        colvarvalue x(nf());
        cv->wrap(x);
        o << vs_hex(x) << "\n";
      }
    } else if (cmd == "V3") {
      colvarvalue x1(v3(), colvarvalue::type_3vector), x2(v3(), colvarvalue::type_3vector);
      o << H(x1.dist2(x2)) << " " << vs_hex(x1.dist2_grad(x2)) << "\n";
    } else if (cmd == "UV") {
      colvarvalue x1(v3(), colvarvalue::type_unit3vector), x2(v3(), colvarvalue::type_unit3vector);
      o << H(x1.dist2(x2)) << " " << vs_hex(x1.dist2_grad(x2)) << "\n";
    } else if (cmd == "Q") {
      double q[8]; for (int i = 0; i < 8; i++) q[i] = nf();
      colvarvalue x1(cvm::quaternion(q[0], q[1], q[2], q[3])), x2(cvm::quaternion(q[4], q[5], q[6], q[7]));
      o << H(x1.dist2(x2)) << " " << vs_hex(x1.dist2_grad(x2)) << "\n";
    } else if (cmd == "VEC") {
      int n = ni();
      cvm::vector1d<cvm::real> v1(n), v2(n);
      for (int i = 0; i < n; i++) v1[i] = nf();
      for (int i = 0; i < n; i++) v2[i] = nf();
      colvarvalue x1(v1, colvarvalue::type_vector), x2(v2, colvarvalue::type_vector);
      o << H(x1.dist2(x2)) << " " << vs_hex(x1.dist2_grad(x2)) << "\n";
    } else if (cmd == "DV") {
      int pbc = ni(), hc = ni();
      cvm::rvector cell = v3();
      S.eng.has_cell = hc != 0; S.eng.L[0] = cell.x; S.eng.L[1] = cell.y; S.eng.L[2] = cell.z;
      S.proxy->update_cell();
      colvar *cv = get_cv(pbc ? "dv1" : "dv0",
                          std::string("  distanceVec {\n    group1 { atomNumbers 1 }\n    group2 { atomNumbers 2 }\n") +
                          (pbc ? "" : "    forceNoPBC on\n") + "  }\n");
      if (!cv) { o << "noconfig\n"; continue; }
      colvarvalue x1(v3(), colvarvalue::type_3vector), x2(v3(), colvarvalue::type_3vector);
      o << H(cv->dist2(x1, x2)) << " " << vs_hex(cv->dist2_lgrad(x1, x2)) << "\n";
    } else if (cmd == "ISC") {
      colvarvalue x1(nf()), x2(nf()); double l = nf();
      o << vs_hex(colvarvalue::interpolate(x1, x2, l)) << "\n";
    } else if (cmd == "IV3") {
      colvarvalue x1(v3(), colvarvalue::type_3vector), x2(v3(), colvarvalue::type_3vector); double l = nf();
      o << vs_hex(colvarvalue::interpolate(x1, x2, l)) << "\n";
    } else if (cmd == "IUV") {
      colvarvalue x1(v3(), colvarvalue::type_unit3vector), x2(v3(), colvarvalue::type_unit3vector); double l = nf();
      o << vs_hex(colvarvalue::interpolate(x1, x2, l)) << "\n";
    } else if (cmd == "IQ") {
      double q[8]; for (int i = 0; i < 8; i++) q[i] = nf();
      double l = nf();
      colvarvalue x1(cvm::quaternion(q[0], q[1], q[2], q[3])), x2(cvm::quaternion(q[4], q[5], q[6], q[7]));
      o << vs_hex(colvarvalue::interpolate(x1, x2, l)) << "\n";
    } else if (cmd == "IVEC") {
      int n = ni();
      cvm::vector1d<cvm::real> v1(n), v2(n);
      for (int i = 0; i < n; i++) v1[i] = nf();
      for (int i = 0; i < n; i++) v2[i] = nf();
      double l = nf();
      colvarvalue x1(v1, colvarvalue::type_vector), x2(v2, colvarvalue::type_vector);
      o << vs_hex(colvarvalue::interpolate(x1, x2, l)) << "\n";
    } else if (cmd == "OBJ") {
      // history on ONE fresh periodic variable: initial period/centre, then M P c (modifycvcs) | W x (colvar::wrap)
      // | D x1 x2 (colvar::dist2 + dist2_lgrad), in the order given
      double P0 = nf(), c0 = nf();
      char body[1024];
      snprintf(body, sizeof(body), "  distanceZ {\n    main { atomNumbers 1 }\n    ref { dummyAtom (0,0,0) }\n    axis (0,0,1)\n    period %.17g\n    wrapAround %.17g\n  }\n", P0, c0);
      colvar *cv = get_cv("obj " + cvm::to_str(ncv), body);   // never cached: the key contains the counter
      if (!cv) { o << "noconfig\n"; continue; }
      std::string out;
      while (p < a.size()) {
        std::string op = a[p++];
        if (op == "M") {
          double P = nf(), c = nf();
          char conf[256]; snprintf(conf, sizeof(conf), "period %.17g\nwrapAround %.17g\n", P, c);
          std::vector<std::string> confs(1, std::string(conf));
          cvm::clear_error();
          if (cv->update_cvc_config(confs) != COLVARS_OK) out += " moderr";
          cvm::clear_error();
        } else if (op == "W") {
          colvarvalue x(nf()); cv->wrap(x); out += " " + vs_hex(x);
        } else if (op == "D") {
          colvarvalue x1(nf()), x2(nf());
          out += " " + H(cv->dist2(x1, x2)) + " " + vs_hex(cv->dist2_lgrad(x1, x2));
        }
      }
      o << (out.size() ? out.substr(1) : std::string("-")) << "\n";
    } else {
      o << "?\n";
    }
  }
  return 0;
}
