// C18 unit driver: calls colvarvalue::dist2/dist2_grad/interpolate/apply_constraints/inner/norm2 and, through real colvar
// objects of every kind (periodic distanceZ, distanceVec with and without forceNoPBC, dihedral, spinAngle, eulerPhi/Psi/Theta,
// polarPhi/Theta, tilt, orientationAngle, distance, distanceDir, orientation, cartesian, distancePairs, a periodic scripted
// variable), colvar::dist2/dist2_lgrad/dist2_rgrad/wrap; a real harmonic restraint's update_centers and a real OPES bias's
// mergeKernels on a periodic variable.
#include <string>
#include <vector>
#include <map>
#include <sstream>
#include <iostream>
#include <fstream>
#include <cmath>
#include <cstdio>
#include <cstdlib>
#include <cstring>
#include <algorithm>
#include <functional>
#include <thread>
#include <mutex>
#include <list>
#include <memory>
#include <iomanip>
#include <limits>
#include <set>
#include <deque>
#include <array>
#include <unordered_map>
#include <unordered_set>
#include <type_traits>
#include <numeric>
#include <random>
#include <chrono>
#include <atomic>
#include <condition_variable>
#include <stdexcept>
#include <iterator>
#include <utility>
#include <tuple>
#define private public
#define protected public
#include "colvarmodule.h"
#include "colvar.h"
#include "colvarbias.h"
#include "colvarbias_restraint.h"
#include "colvarbias_opes.h"
#include "colvarbias_meta.h"
#include "colvarproxy.h"
#undef private
#undef protected
#include "vsim.h"
static double num(std::string const &s) { return strtod(s.c_str(), NULL); }
static std::string H(double x) { return vs_hex(x); }

int main()
{
  vsim_session S(&std::cout);
  S.eng.resize(4);
  S.eng.temperature = 300.0;
  S.fresh();
  int nbias = 0;
  std::map<std::string, colvarbias_opes *> opes_cache;
  std::map<colvar *, colvarbias_restraint_harmonic *> hb_cache;
  std::map<colvar *, colvarbias_meta *> ml_cache;
  std::map<colvar *, colvarbias_restraint_harmonic_walls *> hw_cache;
  std::map<std::string, colvar *> cache;
  int ncv = 0;
  auto get_cv = [&](std::string const &key, std::string const &body) -> colvar * {
    auto it = cache.find(key);
    if (it != cache.end()) return it->second;
    std::string name = "c" + cvm::to_str(ncv++);
    std::string conf = "colvar {\n  name " + name + "\n" + body + "}\n";
    cvm::clear_error();
    S.proxy->colvars->read_config_string(conf);
    colvar *c = cvm::colvar_by_name(name);
    cvm::clear_error();
    cache[key] = c;
    return c;
  };
  std::string line;
  while (std::getline(std::cin, line)) {
    std::istringstream is(line);
    std::string cmd; if (!(is >> cmd)) continue;
    std::vector<std::string> a; std::string w; while (is >> w) a.push_back(w);
    size_t p = 0;
    auto nf = [&]() { return num(a[p++]); };
    auto ni = [&]() { return atoi(a[p++].c_str()); };
    auto v3 = [&]() { double x = nf(), y = nf(), z = nf(); return cvm::rvector(x, y, z); };
    std::ostream &o = std::cout;
    cvm::clear_error();
    if (cmd == "SC") {
      colvarvalue x1(nf()), x2(nf());
      o << H(x1.dist2(x2)) << " " << vs_hex(x1.dist2_grad(x2)) << "\n";
    } else if (cmd == "PER" || cmd == "WRAP") {
      std::string P = a[p++], c = a[p++];
      char buf[256]; snprintf(buf, sizeof(buf), "%.17g %.17g", num(P), num(c));
      char body[1024];
      snprintf(body, sizeof(body), "  distanceZ {\n    main { atomNumbers 1 }\n    ref { dummyAtom (0,0,0) }\n    axis (0,0,1)\n    period %.17g\n    wrapAround %.17g\n  }\n", num(P), num(c));
      colvar *cv = get_cv(std::string("per ") + buf, body);
      if (!cv) { o << "noconfig\n"; continue; }
      if (cmd == "PER") {
        colvarvalue x1(nf()), x2(nf());
        o << H(cv->dist2(x1, x2)) << " " << vs_hex(cv->dist2_lgrad(x1, x2)) << "\n";
      } else {
        colvarvalue x(nf());
        cv->wrap(x);
        o << vs_hex(x) << "\n";
      }
    } else if (cmd == "V3") {
      colvarvalue x1(v3(), colvarvalue::type_3vector), x2(v3(), colvarvalue::type_3vector);
      o << H(x1.dist2(x2)) << " " << vs_hex(x1.dist2_grad(x2)) << "\n";
    } else if (cmd == "UV") {
      colvarvalue x1(v3(), colvarvalue::type_unit3vector), x2(v3(), colvarvalue::type_unit3vector);
      o << H(x1.dist2(x2)) << " " << vs_hex(x1.dist2_grad(x2)) << "\n";
    } else if (cmd == "Q") {
      double q[8]; for (int i = 0; i < 8; i++) q[i] = nf();
      colvarvalue x1(cvm::quaternion(q[0], q[1], q[2], q[3])), x2(cvm::quaternion(q[4], q[5], q[6], q[7]));
      o << H(x1.dist2(x2)) << " " << vs_hex(x1.dist2_grad(x2)) << "\n";
    } else if (cmd == "VEC") {
      int n = ni();
      cvm::vector1d<cvm::real> v1(n), v2(n);
      for (int i = 0; i < n; i++) v1[i] = nf();
      for (int i = 0; i < n; i++) v2[i] = nf();
      colvarvalue x1(v1, colvarvalue::type_vector), x2(v2, colvarvalue::type_vector);
      o << H(x1.dist2(x2)) << " " << vs_hex(x1.dist2_grad(x2)) << "\n";
    } else if (cmd == "DV") {
      int pbc = ni(), hc = ni();
      cvm::rvector cell = v3();
      S.eng.has_cell = hc != 0; S.eng.L[0] = cell.x; S.eng.L[1] = cell.y; S.eng.L[2] = cell.z;
      S.proxy->update_cell();
      colvar *cv = get_cv(pbc ? "dv1" : "dv0",
                          std::string("  distanceVec {\n    group1 { atomNumbers 1 }\n    group2 { atomNumbers 2 }\n") +
                          (pbc ? "" : "    forceNoPBC on\n") + "  }\n");
      if (!cv) { o << "noconfig\n"; continue; }
      colvarvalue x1(v3(), colvarvalue::type_3vector), x2(v3(), colvarvalue::type_3vector);
      o << H(cv->dist2(x1, x2)) << " " << vs_hex(cv->dist2_lgrad(x1, x2)) << " " << vs_hex(cv->dist2_rgrad(x1, x2)) << "\n";
    } else if (cmd == "DVT") {
      // distanceVec in a general (triclinic) cell given by its three vectors: DVT a b c x1 x2 -> dist2, lgrad, rgrad
      cvm::rvector ca = v3(), cb = v3(), cc = v3();
      S.eng.has_cell = true;
      S.proxy->boundaries_type = colvarproxy_system::boundaries_pbc_triclinic;
      S.proxy->unit_cell_x = ca; S.proxy->unit_cell_y = cb; S.proxy->unit_cell_z = cc;
      S.proxy->update_pbc_lattice();
      colvar *cv = get_cv("dv1", std::string("  distanceVec {\n    group1 { atomNumbers 1 }\n    group2 { atomNumbers 2 }\n  }\n"));
      if (!cv) { o << "noconfig\n"; continue; }
      colvarvalue x1(v3(), colvarvalue::type_3vector), x2(v3(), colvarvalue::type_3vector);
      o << H(cv->dist2(x1, x2)) << " " << vs_hex(cv->dist2_lgrad(x1, x2)) << " " << vs_hex(cv->dist2_rgrad(x1, x2)) << "\n";
      S.eng.has_cell = false; S.proxy->update_cell();
    } else if (cmd == "ISC") {
      colvarvalue x1(nf()), x2(nf()); double l = nf();
      o << vs_hex(colvarvalue::interpolate(x1, x2, l)) << "\n";
    } else if (cmd == "IV3") {
      colvarvalue x1(v3(), colvarvalue::type_3vector), x2(v3(), colvarvalue::type_3vector); double l = nf();
      o << vs_hex(colvarvalue::interpolate(x1, x2, l)) << "\n";
    } else if (cmd == "IUV") {
      colvarvalue x1(v3(), colvarvalue::type_unit3vector), x2(v3(), colvarvalue::type_unit3vector); double l = nf();
      cvm::clear_error();
      colvarvalue r = colvarvalue::interpolate(x1, x2, l);
      o << vs_hex(r) << " " << H(cvm::get_error() ? 1.0 : 0.0) << "\n";
      cvm::clear_error();
    } else if (cmd == "IQ") {
      double q[8]; for (int i = 0; i < 8; i++) q[i] = nf();
      double l = nf();
      colvarvalue x1(cvm::quaternion(q[0], q[1], q[2], q[3])), x2(cvm::quaternion(q[4], q[5], q[6], q[7]));
      cvm::clear_error();
      colvarvalue r = colvarvalue::interpolate(x1, x2, l);
      o << vs_hex(r) << " " << H(cvm::get_error() ? 1.0 : 0.0) << "\n";
      cvm::clear_error();
    } else if (cmd == "IVEC") {
      int n = ni();
      cvm::vector1d<cvm::real> v1(n), v2(n);
      for (int i = 0; i < n; i++) v1[i] = nf();
      for (int i = 0; i < n; i++) v2[i] = nf();
      double l = nf();
      colvarvalue x1(v1, colvarvalue::type_vector), x2(v2, colvarvalue::type_vector);
      o << vs_hex(colvarvalue::interpolate(x1, x2, l)) << "\n";
    } else if (cmd == "AC") {
      // colvarvalue::apply_constraints
      std::string t = a[p++];
      if (t == "UV") {
        colvarvalue x(v3(), colvarvalue::type_unit3vector); x.apply_constraints(); o << vs_hex(x) << "\n";
      } else {
        double q[4]; for (int i = 0; i < 4; i++) q[i] = nf();
        colvarvalue x(cvm::quaternion(q[0], q[1], q[2], q[3])); x.apply_constraints(); o << vs_hex(x) << "\n";
      }
    } else if (cmd == "AR") {
      // colvarvalue arithmetic: AR type a x1 x2 -> x1 + x2, x1 - x2, a * x1, x1 / a
      std::string t = a[p++];
      double f = nf();
      colvarvalue x1, x2;
      if (t == "SC") { x1 = colvarvalue(nf()); x2 = colvarvalue(nf()); }
      else if (t == "UV" || t == "V3") {
        colvarvalue::Type ty = (t == "UV") ? colvarvalue::type_unit3vector : colvarvalue::type_3vector;
        cvm::rvector u = v3(), v = v3(); x1 = colvarvalue(u, ty); x2 = colvarvalue(v, ty);
      } else if (t == "Q") {
        double q[8]; for (int i = 0; i < 8; i++) q[i] = nf();
        x1 = colvarvalue(cvm::quaternion(q[0], q[1], q[2], q[3])); x2 = colvarvalue(cvm::quaternion(q[4], q[5], q[6], q[7]));
      } else {
        int n = ni();
        cvm::vector1d<cvm::real> v1(n), v2(n);
        for (int i = 0; i < n; i++) v1[i] = nf();
        for (int i = 0; i < n; i++) v2[i] = nf();
        x1 = colvarvalue(v1, colvarvalue::type_vector); x2 = colvarvalue(v2, colvarvalue::type_vector);
      }
      o << vs_hex(x1 + x2) << " " << vs_hex(x1 - x2) << " " << vs_hex(f * x1) << " " << vs_hex(x1 / f) << "\n";
    } else if (cmd == "ERR") {
      // operations that are documented errors: distance / gradient between "derivative" types, interpolation outside [0,1]
      std::string t = a[p++];
      cvm::clear_error();
      if (t == "UVD") {
        colvarvalue x1(cvm::rvector(1, 0, 0), colvarvalue::type_unit3vectorderiv), x2(cvm::rvector(0, 1, 0), colvarvalue::type_unit3vectorderiv);
        x1.dist2(x2); int e1 = cvm::get_error() ? 1 : 0; cvm::clear_error();
        x1.dist2_grad(x2); int e2 = cvm::get_error() ? 1 : 0;
        o << H(e1) << " " << H(e2) << "\n";
      } else if (t == "QD") {
        colvarvalue x1(cvm::quaternion(1, 0, 0, 0), colvarvalue::type_quaternionderiv), x2(cvm::quaternion(0, 1, 0, 0), colvarvalue::type_quaternionderiv);
        x1.dist2(x2); int e1 = cvm::get_error() ? 1 : 0; cvm::clear_error();
        x1.dist2_grad(x2); int e2 = cvm::get_error() ? 1 : 0;
        o << H(e1) << " " << H(e2) << "\n";
      } else {
        double l = nf();
        colvarvalue x1(1.0), x2(2.0);
        colvarvalue::interpolate(x1, x2, l); int e1 = cvm::get_error() ? 1 : 0;
        o << H(e1) << " " << H(e1) << "\n";
      }
      cvm::clear_error();
    } else if (cmd == "INN") {
      // inner product (operator *) and norm2 of colvarvalues
      std::string t = a[p++];
      if (t == "UV" || t == "V3") {
        colvarvalue::Type ty = (t == "UV") ? colvarvalue::type_unit3vector : colvarvalue::type_3vector;
        colvarvalue x1(v3(), ty), x2(v3(), ty);
        o << H(x1 * x2) << " " << H(x1.norm2()) << "\n";
      } else if (t == "Q") {
        double q[8]; for (int i = 0; i < 8; i++) q[i] = nf();
        colvarvalue x1(cvm::quaternion(q[0], q[1], q[2], q[3])), x2(cvm::quaternion(q[4], q[5], q[6], q[7]));
        o << H(x1 * x2) << " " << H(x1.norm2()) << "\n";
      } else {
        int n = ni();
        cvm::vector1d<cvm::real> v1(n), v2(n);
        for (int i = 0; i < n; i++) v1[i] = nf();
        for (int i = 0; i < n; i++) v2[i] = nf();
        colvarvalue x1(v1, colvarvalue::type_vector), x2(v2, colvarvalue::type_vector);
        o << H(x1 * x2) << " " << H(x1.norm2()) << "\n";
      }
    } else if (cmd == "CD" || cmd == "CW" || cmd == "HB" || cmd == "FV" || cmd == "ML") {
      // a real single-component variable of the given kind: colvar::dist2, dist2_lgrad, dist2_rgrad (CD) or colvar::wrap (CW)
      std::string kind = a[p++];
      double wc = nf();
      int n = ni();
      std::string comp = kind, extra, full;
      char wbuf[128]; snprintf(wbuf, sizeof(wbuf), "    wrapAround %.17g\n", wc);
      std::string body;
      std::string const ref4 = "    atoms { atomNumbers 1 2 3 4 }\n    refPositions (1, 0, 0) (0, 1, 0) (0, 0, 1) (-1, -1, -1)\n";
      bool periodic = false;
      if (kind == "distance") body = "    group1 { atomNumbers 1 }\n    group2 { atomNumbers 2 }\n";
      else if (kind == "dihedral" || kind == "dihedralCoeff2" || kind == "dihedralSum") {
        // dihedralCoeff2: one periodic component with coefficient 2 (not homogeneous: the variable is a plain scalar);
        // dihedralSum: two periodic components with coefficient 1 (homogeneous: delegates to the first component)
        comp = "dihedral";
        body = "    group1 { atomNumbers 1 }\n    group2 { atomNumbers 2 }\n    group3 { atomNumbers 3 }\n    group4 { atomNumbers 4 }\n"; periodic = true;
        if (kind == "dihedralCoeff2") body += "    componentCoeff 2.0\n";
      }
      else if (kind == "spinAngle" || kind == "eulerPhi" || kind == "eulerPsi") { body = ref4; periodic = true; }
      else if (kind == "eulerTheta" || kind == "tilt" || kind == "orientationAngle" || kind == "orientation") body = ref4;
      else if (kind == "polarPhi") { body = "    atoms { atomNumbers 1 }\n"; periodic = true; }
      else if (kind == "polarTheta") body = "    atoms { atomNumbers 1 }\n";
      else if (kind == "distanceDir") body = "    group1 { atomNumbers 1 }\n    group2 { atomNumbers 2 }\n";
      else if (kind == "cartesian") body = "    atoms { atomNumbers 1 2 }\n";
      else if (kind == "distancePairs") body = "    group1 { atomNumbers 1 2 }\n    group2 { atomNumbers 3 4 }\n";
      else if (kind == "mixDihedralDistance" || kind == "mixAngleDihedral" || kind == "mixPeriods" || kind == "dihedralDiff" ||
               kind == "lcScalar" || kind == "lcVec3" || kind == "gspathCV" || kind == "gzpathCV" || kind == "aspathCV" || kind == "azpathCV") {
        // multi-component variables and components that nest other components
        std::string const dih = "    group1 { atomNumbers 1 }\n    group2 { atomNumbers 2 }\n    group3 { atomNumbers 3 }\n    group4 { atomNumbers 4 }\n";
        std::string const dst = "    group1 { atomNumbers 1 }\n    group2 { atomNumbers 2 }\n";
        std::string const dz = "    main { atomNumbers 1 }\n    ref { dummyAtom (0,0,0) }\n    axis (0,0,1)\n";
        if (kind == "mixDihedralDistance")      // components are created in alphabetical keyword order: cvcs[0] is the (periodic) dihedral
          full = "  dihedral {\n" + dih + wbuf + "  }\n  distance {\n" + dst + "  }\n";
        else if (kind == "mixAngleDihedral")    // cvcs[0] is the (non-periodic) angle
          full = "  angle {\n    group1 { atomNumbers 1 }\n    group2 { atomNumbers 2 }\n    group3 { atomNumbers 3 }\n  }\n  dihedral {\n" + dih + wbuf + "  }\n";
        else if (kind == "mixPeriods")          // two periodic components with different periods
          full = "  distanceZ {\n    name za\n" + dz + "    period 10.0\n" + wbuf + "  }\n  distanceZ {\n    name zb\n" + dz + "    period 20.0\n  }\n";
        else if (kind == "dihedralDiff")        // difference of two periodic components: periodic
          full = "  dihedral {\n    name da\n" + dih + wbuf + "  }\n  dihedral {\n    name db\n" + dih + "    componentCoeff -1.0\n  }\n";
        else if (kind == "lcScalar")
          full = "  linearCombination {\n    dihedral {\n  " + dih + "    }\n    distance {\n  " + dst + "      componentCoeff 2.0\n    }\n  }\n";
        else if (kind == "lcVec3")
          full = "  linearCombination {\n    distanceVec {\n      name va\n  " + dst + "    }\n    distanceVec {\n      name vb\n      group1 { atomNumbers 3 }\n      group2 { atomNumbers 4 }\n      componentCoeff -1.0\n    }\n  }\n";
        else {
          { std::ofstream pf("c18path.txt"); pf << "1.0\n2.0\n3.5\n"; }
          full = "  " + kind + " {\n    distance {\n  " + dst + "    }\n    pathFile c18path.txt\n" + ((kind[0] == 'a') ? "    lambda 1.0\n" : "") + "  }\n";
        }
      }
      else if (kind.compare(0, 10, "distanceZ:") == 0) {
        // periodic distanceZ with a user period and wrapAround: "distanceZ:<period>"
        double P = num(kind.substr(10));
        comp = "distanceZ";
        char pb[256]; snprintf(pb, sizeof(pb), "    period %.17g\n", P);
        body = std::string("    main { atomNumbers 1 }\n    ref { dummyAtom (0,0,0) }\n    axis (0,0,1)\n") + pb; periodic = true;
      }
      else if (kind.compare(0, 9, "scripted:") == 0) {
        // periodic scripted variable: "scripted:<period>"; the component is a plain distanceZ
        double P = num(kind.substr(9));
        comp = "distanceZ";
        body = "    main { atomNumbers 1 }\n    ref { dummyAtom (0,0,0) }\n    axis (0,0,1)\n";
        char pb[256]; snprintf(pb, sizeof(pb), "  scriptedFunction c18fn\n  period %.17g\n  wrapAround %.17g\n", P, wc);
        extra = pb;
      } else { o << "?\n"; continue; }
      if (periodic) body += wbuf;
      char kb[256]; snprintf(kb, sizeof(kb), "cd %s %.17g", kind.c_str(), wc);
      std::string cvconf = extra + "  " + comp + " {\n" + body + "  }\n";
      if (kind == "dihedralSum") cvconf += "  " + comp + " {\n" + body + "  }\n";
      if (full.size()) cvconf = full;
      colvar *cv = get_cv(kb, cvconf);
      if (!cv) { o << "noconfig\n"; continue; }
      auto rd = [&](colvarvalue const &proto) {
        colvarvalue x(proto);
        if (x.type() == colvarvalue::type_scalar) x.real_value = nf();
        else if (x.type() == colvarvalue::type_unit3vector || x.type() == colvarvalue::type_3vector) x.rvector_value = v3();
        else if (x.type() == colvarvalue::type_quaternion) { double q0 = nf(), q1 = nf(), q2 = nf(), q3 = nf(); x.quaternion_value = cvm::quaternion(q0, q1, q2, q3); }
        else { for (int i = 0; i < n; i++) x.vector1d_value[i] = nf(); }
        return x;
      };
      colvarvalue proto(cv->value());
      if (proto.type() == colvarvalue::type_vector && int(proto.size()) != n) { o << "badsize " << proto.size() << "\n"; continue; }
      if (cmd == "CD") {
        colvarvalue x1 = rd(proto), x2 = rd(proto);
        o << H(cv->dist2(x1, x2)) << " " << vs_hex(cv->dist2_lgrad(x1, x2)) << " " << vs_hex(cv->dist2_rgrad(x1, x2)) << "\n";
      } else if (cmd == "HB") {
        // a real harmonic restraint on this variable: HB kind wc n k w x[n] centre[n] -> restraint_potential(0), restraint_force(0)
        double k = nf(), w = nf();
        colvarvalue x = rd(proto), c = rd(proto);
        colvarbias_restraint_harmonic *hb = NULL;
        if (hb_cache.count(cv)) hb = hb_cache[cv];
        else {
          std::string bname = "hb" + cvm::to_str(nbias++);
          std::string cstr = (proto.type() == colvarvalue::type_scalar) ? "0.0" :
            ((proto.type() == colvarvalue::type_quaternion) ? "(1.0, 0.0, 0.0, 0.0)" :
             ((proto.type() == colvarvalue::type_vector) ? cvm::to_str(proto) : "(1.0, 0.0, 0.0)"));
          std::string bconf = "harmonic {\n  name " + bname + "\n  colvars " + cv->name + "\n  forceConstant 1.0\n  centers " + cstr + "\n}\n";
          cvm::clear_error();
          S.proxy->colvars->read_config_string(bconf);
          hb = dynamic_cast<colvarbias_restraint_harmonic *>(cvm::bias_by_name(bname));
          if (cvm::get_error()) hb = NULL;
          cvm::clear_error();
          hb_cache[cv] = hb;
        }
        if (!hb) { o << "nobias\n"; continue; }
        hb->force_k = k; cv->width = w; cv->x = x; cv->x_reported = x; hb->colvar_centers[0] = c;
        o << H(hb->restraint_potential(0)) << " " << vs_hex(hb->restraint_force(0)) << "\n";
        cv->width = 1.0;
      } else if (cmd == "ML") {
        // one metadynamics hill on this variable: ML kind wc n W sigma x[n] centre[n] -> calc_hills energy, calc_hills_force
        double W = nf(), sigma = nf();
        colvarvalue x = rd(proto), c = rd(proto);
        colvarbias_meta *mb = NULL;
        if (ml_cache.count(cv)) mb = ml_cache[cv];
        else {
          std::string bname = "ml" + cvm::to_str(nbias++);
          std::string bconf = "metadynamics {\n  name " + bname + "\n  colvars " + cv->name + "\n  hillWeight 1.0\n  hillWidth 1.0\n  newHillFrequency 1000\n  useGrids off\n}\n";
          cvm::clear_error();
          S.proxy->colvars->read_config_string(bconf);
          mb = dynamic_cast<colvarbias_meta *>(cvm::bias_by_name(bname));
          if (cvm::get_error()) mb = NULL;
          cvm::clear_error();
          ml_cache[cv] = mb;
        }
        if (!mb) { o << "nobias\n"; continue; }
        std::list<colvarbias_meta::hill> hl;
        hl.push_back(colvarbias_meta::hill(0, W, std::vector<colvarvalue>(1, c), std::vector<cvm::real>(1, sigma)));
        std::vector<colvarvalue> values(1, x);
        std::vector<colvarvalue> forces(1, proto); forces[0].reset();
        cvm::real energy = 0.0;
        mb->calc_hills(hl.begin(), hl.end(), energy, &values);
        mb->calc_hills_force(0, hl.begin(), hl.end(), forces, &values);
        o << H(energy) << " " << vs_hex(forces[0]) << "\n";
      } else if (cmd == "FV") {
        // finite-difference velocity: FV kind wc n dt xold[n] xnew[n] -> colvar::fdiff_velocity
        double dt = nf();
        colvarvalue xo = rd(proto), xn = rd(proto);
        S.proxy->set_integration_timestep(dt);
        o << vs_hex(cv->fdiff_velocity(xo, xn)) << "\n";
        S.proxy->set_integration_timestep(1.0);
      } else {
        colvarvalue x = rd(proto);
        cv->wrap(x);
        o << vs_hex(x) << "\n";
      }
    } else if (cmd == "SUM" || cmd == "SUMM") {
      // a variable that is a sum of n components given in CONFIG order: SUM n (keyword period coeff exp wrapAround)*n x1 x2 xw
      // -> colvar::init's decision (f_cv_periodic, period, wrap_center) and dist2 / lgrad / rgrad (x1,x2), wrap(xw)
      int n = ni();
      std::string conf, key = "sum";
      std::string const dih = "    group1 { atomNumbers 1 }\n    group2 { atomNumbers 2 }\n    group3 { atomNumbers 3 }\n    group4 { atomNumbers 4 }\n";
      std::string const ref4b = "    atoms { atomNumbers 1 2 3 4 }\n    refPositions (1, 0, 0) (0, 1, 0) (0, 0, 1) (-1, -1, -1)\n";
      for (int i = 0; i < n; i++) {
        std::string kw = a[p++]; double P = nf(), co = nf(); int ex = ni(); double wc = nf();
        std::string body;
        bool per_kw = (kw == "dihedral" || kw == "polarPhi" || kw == "spinAngle" || kw == "eulerPhi");
        if (kw == "angle") body = "    group1 { atomNumbers 1 }\n    group2 { atomNumbers 2 }\n    group3 { atomNumbers 3 }\n";
        else if (kw == "dihedral") body = dih;
        else if (kw == "distance") body = "    group1 { atomNumbers 1 }\n    group2 { atomNumbers 2 }\n";
        else if (kw == "distanceZ") body = "    main { atomNumbers 1 }\n    ref { dummyAtom (0,0,0) }\n    axis (0,0,1)\n";
        else if (kw == "polarPhi") body = "    atoms { atomNumbers 1 }\n";
        else body = ref4b;     // spinAngle, eulerPhi
        char buf[512];
        snprintf(buf, sizeof(buf), "    name k%d\n    componentCoeff %.17g\n    componentExp %d\n", i, co, ex);
        body += buf;
        if (kw == "distanceZ" && P != 0.0) { snprintf(buf, sizeof(buf), "    period %.17g\n", P); body += buf; }
        if (per_kw || (kw == "distanceZ" && P != 0.0)) { snprintf(buf, sizeof(buf), "    wrapAround %.17g\n", wc); body += buf; }
        conf += "  " + kw + " {\n" + body + "  }\n";
      }
      colvar *cv = get_cv((cmd == "SUMM") ? ("summ " + cvm::to_str(ncv)) : ("sum " + conf), conf);     // SUMM: a fresh object (it is modified)
      if (!cv) { o << "noconfig\n"; continue; }
      if (cmd == "SUMM") {
        // run-time modification (modifycvcs) of ONE component, given by its index in creation order: new period (0 = unchanged), new coefficient
        int jc = ni(); double Pn = nf(), cn = nf();
        std::vector<std::string> confs(cv->cvcs.size(), std::string(""));
        char mb[256];
        if (Pn != 0.0) snprintf(mb, sizeof(mb), "period %.17g\ncomponentCoeff %.17g\n", Pn, cn);
        else snprintf(mb, sizeof(mb), "componentCoeff %.17g\n", cn);
        if (jc >= 0 && jc < int(confs.size())) confs[jc] = mb;
        cvm::clear_error();
        cv->update_cvc_config(confs);
        cvm::clear_error();
      }
      colvarvalue x1(nf()), x2(nf()), xw(nf());
      bool per = cv->is_enabled(colvardeps::f_cv_periodic);
      cv->wrap(xw);
      o << H(per ? 1.0 : 0.0) << " " << H(per ? cv->period : 0.0) << " " << H(per ? cv->wrap_center : 0.0) << " "
        << H(cv->dist2(x1, x2)) << " " << vs_hex(cv->dist2_lgrad(x1, x2)) << " " << vs_hex(cv->dist2_rgrad(x1, x2)) << " " << vs_hex(xw) << "\n";
    } else if (cmd == "HW") {
      // real harmonic walls on a periodic distanceZ (P != 0) or on a distance (P == 0): HW P wc k w lk uk lo up x
      // -> colvar_distance(0), restraint_potential(0), restraint_force(0)
      double P = nf(), c = nf(), k = nf(), w = nf(), lk = nf(), uk = nf(), lo = nf(), up = nf(), xv = nf();
      colvar *cv = NULL;
      if (P != 0.0) {
        char buf[256]; snprintf(buf, sizeof(buf), "%.17g %.17g", P, c);
        char body[1024];
        snprintf(body, sizeof(body), "  distanceZ {\n    main { atomNumbers 1 }\n    ref { dummyAtom (0,0,0) }\n    axis (0,0,1)\n    period %.17g\n    wrapAround %.17g\n  }\n", P, c);
        cv = get_cv(std::string("per ") + buf, body);
      } else {
        cv = get_cv("cd distance 0", "  distance {\n    group1 { atomNumbers 1 }\n    group2 { atomNumbers 2 }\n  }\n");
      }
      if (!cv) { o << "noconfig\n"; continue; }
      colvarbias_restraint_harmonic_walls *hw = NULL;
      if (hw_cache.count(cv)) hw = hw_cache[cv];
      else {
        std::string bname = "hw" + cvm::to_str(nbias++);
        std::string bconf = "harmonicWalls {\n  name " + bname + "\n  colvars " + cv->name + "\n  forceConstant 1.0\n  lowerWalls 0.0\n  upperWalls 1.0\n}\n";
        cvm::clear_error();
        S.proxy->colvars->read_config_string(bconf);
        hw = dynamic_cast<colvarbias_restraint_harmonic_walls *>(cvm::bias_by_name(bname));
        if (cvm::get_error()) hw = NULL;
        cvm::clear_error();
        hw_cache[cv] = hw;
      }
      if (!hw) { o << "nobias\n"; continue; }
      hw->force_k = k; hw->lower_wall_k = lk; hw->upper_wall_k = uk;
      hw->lower_walls[0] = colvarvalue(lo); hw->upper_walls[0] = colvarvalue(up);
      cv->width = w; cv->x = colvarvalue(xv); cv->x_reported = colvarvalue(xv);
      o << H(hw->colvar_distance(0)) << " " << H(hw->restraint_potential(0)) << " " << vs_hex(hw->restraint_force(0)) << "\n";
      cv->width = 1.0;
    } else if (cmd == "MR") {
      // moving harmonic restraint on a periodic distanceZ: MR P c x0 x1 lambda...  -> the centre after update_centers(lambda), for each lambda
      double P = nf(), c = nf(), x0 = nf(), x1 = nf();
      char buf[256]; snprintf(buf, sizeof(buf), "%.17g %.17g", P, c);
      char body[1024];
      snprintf(body, sizeof(body), "  distanceZ {\n    main { atomNumbers 1 }\n    ref { dummyAtom (0,0,0) }\n    axis (0,0,1)\n    period %.17g\n    wrapAround %.17g\n  }\n", P, c);
      colvar *cv = get_cv(std::string("per ") + buf, body);
      if (!cv) { o << "noconfig\n"; continue; }
      std::string bname = "mr" + cvm::to_str(nbias++);
      char bconf[1024];
      snprintf(bconf, sizeof(bconf), "harmonic {\n  name %s\n  colvars %s\n  forceConstant 1.0\n  centers %.17g\n  targetCenters %.17g\n  targetNumSteps 100\n}\n",
               bname.c_str(), cv->name.c_str(), x0, x1);
      cvm::clear_error();
      S.proxy->colvars->read_config_string(bconf);
      colvarbias *b = cvm::bias_by_name(bname);
      colvarbias_restraint_centers_moving *mb = dynamic_cast<colvarbias_restraint_centers_moving *>(b);
      if (!mb || cvm::get_error()) { o << "nobias\n"; cvm::clear_error(); if (b) delete b; continue; }
      std::string out;
      while (p < a.size()) { double l = nf(); mb->update_centers(l); out += " " + vs_hex(mb->colvar_centers[0]); }
      o << out.substr(1) << "\n";
      delete b;
      cvm::clear_error();
    } else if (cmd == "OM" || cmd == "OK") {
      // OPES kernel merge on a periodic distanceZ: OM P c h1 k1 s1 h2 k2 s2 -> merged centre, sigma, height
      double P = nf(), c = nf();
      char buf[256]; snprintf(buf, sizeof(buf), "%.17g %.17g", P, c);
      char body[1024];
      snprintf(body, sizeof(body), "  distanceZ {\n    main { atomNumbers 1 }\n    ref { dummyAtom (0,0,0) }\n    axis (0,0,1)\n    period %.17g\n    wrapAround %.17g\n  }\n", P, c);
      colvar *cv = get_cv(std::string("per ") + buf, body);
      if (!cv) { o << "noconfig\n"; continue; }
      colvarbias_opes *ob = NULL;
      if (opes_cache.count(buf)) ob = opes_cache[buf];
      else {
        std::string bname = "om" + cvm::to_str(nbias++);
        char bconf[1024];
        snprintf(bconf, sizeof(bconf), "opes_metad {\n  name %s\n  colvars %s\n  barrier 10.0\n  newHillFrequency 100\n  gaussianSigma 0.1\n}\n", bname.c_str(), cv->name.c_str());
        cvm::clear_error();
        S.proxy->colvars->read_config_string(bconf);
        ob = dynamic_cast<colvarbias_opes *>(cvm::bias_by_name(bname));
        if (cvm::get_error()) ob = NULL;
        cvm::clear_error();
        opes_cache[buf] = ob;
      }
      if (!ob) { o << "nobias\n"; continue; }
      if (cmd == "OK") {
        // one OPES kernel evaluated at x: OK P c h centre sigma cutoff2 val_at_cutoff x -> both overloads of evaluateKernel
        double h = nf(), kc = nf(), sg = nf(), cut2 = nf(), vac = nf(), xv = nf();
        cvm::real const save_c = ob->m_cutoff2, save_v = ob->m_val_at_cutoff;
        ob->m_cutoff2 = cut2; ob->m_val_at_cutoff = vac;
        colvarbias_opes::kernel K(h, std::vector<cvm::real>(1, kc), std::vector<cvm::real>(1, sg));
        std::vector<cvm::real> xs(1, xv), der(1, 0.0), dist(1, 0.0);
        cvm::real v1 = ob->evaluateKernel(K, xs);
        cvm::real v2 = ob->evaluateKernel(K, xs, der, dist);
        ob->m_cutoff2 = save_c; ob->m_val_at_cutoff = save_v;
        o << H(v1) << " " << H(v2) << "\n";
        continue;
      }
      double h1 = nf(), k1 = nf(), s1 = nf(), h2 = nf(), k2 = nf(), s2 = nf();
      colvarbias_opes::kernel K1(h1, std::vector<cvm::real>(1, k1), std::vector<cvm::real>(1, s1));
      colvarbias_opes::kernel K2(h2, std::vector<cvm::real>(1, k2), std::vector<cvm::real>(1, s2));
      ob->mergeKernels(K1, K2);
      o << H(K1.m_center[0]) << " " << H(K1.m_height) << "\n";
    } else if (cmd == "OBJ") {
      // history on ONE fresh periodic variable: initial period/centre, then M P c (modifycvcs) | W x (colvar::wrap)
      // | D x1 x2 (colvar::dist2 + dist2_lgrad) | X x1 x2 (wrap both, then dist2 + dist2_lgrad), in the order given
      double P0 = nf(), c0 = nf();
      char body[1024];
      snprintf(body, sizeof(body), "  distanceZ {\n    main { atomNumbers 1 }\n    ref { dummyAtom (0,0,0) }\n    axis (0,0,1)\n    period %.17g\n    wrapAround %.17g\n  }\n", P0, c0);
      colvar *cv = get_cv("obj " + cvm::to_str(ncv), body);   // never cached: the key contains the counter
      if (!cv) { o << "noconfig\n"; continue; }
      std::string out;
      while (p < a.size()) {
        std::string op = a[p++];
        if (op == "M") {
          double P = nf(), c = nf();
          char conf[256]; snprintf(conf, sizeof(conf), "period %.17g\nwrapAround %.17g\n", P, c);
          std::vector<std::string> confs(1, std::string(conf));
          cvm::clear_error();
          if (cv->update_cvc_config(confs) != COLVARS_OK) out += " moderr";
          cvm::clear_error();
        } else if (op == "S") {
          // run-time change through the engine-side API colvar::set_cvc_param -> cvc::set_param (it changes the parameter and
          // then reports "cannot be modified" from colvarparams::set_param; the error is cleared here)
          double P = nf(), c = nf();
          cvm::clear_error();
          cv->set_cvc_param("period", reinterpret_cast<void const *>(&P));
          cv->set_cvc_param("wrapAround", reinterpret_cast<void const *>(&c));
          cvm::clear_error();
        } else if (op == "W") {
          colvarvalue x(nf()); cv->wrap(x); out += " " + vs_hex(x);
        } else if (op == "D") {
          colvarvalue x1(nf()), x2(nf());
          out += " " + H(cv->dist2(x1, x2)) + " " + vs_hex(cv->dist2_lgrad(x1, x2));
        } else if (op == "X") {
          // what a bias keeping wrapped centres does: wrap both values with the object, then take the distance
          colvarvalue x1(nf()), x2(nf());
          cv->wrap(x1); cv->wrap(x2);
          out += " " + H(cv->dist2(x1, x2)) + " " + vs_hex(cv->dist2_lgrad(x1, x2));
        }
      }
      o << (out.size() ? out.substr(1) : std::string("-")) << "\n";
    } else {
      o << "?\n";
    }
  }
  return 0;
}
