(* C18 model driver *)
open Model
open X_fops
let pi = 3.14159265358979323846
let () =
  try
    while true do
      let line = input_line stdin in
      let w = Array.of_list (words line) in
      if Array.length w > 0 then begin
        let p = ref 1 in
        let next () = let s = w.(!p) in Stdlib.incr p; s in
        let nf () = fl (next ()) in
        let ni () = int_of_string (next ()) in
        let v3 () = let a = nf () in let b = nf () in let c = nf () in ((a, b), c) in
        let q4 () = let a = nf () in let b = nf () in let c = nf () in let d = nf () in (((a, b), c), d) in
        let p3 ((a, b), c) = Printf.sprintf "%s %s %s" (hex a) (hex b) (hex c) in
        let p4 (((a, b), c), d) = Printf.sprintf "%s %s %s %s" (hex a) (hex b) (hex c) (hex d) in
        (match w.(0) with
         | "SC" -> let a = nf () in let b = nf () in
           Printf.printf "%s %s\n" (hex (sc_dist2 fops a b)) (hex (sc_grad fops a b))
         | "PER" -> let pp = nf () in let _c = nf () in let a = nf () in let b = nf () in
           Printf.printf "%s %s\n" (hex (per_dist2 fops pp a b)) (hex (per_grad fops pp a b))
         | "WRAP" -> let pp = nf () in let c = nf () in let x = nf () in
           Printf.printf "%s\n" (hex (cvc_wrap fops c pp x))
         | "V3" -> let a = v3 () in let b = v3 () in
           Printf.printf "%s %s\n" (hex (v3_dist2 fops a b)) (p3 (v3_grad fops a b))
         | "UV" -> let a = v3 () in let b = v3 () in
           Printf.printf "%s %s\n" (hex (uv_dist2 fops a b)) (p3 (uv_grad fops a b))
         | "Q" -> let a = q4 () in let b = q4 () in
           Printf.printf "%s %s\n" (hex (q_dist2 fops pi a b)) (p4 (q_grad fops pi a b))
         | "VEC" -> let n = ni () in let a = List.init n (fun _ -> nf ()) in let b = List.init n (fun _ -> nf ()) in
           Printf.printf "%s %s\n" (hex (vec_dist2 fops a b)) (String.concat " " (List.map hex (vec_grad fops a b)))
         | "DV" -> let pbc = ni () <> 0 in let hc = ni () <> 0 in let cell = v3 () in let a = v3 () in let b = v3 () in
           let c = if hc then Some cell else None in
           Printf.printf "%s %s %s\n" (hex (dv_dist2 fops pbc c a b)) (p3 (dv_lgrad fops pbc c a b)) (p3 (dv_rgrad fops pbc c a b))
         | "DVT" -> let ca = v3 () in let cb = v3 () in let cc = v3 () in let a = v3 () in let b = v3 () in
           Printf.printf "%s %s %s\n" (hex (dvt_dist2 fops ca cb cc a b)) (p3 (dvt_lgrad fops ca cb cc a b)) (p3 (dvt_rgrad fops ca cb cc a b))
         | "ISC" -> let a = nf () in let b = nf () in let l = nf () in Printf.printf "%s\n" (hex (sc_interp fops a b l))
         | "IV3" -> let a = v3 () in let b = v3 () in let l = nf () in Printf.printf "%s\n" (p3 (v3_interp fops a b l))
         | "IUV" -> let a = v3 () in let b = v3 () in let l = nf () in
           Printf.printf "%s %s\n" (p3 (uv_interp fops a b l)) (hex (if uv_interp_undefined fops a b l then 1.0 else 0.0))
         | "IQ" -> let a = q4 () in let b = q4 () in let l = nf () in
           Printf.printf "%s %s\n" (p4 (q_interp fops a b l)) (hex (if q_interp_undefined fops pi a b l then 1.0 else 0.0))
         | "AC" -> (match next () with
             | "UV" -> let a = v3 () in Printf.printf "%s\n" (p3 (uv_constrain fops a))
             | _ -> let a = q4 () in Printf.printf "%s\n" (p4 (q_constrain fops a)))
         | "AR" -> let t = next () in let f = nf () in
           (match t with
            | "SC" -> let a = nf () in let b = nf () in
              Printf.printf "%s %s %s %s\n" (hex (a +. b)) (hex (a -. b)) (hex (f *. a)) (hex (a /. f))
            | "UV" | "V3" -> let a = v3 () in let b = v3 () in
              let ((ax, ay), az) = a in
              Printf.printf "%s %s %s %s\n" (p3 (v3add fops a b)) (p3 (v3sub fops a b)) (p3 (v3scale fops f a)) (p3 ((ax /. f, ay /. f), az /. f))
            | "Q" -> let a = q4 () in let b = q4 () in
              let (((a0, a1), a2), a3) = a in
              Printf.printf "%s %s %s %s\n" (p4 (qadd fops a b)) (p4 (qsub fops a b)) (p4 (qscale fops f a)) (p4 (((a0 /. f, a1 /. f), a2 /. f), a3 /. f))
            | _ -> let n = ni () in let a = List.init n (fun _ -> nf ()) in let b = List.init n (fun _ -> nf ()) in
              let pl l = String.concat " " (List.map hex l) in
              Printf.printf "%s %s %s %s\n" (pl (List.map2 ( +. ) a b)) (pl (List.map2 ( -. ) a b)) (pl (List.map (fun x -> x *. f) a)) (pl (List.map (fun x -> x /. f) a)))
         | "ERR" -> Printf.printf "%s %s\n" (hex 1.0) (hex 1.0)
         | "INN" -> (match next () with
             | "UV" | "V3" -> let a = v3 () in let b = v3 () in
               Printf.printf "%s %s\n" (hex (v3dot fops a b)) (hex (v3norm2 fops a))
             | "Q" -> let a = q4 () in let b = q4 () in Printf.printf "%s %s\n" (hex (qdot fops a b)) (hex (qnorm2 fops a))
             | _ -> let n = ni () in let a = List.init n (fun _ -> nf ()) in let b = List.init n (fun _ -> nf ()) in
               Printf.printf "%s %s\n" (hex (vec_inner fops a b)) (hex (vec_inner fops a a)))
         | "CD" | "CW" | "HB" | "FV" | "ML" ->
           let kind = next () in let wc = nf () in let n = ni () in
           let k = (match kind with
               | "distance" | "eulerTheta" | "polarTheta" | "tilt" | "orientationAngle" | "dihedralCoeff2" -> KScalar
               | "dihedral" | "spinAngle" | "eulerPhi" | "eulerPsi" | "polarPhi" -> KPeriodic (360.0, wc)
               (* sums / differences of components: the periods of the components in the order the code creates them *)
               | "dihedralSum" | "dihedralDiff" -> hv_kind fops wc [Some 360.0; Some 360.0]
               | "mixDihedralDistance" -> hv_kind fops wc [Some 360.0; None]
               | "mixAngleDihedral" -> hv_kind fops wc [None; Some 360.0]
               | "mixPeriods" -> hv_kind fops wc [Some 10.0; Some 20.0]
               (* components nesting other components: the type-generic functions of their value type *)
               | "lcScalar" | "gspathCV" | "gzpathCV" | "aspathCV" | "azpathCV" -> KScalar
               | "lcVec3" -> KVec3 (false, None)
               | "distanceDir" -> KUnit
               | "orientation" -> KQuat
               | "cartesian" | "distancePairs" -> KVector
               | s when String.length s > 10 && String.sub s 0 10 = "distanceZ:" ->
                 KPeriodic (fl (String.sub s 10 (String.length s - 10)), wc)
               | s when String.length s > 9 && String.sub s 0 9 = "scripted:" ->
                 KPeriodic (fl (String.sub s 9 (String.length s - 9)), wc)
               | _ -> KScalar) in
           let rd () = (match k with
               | KScalar | KPeriodic _ -> VS (nf ())
               | KUnit | KVec3 _ -> V3 (v3 ())
               | KQuat -> VQ (q4 ())
               | KVector -> VL (List.init n (fun _ -> nf ()))) in
           let pv v = (match v with
               | VS x -> hex x | V3 x -> p3 x | VQ x -> p4 x | VL x -> String.concat " " (List.map hex x)) in
           if w.(0) = "HB" then begin
             let kk = nf () in let ww = nf () in let a = rd () in let b = rd () in
             (match hr_energy fops pi kk ww k a b, hr_force fops pi kk ww k a b with
              | Some e, Some f -> Printf.printf "%s %s\n" (hex e) (pv f)
              | _ -> Printf.printf "typeerror\n")
           end else if w.(0) = "ML" then begin
             let ww = nf () in let sg = nf () in let a = rd () in let b = rd () in
             (match hill_energy fops pi ww sg k a b, hill_force fops pi ww sg k a b with
              | Some e, Some f -> Printf.printf "%s %s\n" (hex e) (pv f)
              | _ -> Printf.printf "typeerror\n")
           end else if w.(0) = "FV" then begin
             let dt = nf () in let a = rd () in let b = rd () in
             (match fd_velocity fops pi dt k a b with
              | Some v -> Printf.printf "%s\n" (pv v)
              | None -> Printf.printf "typeerror\n")
           end else
           if w.(0) = "CD" then begin
             let a = rd () in let b = rd () in
             (match comp_dist2 fops pi k a b, comp_lgrad fops pi k a b, comp_rgrad fops pi k a b with
              | Some d, Some g, Some r -> Printf.printf "%s %s %s\n" (hex d) (pv g) (pv r)
              | _ -> Printf.printf "typeerror\n")
           end else begin
             let a = rd () in Printf.printf "%s\n" (pv (comp_wrap fops k a))
           end
         | "SUM" | "SUMM" -> let n = ni () in
           (* keyword rank = position in the alphabetical (std::map) order of the component keywords *)
           let rank kw = (match kw with "angle" -> 0 | "dihedral" -> 1 | "distance" -> 2 | "distanceZ" -> 3 | "eulerPhi" -> 4
                                     | "polarPhi" -> 5 | _ -> 6) in
           let comps = List.init n (fun _ ->
               let kw = next () in let pp = nf () in let co = nf () in let ex = ni () in let wc = nf () in
               let per_kw = (kw = "dihedral" || kw = "polarPhi" || kw = "spinAngle" || kw = "eulerPhi") in
               let per = per_kw || (kw = "distanceZ" && pp <> 0.0) in
               { sc_per = per; sc_P = (if per_kw then 360.0 else if per then pp else 0.0); sc_wc = (if per then wc else 0.0);
                 sc_coeff = co; sc_exp = z_of_int ex; sc_rank = z_of_int (rank kw) }) in
           let l0 = sum_creation_order comps in
           (* SUMM: the component number jc (creation order) gets a new period (0 = unchanged; only given for distanceZ) and coefficient *)
           let l = if w.(0) = "SUMM" then begin
               let jc = ni () in let pn = nf () in let cn = nf () in
               let rec nat_of n = if n <= 0 then O else S (nat_of (n - 1)) in
               sum_history l0 [((nat_of jc, (if pn <> 0.0 then Some pn else None)), cn)]
             end else l0 in
           let x1 = nf () in let x2 = nf () in let xw = nf () in
           let k = sum_kind fops l in
           let (fl_, pp, cc) = (match sum_periodic fops l with Some (pp, cc) -> (1.0, pp, cc) | None -> (0.0, 0.0, 0.0)) in
           let sv v = (match v with VS x -> hex x | _ -> "?") in
           (match comp_dist2 fops pi k (VS x1) (VS x2), comp_lgrad fops pi k (VS x1) (VS x2), comp_rgrad fops pi k (VS x1) (VS x2) with
            | Some d, Some g, Some rg ->
              Printf.printf "%s %s %s %s %s %s %s\n" (hex fl_) (hex pp) (hex cc) (hex d) (sv g) (sv rg) (sv (comp_wrap fops k (VS xw)))
            | _ -> Printf.printf "typeerror\n")
         | "OK" -> let pp = nf () in let c = nf () in let h = nf () in let kc = nf () in let sg = nf () in let cut2 = nf () in let vac = nf () in let x = nf () in
           (match opes_kernel fops pi h sg cut2 vac (KPeriodic (pp, c)) kc x with
            | Some v -> Printf.printf "%s %s\n" (hex v) (hex v)
            | None -> Printf.printf "typeerror\n")
         | "HW" -> let pp = nf () in let c = nf () in let kk = nf () in let ww = nf () in let lk = nf () in let uk = nf () in
           let lo = nf () in let up = nf () in let x = nf () in
           let k = if pp <> 0.0 then KPeriodic (pp, c) else KScalar in
           Printf.printf "%s %s %s\n" (hex (hw_distance fops k lo up x)) (hex (hw_energy fops kk ww lk uk k lo up x)) (hex (hw_force fops kk ww lk uk k lo up x))
         | "MR" -> let pp = nf () in let c = nf () in let x0 = nf () in let x1 = nf () in
           let out = ref [] in
           while !p < Array.length w do let l = nf () in out := hex (mr_center fops c pp x0 x1 l) :: !out done;
           Printf.printf "%s\n" (String.concat " " (List.rev !out))
         | "OM" -> let pp = nf () in let c = nf () in let h1 = nf () in let k1 = nf () in let _s1 = nf () in
           let h2 = nf () in let k2 = nf () in let _s2 = nf () in
           Printf.printf "%s %s\n" (hex (opes_merge_center fops c pp h1 k1 h2 k2)) (hex (h1 +. h2))
         | "IVEC" -> let n = ni () in let a = List.init n (fun _ -> nf ()) in let b = List.init n (fun _ -> nf ()) in let l = nf () in
           Printf.printf "%s\n" (String.concat " " (List.map hex (vec_interp fops a b l)))
         | "OBJ" -> let p0 = nf () in let c0 = nf () in
           (* the history is run one operation at a time (pv_run on singleton lists; pv_run_app in the proofs) so that the
              "X" operation (wrap both values with the parameters in force, then distance) can read the state in force *)
           let st = ref { pv_P = p0; pv_c = c0 } in
           let outs = ref [] in
           let step o = let (s', out) = pv_run fops !st [o] in st := s'; outs := List.concat out :: !outs in
           while !p < Array.length w do
             (match next () with
              | "M" | "S" -> let pp = nf () in let c = nf () in step (PvModify (pp, c))
              | "W" -> let x = nf () in step (PvWrap x)
              | "D" -> let a = nf () in let b = nf () in step (PvDist2 (a, b))
              | "X" -> let a = nf () in let b = nf () in outs := pv_wrapped_dist2 fops !st a b :: !outs
              | _ -> ())
           done;
           let fl = List.concat (List.rev !outs) in
           Printf.printf "%s\n" (if fl = [] then "-" else String.concat " " (List.map hex fl))
         | _ -> Printf.printf "?\n")
      end
    done
  with End_of_file -> ()
