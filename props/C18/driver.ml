(* C18 model driver *)
open Model
open X_fops
let pi = 3.14159265358979323846
let () =
  try
    while true do
      let line = input_line stdin in
      let w = Array.of_list (words line) in
      if Array.length w > 0 then begin
        let p = ref 1 in
        let next () = let s = w.(!p) in Stdlib.incr p; s in
        let nf () = fl (next ()) in
        let ni () = int_of_string (next ()) in
        let v3 () = let a = nf () in let b = nf () in let c = nf () in ((a, b), c) in
        let q4 () = let a = nf () in let b = nf () in let c = nf () in let d = nf () in (((a, b), c), d) in
        let p3 ((a, b), c) = Printf.sprintf "%s %s %s" (hex a) (hex b) (hex c) in
        let p4 (((a, b), c), d) = Printf.sprintf "%s %s %s %s" (hex a) (hex b) (hex c) (hex d) in
        (match w.(0) with
         | "SC" -> let a = nf () in let b = nf () in
           Printf.printf "%s %s\n" (hex (sc_dist2 fops a b)) (hex (sc_grad fops a b))
         | "PER" -> let pp = nf () in let _c = nf () in let a = nf () in let b = nf () in
           Printf.printf "%s %s\n" (hex (per_dist2 fops pp a b)) (hex (per_grad fops pp a b))
         | "WRAP" -> let pp = nf () in let c = nf () in let x = nf () in
           Printf.printf "%s\n" (hex (cvc_wrap fops c pp x))
         | "V3" -> let a = v3 () in let b = v3 () in
           Printf.printf "%s %s\n" (hex (v3_dist2 fops a b)) (p3 (v3_grad fops a b))
         | "UV" -> let a = v3 () in let b = v3 () in
           Printf.printf "%s %s\n" (hex (uv_dist2 fops a b)) (p3 (uv_grad fops a b))
         | "Q" -> let a = q4 () in let b = q4 () in
           Printf.printf "%s %s\n" (hex (q_dist2 fops pi a b)) (p4 (q_grad fops pi a b))
         | "VEC" -> let n = ni () in let a = List.init n (fun _ -> nf ()) in let b = List.init n (fun _ -> nf ()) in
           Printf.printf "%s %s\n" (hex (vec_dist2 fops a b)) (String.concat " " (List.map hex (vec_grad fops a b)))
         | "DV" -> let pbc = ni () <> 0 in let hc = ni () <> 0 in let cell = v3 () in let a = v3 () in let b = v3 () in
           let c = if hc then Some cell else None in
           Printf.printf "%s %s\n" (hex (dv_dist2 fops pbc c a b)) (p3 (dv_lgrad fops pbc c a b))
         | "ISC" -> let a = nf () in let b = nf () in let l = nf () in Printf.printf "%s\n" (hex (sc_interp fops a b l))
         | "IV3" -> let a = v3 () in let b = v3 () in let l = nf () in Printf.printf "%s\n" (p3 (v3_interp fops a b l))
         | "IUV" -> let a = v3 () in let b = v3 () in let l = nf () in Printf.printf "%s\n" (p3 (uv_interp fops a b l))
         | "IVEC" -> let n = ni () in let a = List.init n (fun _ -> nf ()) in let b = List.init n (fun _ -> nf ()) in let l = nf () in
           Printf.printf "%s\n" (String.concat " " (List.map hex (vec_interp fops a b l)))
         | "OBJ" -> let p0 = nf () in let c0 = nf () in
           let ops = ref [] in
           while !p < Array.length w do
             (match next () with
              | "M" -> let pp = nf () in let c = nf () in ops := PvModify (pp, c) :: !ops
              | "W" -> let x = nf () in ops := PvWrap x :: !ops
              | "D" -> let a = nf () in let b = nf () in ops := PvDist2 (a, b) :: !ops
              | _ -> ())
           done;
           let (_, outs) = pv_run fops { pv_P = p0; pv_c = c0 } (List.rev !ops) in
           let fl = List.concat outs in
           Printf.printf "%s\n" (if fl = [] then "-" else String.concat " " (List.map hex fl))
         | _ -> Printf.printf "?\n")
      end
    done
  with End_of_file -> ()
