# C03 tie: the extracted resume model (driver.ml) against the implementation's A / B runs and state files.
import os, re
import vcommon as V
import c03_resume as R

TOL = 1e-9


def hx(x):
    return V.hexf(x)


def close(a, b, tol=TOL):
    return R.close(a, b, tol)


# --------------------------------------------------------------------------------------------- model case lines
def rcfg_tokens(M):
    nv = len(M["vars"])
    p = [M["kind"], str(nv)]
    for v in M["vars"]:
        p += [hx(v["w"]), "1" if v["per"] else "0", hx(v["P"]), hx(v["wc"])]
    p += [hx(x) for x in M["centers"]]
    p += ["1" if M["chgc"] else "0"] + [hx(x) for x in M["target_centers"]]
    p += [hx(M["k0"]), "1" if M["chgk"] else "0", "1" if M["dec"] else "0", hx(M["sk"]), hx(M["tk"]), hx(M["lexp"])]
    p += [str(len(M["sched"]))] + [hx(x) for x in M["sched"]]
    p += [str(M["N"]), str(M["nstages"]), str(M["equil"])]
    p += ["1" if M["accw"] else "0", "1" if M["hl"] else "0", "1" if M["hu"] else "0"]
    p += [hx(x) for x in M["lower"]] + [hx(x) for x in M["upper"]]
    p += [hx(M["lk"]), hx(M["uk"]), str(M["it0"])]
    return p


def model_line(c, K, cvs):
    """cvs[t] = list of variable values at step t as the implementation computed them (inputs of the biases)"""
    fam = c["fam"]
    M = c["model"]
    T = len(c["pos"])
    if fam == "restraint":
        p = ["RESTR"] + rcfg_tokens(M) + [str(T), str(K)]
        for t in range(T):
            p += [hx(x) for x in cvs[t]]
        return " ".join(p)
    if fam == "histogram":
        nv = len(M["lower"])
        p = ["HIST", str(nv)] + [hx(x) for x in M["lower"]] + [hx(x) for x in M["width"]] + [str(n) for n in M["nx"]]
        p += ["1" if M["szd"] else "0", str(c["it0"]), str(T), str(K)]
        for t in range(T):
            p += [hx(x) for x in cvs[t]]
        qs = all_indices(M["nx"])
        p += [str(len(qs))]
        for q in qs:
            p += [str(i) for i in q]
        return " ".join(p)
    if fam == "alb":
        p = ["ALB", hx(M["center"]), hx(M["width"]), str(M["freq"]), hx(M["kT"]), hx(M["range0"]), hx(M["maxrate"]),
             "1" if M["hard"] else "0", hx(M["k0"]), str(c["it0"]), str(T), str(K)]
        p += [hx(cvs[t][0]) for t in range(T)]
        return " ".join(p)
    if fam == "abmd":
        p = ["ABMD", hx(M["k"]), hx(M["stop"]), "1" if M["dec"] else "0", str(c["it0"]), str(T), str(K)]
        p += [hx(cvs[t][0]) for t in range(T)]
        return " ".join(p)
    if fam == "meta":
        nd = len(M["vars"])
        p = ["META", str(nd)]
        for v in M["vars"]:
            p += [hx(v["sigma"]), hx(v["w"]), hx(v["lower"]), hx(v["upper"]), str(v["nx"]), "1" if v.get("expand") else "0"]
        p += [hx(M["W"]), hx(M["hw"]), str(M["freq"]), str(M["gfreq"]), "1" if M["use_grids"] else "0",
              "1" if M["keep"] else "0", "1" if M["wt"] else "0", hx(M["bt"]), hx(0.001987191)]
        eb = M.get("eb")
        p += ["1" if eb else "0", str(eb["equil"] if eb else 0), str(len(eb["target"]) if eb else 0)]
        p += [hx(x) for x in (eb["target"] if eb else [])]
        p += [str(c["it0"]), str(T), str(K)]
        for t in range(T):
            p += [hx(x) for x in cvs[t]]
        return " ".join(p)
    if fam == "abf":
        nd = M["nd"]
        p = ["ABF", str(nd)] + [hx(x) for x in M["lower"]] + [hx(x) for x in M["width"]] + [str(n) for n in M["nx"]]
        p += ["1" if x else "0" for x in M["periodic"]] + [str(M["full"]), str(M["min"]), "1" if M["update"] else "0",
              "1" if M["cap"] else "0"] + [hx(x) for x in M["maxf"]] + ["1" if M["same"] else "0"]
        p += ["1" if x else "0" for x in M["sub"]] + ["1" if x else "0" for x in M["other"]]
        p += [str(c["it0"]), str(T), str(K)]
        for t in range(T):
            o = [0.0] * nd
            if M["hk"] is not None:
                dd = cvs[t][0] - M["hc"]
                if M["periodic"][0]:
                    import math
                    dd = dd - math.floor(dd / M["P"][0] + 0.5) * M["P"][0]
                o[0] = -0.5 * M["hk"] / (M["width"][0] * M["width"][0]) * (2.0 * dd)
            p += [hx(x) for x in cvs[t]] + [hx(x) for x in c["ef"][t]] + [hx(x) for x in o]
        qs = all_indices(M["nx"])
        p += [str(len(qs))]
        for q in qs:
            p += [str(i) for i in q]
        return " ".join(p)
    if fam == "histrestraint":
        import math
        p = ["HISTR", hx(M["k"]), hx(math.pi), hx(M["sigma"]), hx(M["lower"]), hx(M["width"]), str(len(M["ref"]))]
        p += [hx(x) for x in M["ref"]] + [str(c["it0"]), str(T), str(K), str(len(cvs[0]))]
        for t in range(T):
            p += [hx(x) for x in cvs[t]]
        return " ".join(p)
    if fam == "eabf":
        X = M["x"]
        p = ["EABF", hx(X["dt"]), hx(X["mass"]), hx(X["k"]), "1" if X["langevin"] else "0", hx(X["gf"]), hx(X["sigma"]),
             hx(M["lower"]), hx(M["width"]), str(M["nx"]), str(M["full"]), str(M["min"]), str(c["it0"]), str(T), str(K)]
        for t in range(T):
            p += [hx(c["pos"][t][0]), hx(X["rnd"])]
        return " ".join(p)
    if fam == "extlag":
        X = M["x"]
        p = ["EXTLAG", hx(X["dt"]), hx(X["mass"]), hx(X["k"]), "1" if X["langevin"] else "0", hx(X["gf"]), hx(X["sigma"]),
             "1" if X["rlo"] else "0", hx(X["lo"]), "1" if X["rup"] else "0", hx(X["up"])]
        p += rcfg_tokens(M["r"]) + [str(T), str(K)]
        for t in range(T):
            p += [hx(c["pos"][t][0]), hx(X["rnd"])]
        return " ".join(p)
    return None


def all_indices(nx):
    out = [[]]
    for n in nx:
        out = [q + [i] for q in out for i in range(n)]
    return out


# --------------------------------------------------------------------------------------------- model output
def parse_fields(s):
    d = {}
    for tok in s.split():
        if "=" in tok:
            a, b = tok.split("=", 1)
            d[a] = b
    return d


def flist(s):
    if s is None or s in ("-", ""):
        return []
    return [float.fromhex(t) for t in s.split(",")]


def parse_model(line):
    """-> {"A": [step dicts], "B": [...], "S": dict}"""
    out = {"A": [], "B": [], "S": {}}
    for sec in line.split(" | "):
        sec = sec.strip()
        if not sec:
            continue
        tag, rest = sec[0], sec[1:].strip()
        if tag == "S":
            out["S"] = parse_fields(rest)
        else:
            tail = None
            mx = re.search(r"(?:^|\s)CNT=(\S*) GRAD=(\S*)$", rest)
            if mx:
                out[tag + "X"] = {"CNT": mx.group(1), "GRAD": mx.group(2)}
                rest = rest[:mx.start()]
            m = re.search(r"(?:^|\s)G=(\S*)$", rest)
            if m:
                tail = m.group(1)
                rest = rest[:m.start()]
            for part in rest.split(" ; "):
                d = parse_fields(part)
                if d:
                    out[tag].append(d)
            if tail is not None:
                out[tag + "G"] = tail
    return out


# --------------------------------------------------------------------------------------------- implementation side
def state_block(path, word, name):
    """keyword -> list of tokens for the block `word { ... name <name> ...}` of a text state file"""
    try:
        txt = open(path, errors="replace").read()
    except OSError:
        return None
    # split top-level blocks
    i = 0
    n = len(txt)
    while i < n:
        m = re.compile(r"(\w+)\s*\{").search(txt, i)
        if not m:
            break
        depth = 1
        j = m.end()
        while j < n and depth:
            if txt[j] == "{":
                depth += 1
            elif txt[j] == "}":
                depth -= 1
            j += 1
        body = txt[m.end():j - 1]
        if m.group(1) == word and re.search(r"\bname\s+%s\b" % re.escape(name), body):
            d = {}
            key = None
            for line in body.split("\n"):
                w = line.replace("{", " ").replace("}", " ").split()
                if not w:
                    continue
                if not R.NUM.match(w[0]):
                    key = w[0]
                    d.setdefault(key, [])
                    d[key] += w[1:]
                elif key is not None:
                    d[key] += w
            return d
        i = j
    return None


def cmp_list(a, b, tol=TOL):
    return len(a) == len(b) and all(close(x, y, tol) for x, y in zip(a, b))


def compare_case(c, K, fmt, mo, A, B, files):
    """-> list of (component, impl, model).  mo: parsed model line; A, B: parsed implementation runs
    (lists of step blocks); files: dict of state-file paths (a = written after K, fA, fB = final)."""
    fam = c["fam"]
    bad = []
    T = len(c["pos"])

    def steps(tag, impl_steps, off):
        ms = mo[tag]
        if len(ms) != len(impl_steps) - off:
            bad.append(("%s:%s:steps" % (fam, tag), len(impl_steps) - off, len(ms)))
            return
        for j, m in enumerate(ms):
            blk = impl_steps[off + j]
            if int(m["it"]) != blk["it"]:
                bad.append(("%s:%s:step-number" % (fam, tag), blk["it"], int(m["it"])))
                return
            if fam in ("restraint", "extlag", "abmd", "alb"):
                bname = "r" if fam not in ("abmd", "alb") else "a"
                if fam == "extlag" and c["model"].get("nobias"):
                    pass
                elif not close(float.fromhex(m["E"]), blk["bias"].get(bname, float("nan"))):
                    bad.append(("%s:%s:energy" % (fam, tag), (blk["it"], blk["bias"].get(bname)), float.fromhex(m["E"])))
                    return
            if fam == "restraint":
                fi = [blk["atomf"][str(i + 1)][2] for i in range(c["natoms"])]
                if not cmp_list(fi, flist(m["F"])):
                    bad.append(("%s:%s:force" % (fam, tag), (blk["it"], fi), flist(m["F"])))
                    return
                ml = []
                if m["L"] != "-":
                    x, y = m["L"].split(":")
                    ml = [(float.fromhex(x), float.fromhex(y))]
                il = blk["log"]
                resumed_first = (tag == "B" and j == 0)
                if not (len(il) == len(ml) and all(close(p[0], q[0], 1e-5) and close(p[1], q[1], 2e-5) for p, q in zip(il, ml))):
                    bad.append(("%s:%s:log" % (fam, tag), (blk["it"], il), ml))
                    return
            if fam == "alb":
                # the model reports k/width; the force on the atom is minus that
                if not close(blk["atomf"]["1"][2], -float.fromhex(m["F"])):
                    bad.append(("%s:%s:force" % (fam, tag), (blk["it"], blk["atomf"]["1"][2]), -float.fromhex(m["F"])))
                    return
            if fam == "abmd":
                if not close(blk["atomf"]["1"][2], float.fromhex(m["F"])):
                    bad.append(("%s:%s:force" % (fam, tag), (blk["it"], blk["atomf"]["1"][2]), float.fromhex(m["F"])))
                    return
            if fam == "extlag":
                if not close(blk["cv"]["v0"][0], float.fromhex(m["XR"])):
                    bad.append(("%s:%s:extended-value" % (fam, tag), (blk["it"], blk["cv"]["v0"][0]), float.fromhex(m["XR"])))
                    return
                if not close(blk["atomf"]["1"][2], float.fromhex(m["FA"])):
                    bad.append(("%s:%s:atom-force" % (fam, tag), (blk["it"], blk["atomf"]["1"][2]), float.fromhex(m["FA"])))
                    return

    if fam == "meta":
        nd = len(c["model"]["vars"])
        pending = "pending-hills" in (c.get("sigtags") or [])
        for tag, impl_steps, off in (("A", A, K + 1), ("B", B, 0)):
            ms = mo[tag]
            if len(ms) != len(impl_steps) - off:
                bad.append(("meta:%s:steps" % tag, len(impl_steps) - off, len(ms)))
                continue
            for j, m in enumerate(ms):
                blk = impl_steps[off + j]
                fi = [blk["atomf"][str(i + 1)][2] for i in range(nd)]
                if int(m["it"]) != blk["it"] or not close(blk["bias"].get("m", float("nan")), float.fromhex(m["E"])) \
                   or not cmp_list(fi, flist(m["F"])):
                    bad.append(("meta:%s:energy-force" % tag, (blk["it"], blk["bias"].get("m"), fi),
                                (m["it"], float.fromhex(m["E"]), flist(m["F"]))))
                    break
        # explicit hills in the state file written after step K (text): their number
        if fmt == "text":
            try:
                txt = open(files["a"], errors="replace").read()
            except OSError:
                txt = ""
            nh = len(re.findall(r"(?m)^\s*hill\s*\{", txt))
            if nh != int(mo["S"]["NH"]):
                bad.append(("meta:state:hills", nh, int(mo["S"]["NH"])))
        return bad
    if fam == "histrestraint":
        for tag, impl_steps, off in (("A", A, K + 1), ("B", B, 0)):
            ms = mo[tag]
            if len(ms) != len(impl_steps) - off:
                bad.append(("histrestraint:%s:steps" % tag, len(impl_steps) - off, len(ms)))
                continue
            for j, m in enumerate(ms):
                blk = impl_steps[off + j]
                if int(m["it"]) != blk["it"] or not close(blk["bias"].get("hr", float("nan")), float.fromhex(m["E"])):
                    bad.append(("histrestraint:%s:energy" % tag, (blk["it"], blk["bias"].get("hr")), (m["it"], float.fromhex(m["E"]))))
                    break
        return bad
    if fam == "eabf":
        for tag, impl_steps, off in (("A", A, K + 1), ("B", B, 0)):
            ms = mo[tag]
            if len(ms) != len(impl_steps) - off:
                bad.append(("eabf:%s:steps" % tag, len(impl_steps) - off, len(ms)))
                continue
            for j, m in enumerate(ms):
                blk = impl_steps[off + j]
                if int(m["it"]) != blk["it"] or not close(blk["cv"]["v0"][0], float.fromhex(m["XR"])) \
                   or not close(blk["atomf"]["1"][2], float.fromhex(m["FA"])):
                    bad.append(("eabf:%s:extended-value-force" % tag, (blk["it"], blk["cv"]["v0"][0], blk["atomf"]["1"][2]),
                                (m["it"], float.fromhex(m["XR"]), float.fromhex(m["FA"]))))
                    break
        for tag, fpath in (("S", files["a"]), ("A", files["fA"]), ("B", files["fB"])):
            if tag == "S" and fmt != "text":
                continue
            blk = state_block(fpath, "abf", "a")
            g = (mo["S"] if tag == "S" else mo[tag + "X"])
            mc = [int(x) for x in g["CNT"].split(",")]
            mg = flist(g["GRAD"])
            ic = [float(x) for x in blk.get("samples", [])] if blk else None
            ig = [float(x) for x in blk.get("gradient", [])] if blk else None
            if ic is None or len(ic) != len(mc) or any(a != b for a, b in zip(ic, mc)):
                bad.append(("eabf:%s:samples" % tag, ic, mc))
            elif ig is None or not cmp_list(ig, mg):
                bad.append(("eabf:%s:gradient" % tag, ig, mg))
        if fmt == "text":
            cb = state_block(files["a"], "colvar", "v0")
            for key in ("x", "extended_x", "extended_v"):
                iv = cb.get(key) if cb else None
                if iv is None or not close(float(iv[0]), float.fromhex(mo["S"][key])):
                    bad.append(("eabf:state:%s" % key, iv, float.fromhex(mo["S"][key])))
        return bad
    if fam == "abf":
        nd = c["model"]["nd"]
        for tag, impl_steps, off in (("A", A, K + 1), ("B", B, 0)):
            ms = mo[tag]
            if len(ms) != len(impl_steps) - off:
                bad.append(("abf:%s:steps" % tag, len(impl_steps) - off, len(ms)))
                continue
            for j, m in enumerate(ms):
                blk = impl_steps[off + j]
                fi = [blk["atomf"][str(i + 1)][2] for i in range(nd)]
                if int(m["it"]) != blk["it"] or not cmp_list(fi, flist(m["F"])):
                    bad.append(("abf:%s:force" % tag, (blk["it"], fi), (m["it"], flist(m["F"]))))
                    break
        for tag, fpath in (("S", files["a"]), ("A", files["fA"]), ("B", files["fB"])):
            if tag == "S" and fmt != "text":
                continue
            blk = state_block(fpath, "abf", "a")
            g = (mo["S"] if tag == "S" else mo[tag + "X"])
            mc = [int(x) for x in g["CNT"].split(",")]
            mg = flist(g["GRAD"])
            ic = [float(x) for x in blk.get("samples", [])] if blk else None
            ig = [float(x) for x in blk.get("gradient", [])] if blk else None
            if ic is None or len(ic) != len(mc) or any(a != b for a, b in zip(ic, mc)):
                bad.append(("abf:%s:samples" % tag, ic, mc))
            elif ig is None or not cmp_list(ig, mg):
                bad.append(("abf:%s:gradient" % tag, ig, mg))
        return bad
    if fam != "histogram":
        steps("A", A, K + 1)
        steps("B", B, 0)
    # which fields the state file carries, and their values
    S = mo["S"]
    if fmt == "text":
        if fam in ("restraint", "extlag"):
            word = "restraint"      # colvarbias_restraint sets state_keyword = "restraint" for every restraint type
            has_bias = not (fam == "extlag" and c["model"].get("nobias"))
            blk = state_block(files["a"], word, "r") if has_bias else {}
            if blk is None:
                bad.append(("%s:state:block" % fam, None, "restraint block"))
            elif has_bias:
                for key in ("firstStep", "stage", "centers", "forceConstant", "restraintFE", "accumulatedWork"):
                    mv = S.get(key, "-")
                    iv = blk.get(key)
                    if (mv == "-") != (iv is None):
                        bad.append(("%s:state:key-%s" % (fam, key), iv, mv))
                        continue
                    if iv is None:
                        continue
                    if key in ("firstStep", "stage"):
                        if int(iv[0]) != int(mv):
                            bad.append(("%s:state:%s" % (fam, key), iv, mv))
                    else:
                        if not cmp_list([float(x) for x in iv], flist(mv)):
                            bad.append(("%s:state:%s" % (fam, key), iv, flist(mv)))
            if fam == "extlag":
                cb = state_block(files["a"], "colvar", "v0")
                if cb is None:
                    bad.append(("extlag:state:block", None, "colvar block"))
                else:
                    for key in ("x", "extended_x", "extended_v"):
                        iv = cb.get(key)
                        if iv is None or not close(float(iv[0]), float.fromhex(S[key])):
                            bad.append(("extlag:state:%s" % key, iv, float.fromhex(S[key])))
        if fam == "alb":
            blk = state_block(files["a"], "alb", "a")
            if blk is None:
                bad.append(("alb:state:block", None, "alb block"))
            else:
                for key in ("setCoupling", "currentCoupling", "maxCouplingRange", "couplingRate", "couplingAccum", "mean", "ssd",
                            "forceCoupling"):
                    iv = blk.get(key)
                    if iv is None or not close(float(iv[0]), float.fromhex(S[key])):
                        bad.append(("alb:state:%s" % key, iv, float.fromhex(S[key])))
                iv = blk.get("updateCalls")
                if iv is None or int(iv[0]) != int(S["updateCalls"]):
                    bad.append(("alb:state:updateCalls", iv, S["updateCalls"]))
                iv = blk.get("b_equilibration")
                if iv is None or iv[0] != S["b_equilibration"]:
                    bad.append(("alb:state:b_equilibration", iv, S["b_equilibration"]))
        if fam == "abmd":
            blk = state_block(files["a"], "abmd", "a")
            iv = blk.get("refValue") if blk else None
            if iv is None or not close(float(iv[0]), float.fromhex(S["refValue"])):
                bad.append(("abmd:state:refValue", iv, float.fromhex(S["refValue"])))
        st = state_block(files["a"], "configuration", "") if False else None
    if fam == "histogram":
        for tag, fpath in (("S", files["a"]), ("A", files["fA"]), ("B", files["fB"])):
            if tag == "S" and fmt != "text":
                continue
            blk = state_block(fpath, "histogram", "h")
            mg = [int(x) for x in (mo["S"]["G"] if tag == "S" else mo[tag + "G"]).split(",")]
            ig = [float(x) for x in blk.get("grid", [])] if blk else None
            if ig is None or len(ig) != len(mg) or any(a != b for a, b in zip(ig, mg)):
                bad.append(("histogram:%s:grid" % tag, ig, mg))
        if int(mo["S"]["step"]) != c["it0"] + K:
            bad.append(("histogram:state:step", c["it0"] + K, mo["S"]["step"]))
    return bad
