# C03: running the resume experiment on the implementation and judging it (property oracle).
import os, sys, json, subprocess
from concurrent.futures import ThreadPoolExecutor
import vcommon as V
import resume as R

JOBS = min(4, V.NPROC)


def run_scenario(exe, lines, timeout=600):
    try:
        p = subprocess.run([exe], input="\n".join(lines) + "\n", stdout=subprocess.PIPE, stderr=subprocess.PIPE,
                           text=True, errors="replace", timeout=timeout)
        return p.returncode, p.stdout.split("\n"), p.stderr
    except subprocess.TimeoutExpired:
        return 124, [], "TIMEOUT"


def plan(c):
    runs = [("U",)]
    for fmt in c["fmts"]:
        if c.get("check_save_side_effects", True):
            runs.append(("C", fmt))
            break
    for K in c["Ks"]:
        for fmt in c["fmts"]:
            runs.append(("R", K, fmt))
    return runs


def obs_class(obs):
    """observable name without instance names: energy, cv, bias, atomf, state:<keyword>, it, err"""
    return obs.split(":")[0] if not obs.startswith("state:") else obs


def judge(c, d, out, rc, err):
    """-> list of findings {sig, what, K, fmt, kind}.  kind: resume | save-after-load | save-side-effect | load-error | harness"""
    F = []
    fam = c["fam"]
    pre = os.path.join(d, "c%s_" % c["id"])
    runs = R.parse_runs(out)
    T = len(c["pos"])

    def add(kind, sig, what, K=None, fmt=None, **kw):
        f = {"kind": kind, "sig": sig, "what": what, "K": K, "fmt": fmt}
        f.update(kw)
        F.append(f)

    U = runs.get("U")
    if rc != 0 or U is None or len(U["pre"]) != T:
        add("harness", "harness:%s:uninterrupted-run-incomplete" % fam,
            "the uninterrupted run did not complete (rc=%s, %d of %d steps): %s" % (rc, len(U["pre"]) if U else 0, T, err[-300:]))
        return F
    if any(b["err"] != "err=ok" for b in U["pre"]) or any("err=ok" not in e for _, e in U["events"] if not e.startswith("FRESH")):
        add("harness", "harness:%s:uninterrupted-run-error" % fam,
            "the uninterrupted run reports an error: %s" % [e for _, e in U["events"] if "err=ok" not in e and not e.startswith("FRESH")][:2])
        return F
    # saving must not change the run
    C = runs.get("C")
    if C is not None:
        bad = None
        for t, (a, b) in enumerate(zip(U["pre"], C["pre"])):
            dd = R.diff_blocks(a, b)
            if dd:
                bad = (t, dd)
                break
        if bad is None and len(C["pre"]) == T:
            ds = R.diff_states(pre + "U.colvars.state", pre + "C.colvars.state")
            if ds:
                bad = (T - 1, ("state:" + ds[0], ds[1], ds[2]))
        if bad:
            t, dd = bad
            add("save-side-effect", "save-changes-run:%s:%s" % (fam, obs_class(dd[0])),
                "writing the state after every step changes the run: at step %d %s is %r without saving and %r with"
                % (c["it0"] + t, dd[0], dd[1], dd[2]), K=t)
        if U["log_pre"] != C["log_pre"]:
            add("save-side-effect", "save-changes-run:%s:log" % fam, "log lines differ: %r vs %r" % (U["log_pre"][:3], C["log_pre"][:3]))
    for K in c["Ks"]:
        for fmt in c["fmts"]:
            lab = "R_%d_%s" % (K, fmt)
            Rr = runs.get(lab)
            if Rr is None:
                add("harness", "harness:%s:run-missing" % fam, "run %s missing" % lab, K, fmt)
                continue
            evs = [e for _, e in Rr["events"]]
            bad_ev = [e for e in evs if "err=ok" not in e and not e.startswith("FRESH")]
            if bad_ev:
                add("load-error", "load:%s:%s" % (fam, bad_ev[0].split()[0].lower() + "-error"),
                    "stop at step %d, %s state: %s" % (c["it0"] + K, fmt, bad_ev[0]), K, fmt)
                continue
            # the stopped run up to K equals the uninterrupted one (sanity of the harness)
            for t, (a, b) in enumerate(zip(U["pre"], Rr["pre"])):
                dd = R.diff_blocks(a, b, tol=0.0)
                if dd:
                    add("harness", "harness:%s:prefix-differs" % fam, "step %d: %r" % (t, dd), K, fmt)
                    break
            # resumed part
            if len(Rr["post"]) != T - K:
                add("resume", "resume:%s:steps" % fam, "stop at %d (%s): the resumed run made %d steps instead of %d"
                    % (c["it0"] + K, fmt, len(Rr["post"]), T - K), K, fmt)
                continue
            first = None
            for j, b in enumerate(Rr["post"]):
                dd = R.diff_blocks(U["pre"][K + j], b)
                if dd:
                    first = (K + j, dd)
                    break
            if first:
                t, dd = first
                when = "at-restart-step" if t == K else "after"
                add("resume", "resume:%s:%s:%s" % (fam, obs_class(dd[0]), when),
                    "stop at step %d, %s state, resume: at step %d %s is %r, uninterrupted run %r"
                    % (c["it0"] + K, fmt, c["it0"] + t, dd[0], dd[2], dd[1]), K, fmt, t=t, obs=dd[0])
            else:
                ds = R.diff_states(pre + "U.colvars.state", pre + lab + ".colvars.state")
                if ds:
                    add("resume", "resume:%s:state:%s" % (fam, ds[0]),
                        "stop at step %d, %s state, resume: final state differs at `%s`: %r, uninterrupted run %r"
                        % (c["it0"] + K, fmt, ds[0], ds[2], ds[1]), K, fmt, obs="state:" + ds[0])
                # accumulated data reported through the log (TI of staged restraints)
                lu = U["log_pre"]
                lr = Rr["log_pre"] + Rr["log_post"]
                if not first and not logs_equal(lu, lr):
                    add("resume", "resume:%s:log:dA/dLambda" % fam,
                        "stop at step %d, %s state, resume: free-energy derivative lines %r, uninterrupted run %r"
                        % (c["it0"] + K, fmt, lr[:6], lu[:6]), K, fmt, obs="log")
            # saving immediately after loading reproduces the loaded state
            f1 = "%s%s_a.colvars.state" % (pre, lab)
            f2 = "%s%s_b.colvars.state" % (pre, lab)
            if not R.files_equal(f1, f2):
                if fmt == "text":
                    ds = R.diff_states(f1, f2, tol=0.0)
                    det = "first difference at `%s`: loaded %r, written back %r" % ds if ds else "white space only"
                    key = ds[0] if ds else "format"
                else:
                    det = "binary files differ"
                    key = "bytes"
                add("save-after-load", "save-after-load:%s:%s" % (fam, key),
                    "state saved at step %d (%s), loaded in a fresh instance and saved again: %s" % (c["it0"] + K, fmt, det), K, fmt)
    return F


def parse_log_line(l):
    import re
    m = re.search(r"Lambda=\s*(\S+)\s+dA/dLambda=\s*(\S+)", l)
    return (float(m.group(1)), float(m.group(2))) if m else None


def logs_equal(a, b):
    pa = [parse_log_line(x) for x in a]
    pb = [parse_log_line(x) for x in b]
    if len(pa) != len(pb):
        return False
    for x, y in zip(pa, pb):
        if x is None or y is None:
            return False
        if not (R.close(x[0], y[0], 1e-5) and R.close(x[1], y[1], 2e-5)):
            return False
    return True


def run_cases(exe, cases, d):
    def one(c):
        lines = R.scenario(c, d, plan(c))
        c["_nlines"] = len(lines)
        rc, out, err = run_scenario(exe, lines)
        F = judge(c, d, out, rc, err)
        # keep the scratch directory small
        pre = "c%s_" % c["id"]
        for fn in os.listdir(d):
            if fn.startswith(pre):
                try:
                    os.remove(os.path.join(d, fn))
                except OSError:
                    pass
        return F
    with ThreadPoolExecutor(max_workers=JOBS) as ex:
        return list(ex.map(one, cases))
