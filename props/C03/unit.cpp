// C03 harness (c03sim): the engine simulator plus
//   logmark            start capturing the module's log (attached to the current proxy)
//   logdump            print the captured lines that report accumulated data (free-energy derivative of
//                      a staged restraint, "dA/dLambda") as `LOG <line>`; clears the buffer
//   bufsave text|binary  keep the state as an in-memory buffer (text: write_restart_string, binary: write_state_buffer)
//   bufload text|binary  give that buffer to the module as its input state (input state string / set_input_state_buffer)
//   statestr text|binary   print the state the module would write now, as one line of hex bytes
// Everything else goes through the public engine interface (harness/vsim.h): the observables of the
// resume experiment are the per-step values/energies/forces and the state files themselves.
#include "vsim.h"

struct c03_session : public vsim_session {
  std::ostringstream cap;
  std::string buf_text;
  std::vector<unsigned char> buf_bin;
  c03_session(std::ostream *o) : vsim_session(o) {}

  bool exec_extra(std::string const &cmd, std::vector<std::string> const &a, std::istream &) override
  {
    std::ostream &o = *out;
    if (cmd == "logmark") {
      cap.str(""); cap.clear();
      if (proxy) proxy->logos = &cap;
      return true;
    }
    if (cmd == "logdump") {
      std::string txt = cap.str(); cap.str(""); cap.clear();
      std::istringstream ls(txt);
      std::string l;
      while (std::getline(ls, l)) {
        size_t p = l.find("dA/dLambda=");
        size_t q = l.find("Lambda=");
        if (p != std::string::npos && q != std::string::npos) o << "LOG " << l.substr(q) << "\n";
      }
      return true;
    }
    if (cmd == "shufflestate") {
      // shufflestate IN OUT seed: rewrite a text state with its top-level blocks after `configuration` in another
      // order (rotation by seed, then reversed when seed is odd) and one foreign block inserted
      std::ifstream in(a[0].c_str());
      std::stringstream ss; ss << in.rdbuf();
      std::string txt = ss.str();
      std::vector<std::string> blocks;
      size_t i = 0, n = txt.size();
      while (i < n) {
        while (i < n && isspace((unsigned char) txt[i])) i++;
        if (i >= n) break;
        size_t start = i;
        size_t ob = txt.find('{', i);
        if (ob == std::string::npos) break;
        int depth = 1; size_t j = ob + 1;
        while (j < n && depth > 0) { if (txt[j] == '{') depth++; else if (txt[j] == '}') depth--; j++; }
        blocks.push_back(txt.substr(start, j - start));
        i = j;
      }
      std::ofstream outf(a[1].c_str());
      int seed = a.size() > 2 ? atoi(a[2].c_str()) : 1;
      if (blocks.size()) outf << blocks[0] << "\n\n";
      std::vector<std::string> rest(blocks.begin() + (blocks.size() ? 1 : 0), blocks.end());
      if (rest.size()) {
        std::rotate(rest.begin(), rest.begin() + (seed % rest.size()), rest.end());
        if (seed % 2) std::reverse(rest.begin(), rest.end());
      }
      for (size_t k = 0; k < rest.size(); k++) {
        if (k == rest.size() / 2) outf << "harmonic {\n  configuration {\n    step 0\n    name not_in_this_configuration\n  }\n}\n\n";
        outf << rest[k] << "\n\n";
      }
      outf.close();
      o << "SHUFFLED " << rest.size() << "\n";
      return true;
    }
    if (cmd == "bufsave") {
      // bufsave text|binary: the state as the engine-side buffer (GROMACS checkpoint, `cv savetostring`), kept in this session
      cvm::clear_error();
      int err;
      if (a.size() && a[0] == "binary") { buf_bin.clear(); err = proxy->colvars->write_state_buffer(buf_bin); }
      else { buf_text.clear(); err = proxy->colvars->write_restart_string(buf_text); }
      o << "BUFSAVE err=" << vs_errclass(err | cvm::get_error()) << "\n";
      cvm::clear_error();
      return true;
    }
    if (cmd == "bufload") {
      // bufload text|binary: hand the buffer kept by bufsave to the (fresh) module and let it set up its input
      cvm::clear_error();
      int err = COLVARS_OK;
      if (a.size() && a[0] == "binary") {
        std::vector<unsigned char> copy(buf_bin);
        err |= proxy->colvars->set_input_state_buffer(copy);
      } else {
        proxy->input_stream_from_string("input state string", buf_text);
      }
      err |= proxy->colvars->setup_input();
      o << "LOAD err=" << vs_errclass(err | cvm::get_error()) << " it=" << cvm::step_absolute() << "\n";
      cvm::clear_error();
      return true;
    }
    if (cmd == "statestr") {
      cvm::clear_error();
      std::string s;
      if (a.size() && a[0] == "binary") {
        std::vector<unsigned char> buf;
        proxy->colvars->write_state_buffer(buf);
        s.assign(buf.begin(), buf.end());
      } else {
        proxy->colvars->write_restart_string(s);
      }
      o << "STATESTR ";
      static const char *hexd = "0123456789abcdef";
      for (unsigned char ch : s) { o << hexd[ch >> 4] << hexd[ch & 15]; }
      o << "\n";
      cvm::clear_error();
      return true;
    }
    return false;
  }
};

int main(int argc, char **argv)
{
  c03_session s(&std::cout);
  if (argc > 1 && std::string(argv[1]) != "-") {
    std::ifstream f(argv[1]);
    if (!f) { std::cerr << "cannot open " << argv[1] << "\n"; return 2; }
    s.run(f);
  } else {
    s.run(std::cin);
  }
  std::cout.flush();
  return 0;
}
