# C03 configuration families: each generator returns a case dict for resume.scenario().
import math
import vcommon as V
from resume import cv_block

WIDTHS = [0.25, 0.5, 1.0, 2.0]


def vec(l):
    return " ".join("%r" % x for x in l)


def walk(r, nsteps, nat, lo=-4.0, hi=4.0, bits=4, stay=0.25, start=None):
    """dyadic random walk of nat coordinates"""
    pos = []
    cur = start or [V.dyadic(r, lo, hi, bits=bits) for _ in range(nat)]
    for t in range(nsteps):
        if t > 0:
            cur = [z if r.random() < stay else min(hi + 2, max(lo - 2, z + V.dyadic(r, -1.5, 1.5, bits=bits))) for z in cur]
        pos.append(list(cur))
    return pos


def forces(r, nsteps, nat, bits=3):
    return [[(0.0 if r.random() < 0.15 else V.dyadic(r, -8, 8, bits=bits)) for _ in range(nat)] for _ in range(nsteps)]


# ------------------------------------------------------------------------------------------------ restraints
def gen_restraint(r, k, T):
    kind = r.choice(["harmonic", "harmonic", "harmonic", "walls", "linear"])
    nv = r.choice([1, 1, 2])
    tags = [kind]
    vars_ = []
    cfg = []
    for i in range(nv):
        w = r.choice(WIDTHS)
        per = kind != "linear" and r.random() < 0.3
        P = r.choice([4.0, 8.0]) if per else None
        wc = r.choice([0.0, 1.0, -2.5]) if per else 0.0
        vars_.append({"w": w, "P": P, "wc": wc})
        cfg += cv_block(i, width=w, period=P, wrap=wc)
        if per:
            tags.append("periodic")
    if kind == "walls":
        modes = ["none", "kc", "kc", "ks", "ks", "kl"]
    else:
        modes = ["none", "cc", "cc", "cs", "cs", "kc", "kc", "ks", "ks", "kl"]
    m = r.choice(modes)
    tags.append("mode=" + m)
    kw = {"harmonic": "harmonic", "walls": "harmonicWalls", "linear": "linear"}[kind]
    B = [kw + " {", "  name r", "  colvars " + " ".join("v%d" % i for i in range(nv))]
    kk = r.choice([0.5, 1.0, 2.0, 3.0, 1.5])
    B.append("  forceConstant %r" % kk)
    if kind != "walls":
        cen = [V.dyadic(r, -3, 3, bits=2) for _ in vars_]
        B.append("  centers " + vec(cen))
    else:
        lo = [V.dyadic(r, -3, 0, bits=2) for _ in vars_]
        up = [a + V.dyadic(r, 0.5, 3, bits=2) for a in lo]
        B.append("  lowerWalls " + vec(lo))
        B.append("  upperWalls " + vec(up))
    N = r.choice([1, 2, 3, 3, 4, 5, 8])
    nst = r.choice([1, 2, 3, 4])
    if m in ("cc", "cs"):
        B.append("  targetCenters " + vec([x + r.choice([-1, 1]) * V.dyadic(r, 0.5, 5, bits=1) for x in cen]))
    if m in ("kc", "ks", "kl"):
        if r.random() < 0.3:
            B.append("  decoupling on")
            tags.append("decoupling")
        else:
            B.append("  targetForceConstant %r" % r.choice([0.0, 0.25, 4.0, 6.0]))
        le = r.choice([1.0, 1.0, 2.0, 3.0, 1.5])
        if le != 1.0:
            B.append("  lambdaExponent %r" % le)
    if m != "none":
        B.append("  targetNumSteps %d" % N)
    if m in ("cs", "ks"):
        B.append("  targetNumStages %d" % nst)
    if m == "kl":
        n = r.randint(2, 4)
        sched = sorted([r.choice([0.0, 0.125, 0.25, 0.5, 0.75, 1.0]) for _ in range(n)])
        B.append("  lambdaSchedule " + vec(sched))
    if m in ("ks", "kl") and N >= 2:
        eq = r.choice([0, 0, 1, 1, 2])
        eq = min(eq, N - 1)
        if eq:
            B.append("  targetEquilSteps %d" % eq)
            tags.append("equil")
    if m in ("cc", "kc") and r.random() < 0.7:
        B.append("  outputAccumulatedWork on")
        tags.append("accwork")
    if r.random() < 0.2:
        B.append("  outputEnergy on")
    B.append("}")
    it0 = r.choice([0, 0, 0, 5, 12])
    return {"fam": "restraint", "tags": tags, "natoms": nv, "config": cfg + B, "it0": it0,
            "pos": walk(r, T, nv), "N": N, "mode": m}


# ------------------------------------------------------------------------------------------------ histogram
def gen_histogram(r, k, T):
    nv = r.choice([1, 1, 2])
    cfg = []
    tags = ["histogram"]
    for i in range(nv):
        w = r.choice([0.5, 1.0, 2.0])
        nx = r.randint(2, 6)
        lo = V.dyadic(r, -4, 0, bits=2)
        cfg += cv_block(i, width=w, lower=lo, upper=lo + nx * w)
    B = ["histogram {", "  name h", "  colvars " + " ".join("v%d" % i for i in range(nv))]
    if r.random() < 0.25:
        B.append("  stepZeroData on")
        tags.append("stepZeroData")
    B.append("}")
    return {"fam": "histogram", "tags": tags, "natoms": nv, "config": cfg + B, "it0": r.choice([0, 0, 7]),
            "pos": walk(r, T, nv, lo=-4.5, hi=4.5, bits=3)}


def gen_histogram_vector(r, k, T):
    # a vector-valued variable (distancePairs of 2 x 1 atoms has one entry; 2 x 2 has four)
    na = r.choice([2, 3, 4])
    tags = ["histogram", "vector"]
    g1 = list(range(1, na // 2 + 1))
    g2 = list(range(na // 2 + 1, na + 1))
    cfg = ["colvar {", "  name v0", "  width 1.0", "  lowerBoundary 0.0", "  upperBoundary 8.0",
           "  distancePairs {", "    group1 { atomNumbers %s }" % " ".join(map(str, g1)),
           "    group2 { atomNumbers %s }" % " ".join(map(str, g2)), "  }", "}"]
    B = ["histogram {", "  name h", "  colvars v0", "  gatherVectorColvars on", "}"]
    return {"fam": "histogram", "tags": tags, "natoms": na, "config": cfg + B, "it0": 0,
            "pos": walk(r, T, na, lo=-4.0, hi=4.0, bits=3)}


# ------------------------------------------------------------------------------------------------ extended Lagrangian
def gen_extlag(r, k, T):
    nv = 1
    tags = ["extlag"]
    w = r.choice([0.5, 1.0])
    ex = ["extendedLagrangian on", "extendedFluctuation %r" % r.choice([0.5, 1.0, 0.25]),
          "extendedTimeConstant %r" % r.choice([50.0, 100.0, 200.0])]
    setup = ["dt 1.0", "temperature 300.0"]
    if r.random() < 0.4:
        ex += ["extendedLangevinDamping %r" % r.choice([1.0, 10.0])]
        setup.append("gauss %r" % r.choice([0.5, -1.25, 2.0]))
        tags.append("langevin")
    else:
        ex += ["extendedLangevinDamping 0.0"]
    lo = up = None
    if r.random() < 0.3:
        lo, up = -2.0, 2.0
        ex += ["reflectingLowerBoundary on", "reflectingUpperBoundary on"]
        tags.append("reflecting")
    if r.random() < 0.3:
        ex += ["outputVelocity on"]
        tags.append("outputVelocity")
    if r.random() < 0.3:
        ex += ["outputEnergy on"]
    cfg = cv_block(0, width=w, lower=lo, upper=up, extra=ex)
    bias = r.choice(["harmonic", "harmonic", "moving", "none"])
    tags.append("bias=" + bias)
    if bias != "none":
        B = ["harmonic {", "  name r", "  colvars v0", "  forceConstant %r" % r.choice([1.0, 2.0, 10.0]),
             "  centers %r" % V.dyadic(r, -1, 1, bits=2)]
        if bias == "moving":
            B += ["  targetCenters %r" % V.dyadic(r, -1.5, 1.5, bits=2), "  targetNumSteps %d" % r.choice([4, 10, 40])]
        B.append("}")
        cfg += B
    start = [V.dyadic(r, -1.0, 1.0, bits=3)]
    pos = walk(r, T, 1, lo=-1.5, hi=1.5, bits=5, stay=0.1, start=start)
    # small moves only: the module refuses a jump of more than half a width after a restart
    return {"fam": "extlag", "tags": tags, "natoms": 1, "setup": setup, "config": cfg, "it0": r.choice([0, 0, 3]),
            "pos": pos}


# ------------------------------------------------------------------------------------------------ ABMD
def gen_abmd(r, k, T):
    w = 1.0
    cfg = cv_block(0, width=w)
    dec = r.random() < 0.4
    nice = r.random() < 0.5
    kk = r.choice([1.0, 2.0, 0.5]) if nice else r.choice([1.123456789, 2.0 / 3.0])
    stop = r.choice([3.0, -3.0, 2.5]) if nice else r.choice([2.123456789, 10.0 / 3.0])
    if dec:
        stop = -abs(stop)
    B = ["abmd {", "  name a", "  colvars v0", "  forceConstant %r" % kk, "  stoppingValue %r" % stop]
    if dec:
        B.append("  decreasing on")
    B.append("}")
    tags = ["abmd", "nice" if nice else "long-decimals"]
    return {"fam": "abmd", "tags": tags, "natoms": 1, "config": cfg + B, "it0": 0,
            "pos": walk(r, T, 1, lo=-4, hi=4, bits=3)}


# ------------------------------------------------------------------------------------------------ ALB
def gen_alb(r, k, T):
    cfg = cv_block(0, width=1.0)
    B = ["alb {", "  name a", "  colvars v0", "  centers %r" % V.dyadic(r, 0.5, 2, bits=2),
         "  updateFrequency %d" % r.choice([4, 6, 8]), "  forceRange 2.0", "}"]
    return {"fam": "alb", "tags": ["alb"], "natoms": 1, "setup": ["temperature 300.0"], "config": cfg + B, "it0": 0,
            "pos": walk(r, T, 1, lo=0.5, hi=4, bits=3)}


# ------------------------------------------------------------------------------------------------ ABF
def gen_abf(r, k, T):
    nv = r.choice([1, 1, 2])
    same = r.random() < 0.5
    tags = ["abf", "samestep" if same else "lagged"]
    cfg = []
    for i in range(nv):
        w = r.choice([0.5, 1.0, 2.0])
        nx = r.randint(2, 5)
        per = r.random() < 0.25
        if per:
            P = nx * w
            c0 = V.dyadic(r, -2, 2, bits=2)
            lo = c0 - P / 2
            tags.append("periodic")
        else:
            P = None
            c0 = 0.0
            lo = V.dyadic(r, -3, 1, bits=2)
        ex = []
        if r.random() < 0.3:
            ex.append("subtractAppliedForce on")
            tags.append("subtract")
        cfg += cv_block(i, width=w, lower=lo, upper=lo + nx * w, period=P, wrap=c0, extra=ex,
                        cvc_extra=["oneSiteTotalForce on"])
    full = r.randint(1, 5)
    B = ["abf {", "  name a", "  colvars " + " ".join("v%d" % i for i in range(nv)),
         "  fullSamples %d" % full, "  minSamples %d" % (r.randint(0, full - 1) if full > 1 else 0)]
    if r.random() < 0.2:
        B.append("  maxForce " + vec([r.choice([0.5, 1.0, 2.0]) for _ in range(nv)]))
    if r.random() < 0.15:
        B.append("  updateBias off")
    B.append("}")
    if r.random() < 0.5:
        B += ["harmonic {", "  name r", "  colvars v0", "  forceConstant %r" % r.choice([0.5, 1.0, 2.0]),
              "  centers %r" % V.dyadic(r, -2, 2, bits=2), "}"]
        tags.append("+harmonic")
    return {"fam": "abf", "tags": tags, "natoms": nv, "setup": ["samestep %d" % (1 if same else 0), "includecv 1"],
            "config": cfg + B, "it0": r.choice([0, 0, 4]),
            "pos": walk(r, T, nv, lo=-3.5, hi=3.5, bits=3), "ef": forces(r, T, nv)}


# ------------------------------------------------------------------------------------------------ metadynamics
def gen_meta(r, k, T):
    nv = r.choice([1, 1, 2])
    use_grids = r.random() < 0.8
    tags = ["meta", "grids" if use_grids else "nogrids"]
    cfg = []
    nice = r.random() < 0.7
    for i in range(nv):
        w = r.choice([0.5, 1.0])
        nx = r.randint(6, 12)
        lo = V.dyadic(r, -4, -1, bits=2) if nice else r.choice([-3.123456789, -2.0 / 3.0 - 2])
        cfg += cv_block(i, width=w, lower=lo, upper=lo + nx * w)
    if not nice:
        tags.append("long-decimal-boundaries")
    freq = r.choice([1, 2, 3])
    B = ["metadynamics {", "  name m", "  colvars " + " ".join("v%d" % i for i in range(nv)),
         "  hillWeight %r" % r.choice([0.125, 0.5, 1.0]), "  newHillFrequency %d" % freq,
         "  hillWidth %r" % r.choice([1.0, 2.0, 2.5])]
    if not use_grids:
        B.append("  useGrids off")
    else:
        if r.random() < 0.4:
            g = r.choice([1, 2, 4, 6])
            B.append("  gridsUpdateFrequency %d" % g)
            tags.append("gfreq=%s" % ("freq" if g == freq else "other"))
    if r.random() < 0.4:
        B.append("  keepHills on")
        tags.append("keepHills")
    if r.random() < 0.3:
        B += ["  wellTempered on", "  biasTemperature %r" % r.choice([300.0, 1000.0])]
        tags.append("wt")
    B.append("}")
    p_out = r.choice([0.0, 0.0, 0.2])
    if p_out:
        tags.append("excursions")
    pos = walk(r, T, nv, lo=-3.0, hi=1.0, bits=3)
    if p_out:
        for t in range(T):
            if r.random() < p_out:
                pos[t] = [z - 6.0 for z in pos[t]]
    return {"fam": "meta", "tags": tags, "natoms": nv, "setup": ["temperature 300.0"], "config": cfg + B,
            "it0": r.choice([0, 0, 5]), "pos": pos}


# ------------------------------------------------------------------------------------------------ OPES
def gen_opes(r, k, T):
    nv = r.choice([1, 1, 2])
    cfg = []
    for i in range(nv):
        cfg += cv_block(i, width=1.0, lower=-4.0, upper=4.0)
    pace = r.choice([1, 2, 3])
    rf = r.choice([1, 2, 4])
    B = ["opes_metad {", "  name o", "  colvars " + " ".join("v%d" % i for i in range(nv)),
         "  newHillFrequency %d" % pace, "  barrier %r" % r.choice([5.0, 10.0]),
         "  gaussianSigma " + vec([r.choice([0.25, 0.5]) for _ in range(nv)]), "  outputEnergy on"]
    tags = ["opes", "restartfreq=%d" % rf, "pace=%d" % pace]
    if r.random() < 0.3:
        B.append("  explore on")
        tags.append("explore")
    if r.random() < 0.3:
        B.append("  calcWork on")
        tags.append("calcWork")
    B.append("}")
    return {"fam": "opes", "tags": tags, "natoms": nv, "setup": ["temperature 300.0", "restartfreq %d" % rf],
            "config": cfg + B, "it0": 0, "pos": walk(r, T, nv, lo=-3.0, hi=3.0, bits=3), "restartfreq": rf}


FAMILIES = {"opes": gen_opes, "restraint": gen_restraint, "histogram": gen_histogram, "histvec": gen_histogram_vector,
            "extlag": gen_extlag, "abmd": gen_abmd, "alb": gen_alb, "abf": gen_abf, "meta": gen_meta}
