# C03 configuration families: each generator returns a case dict for resume.scenario().
import math
import vcommon as V
from c03_resume import cv_block

WIDTHS = [0.25, 0.5, 1.0, 2.0]


def np_prod(l):
    p = 1
    for x in l:
        p *= x
    return p


def vec(l):
    return " ".join("%r" % x for x in l)


def walk(r, nsteps, nat, lo=-4.0, hi=4.0, bits=4, stay=0.25, start=None):
    """dyadic random walk of nat coordinates"""
    pos = []
    cur = start or [V.dyadic(r, lo, hi, bits=bits) for _ in range(nat)]
    for t in range(nsteps):
        if t > 0:
            cur = [z if r.random() < stay else min(hi + 2, max(lo - 2, z + V.dyadic(r, -1.5, 1.5, bits=bits))) for z in cur]
        pos.append(list(cur))
    return pos


BIG_STEPS = [2**31 - 2, 2**31 + 3, 2**32 + 5, 2**53 + 7, 2**61 + 11]


def first_step(r, small):
    """first step number of the job: mostly small, one time in four beyond the 32-bit / 53-bit ranges (an engine that
    has run for long; a step counter copied into an int or a double goes wrong there)"""
    if r.random() < 0.25:
        return r.choice(BIG_STEPS) + r.choice([0, 1, 2, 3, 4, 5, 6])
    return r.choice(small)


def forces(r, nsteps, nat, bits=3):
    return [[(0.0 if r.random() < 0.15 else V.dyadic(r, -8, 8, bits=bits)) for _ in range(nat)] for _ in range(nsteps)]


# ------------------------------------------------------------------------------------------------ restraints
def gen_restraint(r, k, T):
    kind = r.choice(["harmonic", "harmonic", "harmonic", "walls", "linear"])
    nv = r.choice([1, 1, 2])
    tags = [kind]
    vars_ = []
    cfg = []
    for i in range(nv):
        w = r.choice(WIDTHS)
        per = kind != "linear" and r.random() < 0.3
        P = r.choice([4.0, 8.0]) if per else None
        wc = r.choice([0.0, 1.0, -2.5]) if per else 0.0
        vars_.append({"w": w, "per": per, "P": P if per else 1.0, "wc": wc})
        cfg += cv_block(i, width=w, period=P, wrap=wc)
        if per:
            tags.append("periodic")
    if kind == "walls":
        modes = ["none", "kc", "kc", "ks", "ks", "kl"]
    else:
        modes = ["none", "cc", "cc", "cs", "cs", "kc", "kc", "ks", "ks", "kl"]
    m = r.choice(modes)
    tags.append("mode=" + m)
    kw = {"harmonic": "harmonic", "walls": "harmonicWalls", "linear": "linear"}[kind]
    B = [kw + " {", "  name r", "  colvars " + " ".join("v%d" % i for i in range(nv))]
    kk = r.choice([0.5, 1.0, 2.0, 3.0, 1.5])
    B.append("  forceConstant %r" % kk)
    M = {"kind": kind, "vars": vars_, "k0": kk, "centers": [0.0] * nv, "target_centers": [0.0] * nv, "chgc": False,
         "chgk": False, "dec": False, "sk": -1.0, "tk": -1.0, "lexp": 1.0, "sched": [], "N": 0, "nstages": 0, "equil": 0,
         "accw": False, "hl": False, "hu": False, "lower": [0.0] * nv, "upper": [0.0] * nv, "lk": -1.0, "uk": -1.0}
    if kind != "walls":
        cen = [V.dyadic(r, -3, 3, bits=2) for _ in vars_]
        B.append("  centers " + vec(cen))
        M["centers"] = cen
        M["target_centers"] = cen
    else:
        lo = [V.dyadic(r, -3, 0, bits=2) for _ in vars_]
        up = [a + V.dyadic(r, 0.5, 3, bits=2) for a in lo]
        B.append("  lowerWalls " + vec(lo))
        B.append("  upperWalls " + vec(up))
        # harmonic_walls::init with one forceConstant: force_k = sqrt(k*k) = k, both wall constants k/k = 1
        M.update({"hl": True, "hu": True, "lower": lo, "upper": up, "lk": 1.0, "uk": 1.0})
    N = r.choice([1, 2, 3, 3, 4, 5, 8])
    nst = r.choice([1, 2, 3, 4])
    if m in ("cc", "cs"):
        tc = [x + r.choice([-1, 1]) * V.dyadic(r, 0.5, 5, bits=1) for x in cen]
        B.append("  targetCenters " + vec(tc))
        M["chgc"] = True
        M["target_centers"] = tc
    if m in ("kc", "ks", "kl"):
        M["chgk"] = True
        if r.random() < 0.3:
            B.append("  decoupling on")
            tags.append("decoupling")
            M.update({"dec": True, "sk": 0.0, "tk": kk})
        else:
            tk = r.choice([0.0, 0.25, 4.0, 6.0])
            B.append("  targetForceConstant %r" % tk)
            M.update({"sk": kk, "tk": tk})
        le = r.choice([1.0, 1.0, 2.0, 3.0, 1.5])
        if le != 1.0:
            B.append("  lambdaExponent %r" % le)
        M["lexp"] = le
    if m != "none":
        B.append("  targetNumSteps %d" % N)
        M["N"] = N
    if m in ("cs", "ks"):
        B.append("  targetNumStages %d" % nst)
        M["nstages"] = nst
    if m == "kl":
        n = r.randint(2, 4)
        sched = sorted([r.choice([0.0, 0.125, 0.25, 0.5, 0.75, 1.0]) for _ in range(n)])
        B.append("  lambdaSchedule " + vec(sched))
        M["sched"] = sched
        M["nstages"] = n - 1
    if m in ("ks", "kl") and N >= 2:
        eq = r.choice([0, 0, 1, 1, 2])
        eq = min(eq, N - 1)
        if eq:
            B.append("  targetEquilSteps %d" % eq)
            tags.append("equil")
            M["equil"] = eq
    if m in ("cc", "kc") and r.random() < 0.7:
        B.append("  outputAccumulatedWork on")
        tags.append("accwork")
        M["accw"] = True
    if r.random() < 0.2:
        B.append("  outputEnergy on")
    B.append("}")
    it0 = first_step(r, [0, 0, 0, 5, 12])
    M["it0"] = it0
    pos = walk(r, T, nv)
    conf = cfg + B
    if "periodic" not in tags and r.random() < 0.2:
        # all lengths 2^27 (1.3e8) or 2^-27 (7.5e-9) times larger: widths, centres, walls, positions (energies unchanged)
        S = 2.0 ** r.choice([-13, 27])     # (2^-27 makes forces of 1e8 with absolute errors above the comparison tolerance)
        tags.append("scale=%g" % S)

        def sc(line):
            w = line.split()
            if w and w[0] in ("width", "centers", "targetCenters", "lowerWalls", "upperWalls"):
                return "  " + w[0] + " " + vec([float(x) * S for x in w[1:]])
            return line
        conf = [sc(l) for l in conf]
        pos = [[z * S for z in p] for p in pos]
        for v in M["vars"]:
            v["w"] *= S
        for key in ("centers", "target_centers", "lower", "upper"):
            M[key] = [x * S for x in M[key]]
    return {"fam": "restraint", "tags": tags, "sigtags": [m], "natoms": nv, "config": conf, "it0": it0,
            "pos": pos, "model": M}


# ------------------------------------------------------------------------------------------------ histogram
def gen_histogram(r, k, T):
    nv = r.choice([1, 1, 2])
    cfg = []
    tags = ["histogram"]
    M = {"lower": [], "width": [], "nx": [], "szd": False}
    for i in range(nv):
        w = r.choice([0.5, 1.0, 2.0])
        nx = r.randint(2, 6)
        lo = V.dyadic(r, -4, 0, bits=2)
        cfg += cv_block(i, width=w, lower=lo, upper=lo + nx * w)
        M["lower"].append(lo); M["width"].append(w); M["nx"].append(nx)
    B = ["histogram {", "  name h", "  colvars " + " ".join("v%d" % i for i in range(nv))]
    sig = []
    if r.random() < 0.25:
        B.append("  stepZeroData on")
        tags.append("stepZeroData")
        sig = ["stepZeroData"]
        M["szd"] = True
    B.append("}")
    # values mostly inside the grid, on bin edges, and a little outside
    pos = []
    cur = [M["lower"][i] + r.randint(0, M["nx"][i] * 8 - 1) * M["width"][i] / 8 for i in range(nv)]
    for t in range(T):
        if t > 0:
            nxt = []
            for i in range(nv):
                z = cur[i]
                if r.random() > 0.25:
                    z += r.randint(-6, 6) * M["width"][i] / 4
                lo_, hi_ = M["lower"][i] - M["width"][i], M["lower"][i] + (M["nx"][i] + 1) * M["width"][i]
                nxt.append(min(hi_, max(lo_, z)))
            cur = nxt
        pos.append(list(cur))
    return {"fam": "histogram", "tags": tags, "sigtags": sig, "collapse": "all" if sig else None, "natoms": nv,
            "config": cfg + B, "it0": first_step(r, [0, 0, 7]), "pos": pos, "model": M}


# ------------------------------------------------------------------------------------------------ extended Lagrangian
KB = 0.001987191


def gen_extlag(r, k, T):
    tags = ["extlag"]
    w = r.choice([0.5, 1.0])
    tol = r.choice([0.5, 1.0, 0.25])
    period = r.choice([50.0, 100.0, 200.0])
    temp = 300.0
    dt = 1.0
    ex = ["extendedLagrangian on", "extendedFluctuation %r" % tol, "extendedTimeConstant %r" % period]
    setup = ["dt %r" % dt, "temperature %r" % temp]
    X = {"dt": dt, "k": KB * temp / (tol * tol),
         "mass": (KB * temp * period * period) / (4.0 * math.pi * math.pi * tol * tol),
         "langevin": False, "gf": 1.0, "sigma": 0.0, "rlo": False, "lo": 0.0, "rup": False, "up": 0.0, "rnd": 0.0}
    if r.random() < 0.4:
        damp = r.choice([1.0, 10.0])
        g = r.choice([0.5, -1.25, 2.0])
        ex += ["extendedLangevinDamping %r" % damp]
        setup.append("gauss %r" % g)
        tags.append("langevin")
        gamma = damp * 1.0e-3
        X.update({"langevin": True, "gf": math.exp(-1.0 * dt * gamma), "rnd": g,
                  "sigma": math.sqrt((1.0 - math.exp(-2.0 * gamma * dt * 1.0)) * X["mass"] * KB * temp)})
    else:
        ex += ["extendedLangevinDamping 0.0"]
    lo = up = None
    if r.random() < 0.3:
        lo, up = -2.0, 2.0
        ex += ["reflectingLowerBoundary on", "reflectingUpperBoundary on"]
        tags.append("reflecting")
        X.update({"rlo": True, "lo": lo, "rup": True, "up": up})
    if r.random() < 0.3:
        ex += ["outputVelocity on"]
        tags.append("outputVelocity")
    if r.random() < 0.3:
        ex += ["outputEnergy on"]
    cfg = cv_block(0, width=w, lower=lo, upper=up, extra=ex)
    bias = r.choice(["harmonic", "harmonic", "moving", "none"])
    tags.append("bias=" + bias)
    it0 = first_step(r, [0, 0, 3])
    RM = {"kind": "harmonic", "vars": [{"w": w, "per": False, "P": 1.0, "wc": 0.0}], "k0": 0.0, "centers": [0.0],
          "target_centers": [0.0], "chgc": False, "chgk": False, "dec": False, "sk": -1.0, "tk": -1.0, "lexp": 1.0,
          "sched": [], "N": 0, "nstages": 0, "equil": 0, "accw": False, "hl": False, "hu": False, "lower": [0.0],
          "upper": [0.0], "lk": -1.0, "uk": -1.0, "it0": it0}
    if bias != "none":
        kk = r.choice([1.0, 2.0, 10.0])
        cen = V.dyadic(r, -1, 1, bits=2)
        B = ["harmonic {", "  name r", "  colvars v0", "  forceConstant %r" % kk, "  centers %r" % cen]
        RM.update({"k0": kk, "centers": [cen], "target_centers": [cen]})
        if bias == "moving":
            tc = V.dyadic(r, -1.5, 1.5, bits=2)
            N = r.choice([4, 10, 40])
            B += ["  targetCenters %r" % tc, "  targetNumSteps %d" % N]
            RM.update({"chgc": True, "target_centers": [tc], "N": N})
        B.append("}")
        cfg += B
    start = [V.dyadic(r, -1.0, 1.0, bits=3)]
    pos = walk(r, T, 1, lo=-1.5, hi=1.5, bits=5, stay=0.1, start=start)
    # small moves only: the module refuses a jump of more than half a width after a restart
    return {"fam": "extlag", "tags": tags, "sigtags": [], "natoms": 1, "setup": setup, "config": cfg, "it0": it0,
            "pos": pos, "model": {"x": X, "r": RM, "nobias": bias == "none"}}


def gen_mts(r, k, T):
    """multiple time stepping: variable and bias with timeStepFactor f are computed every f-th absolute step"""
    f = r.choice([2, 3, 3, 5, 6])
    ext = r.random() < 0.5
    ex = ["timeStepFactor %d" % f]
    tags = ["mts", "factor=%d" % f]
    if ext:
        ex += ["extendedLagrangian on", "extendedFluctuation 0.5", "extendedTimeConstant 100.0", "extendedLangevinDamping 0.0"]
        tags.append("extended")
    cfg = cv_block(0, width=1.0, extra=ex)
    kind = r.choice(["harmonic", "moving", "meta"])
    tags.append("bias=" + kind)
    if kind == "meta":
        cfg += ["metadynamics {", "  name m", "  colvars v0", "  timeStepFactor %d" % f, "  hillWeight 0.5",
                "  newHillFrequency %d" % (f * r.choice([1, 2])), "  hillWidth 2.0", "  useGrids off", "}"]
    else:
        cfg += ["harmonic {", "  name r", "  colvars v0", "  timeStepFactor %d" % f, "  forceConstant 2.0",
                "  centers %r" % V.dyadic(r, -1, 1, bits=2)]
        if kind == "moving":
            cfg += ["  targetCenters %r" % V.dyadic(r, -1.5, 1.5, bits=2), "  targetNumSteps %d" % (f * r.choice([2, 3, 5])),
                    "  outputAccumulatedWork on"]
        cfg.append("}")
    start = [V.dyadic(r, -1.0, 1.0, bits=3)]
    return {"fam": "mts", "tags": tags, "sigtags": [], "natoms": 1, "setup": ["dt 1.0", "temperature 300.0"], "config": cfg,
            "sleep_factor": f, "mts_extended": ext, "it0": first_step(r, [0, 0, 3, 4]), "pos": walk(r, T, 1, lo=-1.5, hi=1.5, bits=5, stay=0.1, start=start)}


def gen_ti(r, k, T):
    """thermodynamic-integration samples of a restraint or of metadynamics (colvarbias_ti): total forces on a grid, in the state"""
    same = r.random() < 0.5
    w = r.choice([0.5, 1.0])
    nx = r.randint(3, 6)
    lo = V.dyadic(r, -3, 0, bits=2)
    sub = r.random() < 0.3
    cfg = cv_block(0, width=w, lower=lo, upper=lo + nx * w, extra=["subtractAppliedForce on"] if sub else [],
                   cvc_extra=["oneSiteTotalForce on"])
    kind = r.choice(["harmonic", "moving", "meta"])
    tags = ["ti", "samestep" if same else "lagged", "bias=" + kind] + (["subtract"] if sub else [])
    ti = ["  writeTISamples on", "  writeTIPMF on"]
    if kind == "meta":
        cfg += ["metadynamics {", "  name b", "  colvars v0", "  hillWeight 0.5", "  newHillFrequency %d" % r.choice([1, 2, 3, 5, 7]),
                "  hillWidth 2.0"] + ti + ["}"]
    else:
        cfg += ["harmonic {", "  name b", "  colvars v0", "  forceConstant %r" % r.choice([0.5, 1.0, 2.0]),
                "  centers %r" % V.dyadic(r, -2, 2, bits=2)]
        if kind == "moving":
            cfg += ["  targetCenters %r" % V.dyadic(r, -2, 2, bits=2), "  targetNumSteps %d" % r.choice([4, 8, 20])]
        cfg += ti + ["}"]
    return {"fam": "ti", "tags": tags, "sigtags": [], "natoms": 1, "setup": ["samestep %d" % (1 if same else 0), "includecv 1", "temperature 300.0"],
            "config": cfg, "it0": first_step(r, [0, 0, 4]), "show_tf": True, "tf_lagged": not same,
            "pos": walk(r, T, 1, lo=lo - 0.5, hi=lo + nx * w + 0.5, bits=3), "ef": forces(r, T, 1)}


# ------------------------------------------------------------------------------------------------ ABMD
def gen_abmd(r, k, T):
    w = 1.0
    cfg = cv_block(0, width=w)
    dec = r.random() < 0.4
    nice = r.random() < 0.5
    kk = r.choice([1.0, 2.0, 0.5]) if nice else r.choice([1.123456789, 2.0 / 3.0])
    stop = r.choice([3.0, -3.0, 2.5]) if nice else r.choice([2.123456789, 10.0 / 3.0])
    if dec:
        stop = -abs(stop)
    B = ["abmd {", "  name a", "  colvars v0", "  forceConstant %r" % kk, "  stoppingValue %r" % stop]
    if dec:
        B.append("  decreasing on")
    B.append("}")
    tags = ["abmd", "nice" if nice else "long-decimals"]
    return {"fam": "abmd", "tags": tags, "sigtags": [], "natoms": 1, "config": cfg + B, "it0": 0,
            "pos": walk(r, T, 1, lo=-4, hi=4, bits=3), "model": {"k": kk, "stop": stop, "dec": dec}}


# ------------------------------------------------------------------------------------------------ ALB
def gen_alb(r, k, T):
    w = r.choice([1.0, 0.5, 2.0])
    cfg = cv_block(0, width=w)
    cen = V.dyadic(r, 0.5, 2, bits=2)
    uf = r.choice([4, 6, 8, 10, 12, 14])
    rng = r.choice([2.0, 1.0, 0.5])
    temp = 300.0
    B = ["alb {", "  name a", "  colvars v0", "  centers %r" % cen, "  updateFrequency %d" % uf, "  forceRange %r" % rng]
    tags = ["alb", "freq=%d" % uf]
    M = {"center": cen, "width": w, "freq": uf // 2, "kT": temp * KB, "range0": rng, "maxrate": rng / (10.0 * float(uf // 2)),
         "hard": True, "k0": 0.0}
    if k < 2 or r.random() < 0.15:
        # the range is run-time data: hardForceRange off, a small explicit forceRange, a set point beyond it that the
        # ramp reaches within a few steps: maxCouplingRange grows by 1.25 per step while the coupling exceeds it,
        # and the next update of the set point (a few steps later) uses the grown value
        uf = r.choice([4, 6]) if k < 2 else uf
        rng = r.choice([0.25, 0.125])
        k0 = r.choice([1.0, -1.0, 0.75])
        mr = r.choice([0.5, 1.0])
        B[4:6] = ["  updateFrequency %d" % uf, "  forceRange %r" % rng]
        B += ["  hardForceRange off", "  forceConstant %r" % k0, "  rateMax %r" % mr]
        M.update({"freq": uf // 2, "range0": rng, "hard": False, "k0": k0, "maxrate": mr})
        tags[1] = "freq=%d" % uf
        tags += ["soft-range", "k0", "range-outgrown"]
    else:
        if r.random() < 0.3:
            B.append("  hardForceRange off")
            M["hard"] = False
            tags.append("soft-range")
        if r.random() < 0.3:
            k0 = r.choice([0.5, -0.25, 1.0])
            B.append("  forceConstant %r" % k0)
            M["k0"] = k0
            tags.append("k0")
        if r.random() < 0.3:
            mr = r.choice([0.125, 0.03125])
            B.append("  rateMax %r" % mr)
            M["maxrate"] = mr
    B.append("}")
    return {"fam": "alb", "tags": tags, "sigtags": [], "natoms": 1, "setup": ["temperature %r" % temp], "config": cfg + B,
            "it0": first_step(r, [0, 0, 3]), "pos": walk(r, T, 1, lo=0.5, hi=4, bits=3), "model": M}


# ------------------------------------------------------------------------------------------------ ABF
def gen_abf(r, k, T):
    nv = r.choice([1, 1, 2])
    same = r.random() < 0.5
    tags = ["abf", "samestep" if same else "lagged"]
    cfg = []
    M = {"nd": nv, "lower": [], "width": [], "nx": [], "periodic": [], "P": [], "sub": [], "other": [False] * nv,
         "same": same, "update": True, "cap": False, "maxf": [0.0] * nv, "hk": None, "hc": 0.0}
    for i in range(nv):
        w = r.choice([0.5, 1.0, 2.0])
        nx = r.randint(2, 5)
        per = r.random() < 0.25
        if per:
            P = nx * w
            c0 = V.dyadic(r, -2, 2, bits=2)
            lo = c0 - P / 2
            tags.append("periodic")
        else:
            P = None
            c0 = 0.0
            lo = V.dyadic(r, -3, 1, bits=2)
        ex = []
        sub = r.random() < 0.3
        if sub:
            ex.append("subtractAppliedForce on")
            tags.append("subtract")
        cfg += cv_block(i, width=w, lower=lo, upper=lo + nx * w, period=P, wrap=c0, extra=ex,
                        cvc_extra=["oneSiteTotalForce on"])
        M["lower"].append(lo); M["width"].append(w); M["nx"].append(nx); M["periodic"].append(per)
        M["P"].append(P if per else 0.0); M["sub"].append(sub)
    full = r.randint(1, 5)
    mn = r.randint(0, full - 1) if full > 1 else 0
    M["full"], M["min"] = full, mn
    B = ["abf {", "  name a", "  colvars " + " ".join("v%d" % i for i in range(nv)),
         "  fullSamples %d" % full, "  minSamples %d" % mn]
    if r.random() < 0.2:
        mf = [r.choice([0.5, 1.0, 2.0]) for _ in range(nv)]
        B.append("  maxForce " + vec(mf))
        M["cap"], M["maxf"] = True, mf
    if r.random() < 0.15:
        B.append("  updateBias off")
        M["update"] = False
    B.append("}")
    if r.random() < 0.5:
        hk = r.choice([0.5, 1.0, 2.0])
        hc = V.dyadic(r, -2, 2, bits=2)
        B += ["harmonic {", "  name r", "  colvars v0", "  forceConstant %r" % hk, "  centers %r" % hc, "}"]
        tags.append("+harmonic")
        M["other"][0] = True
        M["hk"], M["hc"] = hk, hc
    return {"fam": "abf", "tags": tags, "sigtags": [], "natoms": nv, "setup": ["samestep %d" % (1 if same else 0), "includecv 1"],
            "config": cfg + B, "it0": first_step(r, [0, 0, 4]), "show_tf": True, "tf_lagged": not same,
            "pos": walk(r, T, nv, lo=-3.5, hi=3.5, bits=3), "ef": forces(r, T, nv), "model": M}


def gen_pabf(r, k, T):
    """projected ABF: the bias force is the gradient of the PMF integrated every pABFintegrateFreq steps"""
    c = gen_abf(r, k, T)
    while c["model"]["nd"] != 2:      # the PMF gradient by finite differences exists in two and three dimensions only
        c = gen_abf(r, k, T)
    freq = r.choice([1, 2, 3, 4])
    cfg = c["config"]
    i = cfg.index("abf {")
    cfg[i + 1:i + 1] = ["  integrate on", "  pABFintegrateFreq %d" % freq]
    # most of the history inside the grid (a sample needs both variables inside), excursions of half a unit
    M = c["model"]
    cols = []
    for i in range(2):
        lo_i, up_i = M["lower"][i], M["lower"][i] + M["nx"][i] * M["width"][i]
        cols.append(walk(r, T, 1, lo=lo_i - 0.5, hi=up_i + 0.5, bits=3, start=[V.dyadic(r, lo_i, up_i, bits=3)]))
    c["pos"] = [[cols[0][t][0], cols[1][t][0]] for t in range(T)]
    c.pop("model", None)
    c["fam"] = "pabf"
    c["tags"] = ["pabf", "freq=%d" % freq] + c["tags"][1:]
    c["sigtags"] = []
    # the PMF comes from a conjugate-gradient solver stopped at integrateTol (1e-6): a text state (14 digits of the
    # gradients, divergence recomputed instead of updated) can change its iteration count
    c["tol"] = 1e-5
    return c


# ------------------------------------------------------------------------------------------------ metadynamics
def gen_meta(r, k, T):
    # the first four cases of every run: hills pending when the state is written (gridsUpdateFrequency does not
    # divide newHillFrequency), keepHills on and off, values well inside the grid (no help from hills_off_grid)
    forced = k < 4
    nv = r.choice([1, 1, 2])
    use_grids = True if forced else r.random() < 0.8
    tags = ["meta", "grids" if use_grids else "nogrids"]
    cfg = []
    nice = True if forced else r.random() < 0.7
    hw = r.choice([1.0, 2.0, 2.5])
    M = {"vars": [], "W": r.choice([0.125, 0.5, 1.0]), "hw": hw, "use_grids": use_grids, "keep": False, "wt": False,
         "bt": 300.0}
    for i in range(nv):
        w = r.choice([0.5, 1.0])
        nx = r.randint(6, 12)
        lo = V.dyadic(r, -4, -1, bits=2) if nice else r.choice([-3.123456789, -2.0 / 3.0 - 2])
        expand = use_grids and nice and not forced and r.random() < 0.25
        cfg += cv_block(i, width=w, lower=lo, upper=lo + nx * w, extra=["expandBoundaries on"] if expand else [])
        M["vars"].append({"w": w, "lower": lo, "upper": lo + nx * w, "nx": nx, "sigma": w * hw / 2.0, "expand": expand})
        if expand and "expandBoundaries" not in tags:
            tags.append("expandBoundaries")
    if not nice:
        tags.append("long-decimal-boundaries")
    freq = r.choice([1, 2, 3])
    M["freq"] = M["gfreq"] = freq
    B = ["metadynamics {", "  name m", "  colvars " + " ".join("v%d" % i for i in range(nv)),
         "  hillWeight %r" % M["W"], "  newHillFrequency %d" % freq, "  hillWidth %r" % hw]
    pending = False
    if not use_grids:
        B.append("  useGrids off")
    else:
        if forced or r.random() < 0.4:
            g = r.choice([4, 5, 6]) if forced else r.choice([1, 2, 4, 6])
            if forced and freq % g == 0:
                g = freq + 3
            B.append("  gridsUpdateFrequency %d" % g)
            tags.append("gfreq=%s" % ("freq" if g == freq else "other"))
            M["gfreq"] = g
            # hills deposited on a step that is not a multiple of gridsUpdateFrequency wait, unprojected, for the
            # next such step: writing the state projects them at once
            pending = (freq % g) != 0
    if (forced and k % 2 == 0) or (not forced and use_grids and r.random() < 0.4):      # keepHills is only parsed with grids
        B.append("  keepHills on")
        tags.append("keepHills")
        M["keep"] = True
    if r.random() < 0.3:
        bt = r.choice([300.0, 1000.0])
        B += ["  wellTempered on", "  biasTemperature %r" % bt]
        tags.append("wt")
        M["wt"], M["bt"] = True, bt
    files = {}
    M["eb"] = None
    # ensemble-biased metadynamics: hills scaled by the inverse target distribution, ramped in during
    # ebMetaEquilSteps ABSOLUTE steps (cases 4 and 5 of every run, and now and then)
    if use_grids and not any(v.get("expand") for v in M["vars"]) and (k in (4, 5) or r.random() < 0.15):
        raw = [r.choice([0.125, 0.25, 0.5, 1.0, 2.0]) for _ in range(int(np_prod([v["nx"] for v in M["vars"]])))]
        equil = r.choice([0, 3, 6, 10]) if k not in (4, 5) else r.choice([4, 7, 10])
        fname = "c03_target_%d_%d.dat" % (k, r.randint(0, 10 ** 6))
        L = ["# %d" % nv]
        for v in M["vars"]:
            L.append("# %r %r %d %d" % (v["lower"], v["w"], v["nx"], 0))
        idx = [[]]
        for v in M["vars"]:
            idx = [i + [q] for i in idx for q in range(v["nx"])]
        for a_, ix in enumerate(idx):
            if ix[-1] == 0:
                L.append("")
            L.append(" " + " ".join("%r" % (v["lower"] + v["w"] * (0.5 + q)) for v, q in zip(M["vars"], ix)) + "  %r" % raw[a_])
        files[fname] = "\n".join(L) + "\n"
        B += ["  ebMeta on", "  targetDistFile %s" % fname, "  ebMetaEquilSteps %d" % equil]
        tags.append("ebMeta")
        tags.append("equil=%s" % ("0" if equil == 0 else ">0"))
        # init_ebmeta_params: small values raised to 1e-6 of the maximum, normalised to integral 1, times exp(entropy)
        d = list(raw)
        thr = max(d) * (1 / 1000000.0)
        d = [max(t, thr) for t in d]
        vol = 1.0
        for v in M["vars"]:
            vol *= v["w"]
        I = vol * sum(d)
        d = [t * (1.0 / I) for t in d]
        S = vol * sum(-1.0 * t * math.log(t) for t in d if t > 0)
        M["eb"] = {"equil": equil, "target": [t * math.exp(S) for t in d]}
    B.append("}")
    p_out = 0.0 if forced else r.choice([0.0, 0.0, 0.2])
    if p_out:
        tags.append("excursions")
    pos = walk(r, T, nv, lo=-3.0, hi=1.0, bits=3)
    if forced:
        tags.append("forced-pending")
        mid = [v["lower"] + v["nx"] * v["w"] / 2 for v in M["vars"]]
        pos = [[m + V.dyadic(r, -1.0, 1.0, bits=3) for m in mid] for _ in range(T)]
    if p_out:
        for t in range(T):
            if r.random() < p_out:
                pos[t] = [z - 6.0 for z in pos[t]]
    return {"fam": "meta", "tags": tags, "sigtags": ["pending-hills"] if pending else [],
            "collapse": "obs" if pending else None, "natoms": nv, "setup": ["temperature 300.0"], "config": cfg + B,
            "it0": first_step(r, [0, 0, 5]), "pos": pos, "model": M, "files": files}


# ------------------------------------------------------------------------------------------------ OPES
def gen_opes(r, k, T):
    nv = r.choice([1, 1, 2])
    cfg = []
    for i in range(nv):
        cfg += cv_block(i, width=1.0, lower=-4.0, upper=4.0)
    pace = r.choice([1, 2, 3, 5])
    rf = r.choice([0, 1, 2, 4])     # 0: no restart schedule of the module (the engine decides when states are written)
    B = ["opes_metad {", "  name o", "  colvars " + " ".join("v%d" % i for i in range(nv)),
         "  newHillFrequency %d" % pace, "  barrier %r" % r.choice([5.0, 10.0]),
         "  gaussianSigma " + vec([r.choice([0.25, 0.5]) for _ in range(nv)]), "  outputEnergy on"]
    tags = ["opes", "restartfreq=%d" % rf, "pace=%d" % pace]
    if r.random() < 0.3:
        B.append("  explore on")
        tags.append("explore")
    if r.random() < 0.3:
        B.append("  calcWork on")
        tags.append("calcWork")
    # paths of update_opes: adaptive kernel widths, neighbour list, no normalisation, fixed widths, PMF grid
    o = r.random()
    if o < 0.2:
        B += ["  adaptiveSigma on", "  adaptiveSigmaStride %d" % (pace * r.choice([1, 2])), "  gaussianSigmaMin " + vec([0.125] * nv)]
        tags.append("adaptiveSigma")
    elif o < 0.4:
        B += ["  neighborList on"] + (["  neighborListNewHillReset on"] if r.random() < 0.5 else [])
        tags.append("neighborList")
    elif o < 0.5:
        B += ["  noZed on"]
        tags.append("noZed")
    elif o < 0.6:
        B += ["  fixedGaussianSigma on", "  recursiveMerge off"]
        tags.append("fixedSigma")
    if r.random() < 0.3:
        B += ["  pmf on", "  pmfColvars v0", "  pmfHistoryFrequency %d" % r.choice([0, 4])]
        tags.append("pmf")
    B.append("}")
    return {"fam": "opes", "tags": tags, "sigtags": [], "collapse": None, "natoms": nv, "setup": ["temperature 300.0", "restartfreq %d" % rf],
            "config": cfg + B, "it0": 0, "pos": walk(r, T, nv, lo=-3.0, hi=3.0, bits=3), "restartfreq": rf,
            "needs_prefix": True}


# ------------------------------------------------------------------------------------------------ histogramRestraint
def gen_histrestraint(r, k, T):
    na = 4
    cfg = ["colvar {", "  name v0", "  distancePairs {", "    group1 { atomNumbers 1 2 }", "    group2 { atomNumbers 3 4 }",
           "  }", "}"]
    ref = [r.choice([0.0, 0.125, 0.25, 0.5]) for _ in range(8)]
    if sum(ref) == 0:
        ref[3] = 0.5
    sig = r.choice([0.5, 1.0])
    kk = r.choice([1.0, 2.0])
    B = ["histogramRestraint {", "  name hr", "  colvars v0", "  lowerBoundary 0.0", "  upperBoundary 8.0", "  width 1.0",
         "  gaussianSigma %r" % sig, "  refHistogram " + vec(ref), "  forceConstant %r" % kk,
         "  outputEnergy on", "}"]
    # colvarbias_restraint_histogram::init: the reference is divided by its integral unless that is 1 within 1e-3
    integral = sum(ref) * 1.0
    nref = ref if abs(integral - 1.0) <= 1.0e-3 else [x / integral for x in ref]
    pos = walk(r, T, na, lo=-4.0, hi=4.0, bits=3)
    return {"fam": "histrestraint", "tags": ["histogramRestraint"], "sigtags": [], "natoms": na, "config": cfg + B, "it0": 0,
            "pos": pos, "cvnames": ["v0"], "model": {"k": kk, "sigma": sig, "lower": 0.0, "width": 1.0, "ref": nref}}


# ------------------------------------------------------------------------------------------------ eABF (ABF on an extended variable, CZAR)
def gen_eabf(r, k, T):
    w = r.choice([0.5, 1.0])
    nx = r.randint(3, 6)
    lo = V.dyadic(r, -2, 0, bits=2)
    tol = r.choice([0.5, 0.25])
    period = r.choice([50.0, 100.0])
    temp, dt = 300.0, 1.0
    ex = ["extendedLagrangian on", "extendedFluctuation %r" % tol, "extendedTimeConstant %r" % period]
    setup = ["dt %r" % dt, "temperature %r" % temp, "samestep 0", "includecv 1"]
    tags = ["eabf"]
    X = {"dt": dt, "k": KB * temp / (tol * tol),
         "mass": (KB * temp * period * period) / (4.0 * math.pi * math.pi * tol * tol),
         "langevin": False, "gf": 1.0, "sigma": 0.0, "rlo": False, "lo": 0.0, "rup": False, "up": 0.0, "rnd": 0.0}
    if r.random() < 0.4:
        damp = r.choice([1.0, 10.0])
        g = r.choice([0.5, -1.25])
        ex += ["extendedLangevinDamping %r" % damp]
        setup.append("gauss %r" % g)
        tags.append("langevin")
        gamma = damp * 1.0e-3
        X.update({"langevin": True, "gf": math.exp(-1.0 * dt * gamma), "rnd": g,
                  "sigma": math.sqrt((1.0 - math.exp(-2.0 * gamma * dt * 1.0)) * X["mass"] * KB * temp)})
    else:
        ex += ["extendedLangevinDamping 0.0"]
    cfg = cv_block(0, width=w, lower=lo, upper=lo + nx * w, extra=ex)
    full = r.randint(1, 4)
    mn = r.randint(0, full - 1) if full > 1 else 0
    B = ["abf {", "  name a", "  colvars v0", "  fullSamples %d" % full, "  minSamples %d" % mn, "}"]
    start = [lo + nx * w / 2]
    pos = walk(r, T, 1, lo=lo, hi=lo + nx * w, bits=5, stay=0.1, start=start)
    M = {"x": X, "lower": lo, "width": w, "nx": nx, "full": full, "min": mn}
    return {"fam": "eabf", "tags": tags, "sigtags": [], "natoms": 1, "setup": setup, "config": cfg + B, "it0": first_step(r, [0, 0, 3]),
            "pos": pos, "ef": forces(r, T, 1), "show_tf": True, "tf_lagged": True, "model": M}


# ------------------------------------------------------------------------------------------------ analysis windows
def gen_runave(r, k, T):
    L = r.choice([2, 3, 4])
    cfg = cv_block(0, width=1.0, extra=["runAve on", "runAveLength %d" % L])
    return {"fam": "runave", "tags": ["runAve", "length=%d" % L], "sigtags": [], "collapse": "all", "natoms": 1, "config": cfg,
            "it0": 0, "pos": walk(r, T, 1, lo=-4, hi=4, bits=3), "prefix_per_run": True}


# ------------------------------------------------------------------------------------------------ several objects
def gen_multi(r, k, T):
    """two or three variables and four to five biases of different kinds in one state file"""
    cfg = []
    cfg += cv_block(0, width=1.0, lower=-4.0, upper=4.0)
    cfg += cv_block(1, width=0.5, lower=-3.0, upper=3.0)
    tc = V.dyadic(r, -2, 2, bits=2)
    B = ["harmonic {", "  name r", "  colvars v0", "  forceConstant 2.0", "  centers %r" % V.dyadic(r, -2, 2, bits=2),
         "  targetCenters %r" % tc, "  targetNumSteps %d" % r.choice([4, 8]), "  outputAccumulatedWork on", "}",
         "histogram {", "  name h", "  colvars v0 v1", "}",
         "abmd {", "  name a", "  colvars v1", "  forceConstant 1.0", "  stoppingValue 2.5", "}",
         "metadynamics {", "  name m", "  colvars v1", "  hillWeight 0.5", "  newHillFrequency 2", "  hillWidth 2.0",
         "  keepHills %s" % r.choice(["on", "off"]), "}",
         "harmonicWalls {", "  name w", "  colvars v0", "  lowerWalls -3.0", "  upperWalls 3.0", "  forceConstant 1.0",
         "  targetForceConstant 4.0", "  targetNumSteps 3", "  targetNumStages 2", "}"]
    tags = ["multi", "2cv+5biases"]
    if r.random() < 0.6:
        # several holders of the same thing: three more moving restraints of one kind on the same variable, without
        # names (harmonic2, harmonic3, ... by rank), the odd one in the middle; a second, unnamed histogram
        for n, k in ((5, 1.0), (7, 0.5), (5, 1.0)):
            B += ["harmonic {", "  colvars v0", "  forceConstant %r" % k, "  centers %r" % V.dyadic(r, -2, 2, bits=2),
                  "  targetCenters %r" % V.dyadic(r, -2, 2, bits=2), "  targetNumSteps %d" % n, "  outputAccumulatedWork on", "}"]
        B += ["histogram {", "  colvars v1", "}"]
        tags = ["multi", "2cv+9biases", "unnamed"]
    return {"fam": "multi", "tags": tags, "sigtags": [], "natoms": 2, "setup": ["temperature 300.0"],
            "config": cfg + B, "it0": first_step(r, [0, 4]), "pos": walk(r, T, 2, lo=-2.5, hi=2.5, bits=3), "shuffle": True}


FAMILIES = {"ti": gen_ti, "pabf": gen_pabf, "mts": gen_mts, "multi": gen_multi, "runave": gen_runave, "histrestraint": gen_histrestraint, "eabf": gen_eabf, "opes": gen_opes, "restraint": gen_restraint, "histogram": gen_histogram, "extlag": gen_extlag, "abmd": gen_abmd, "alb": gen_alb, "abf": gen_abf, "meta": gen_meta}
