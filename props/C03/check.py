# C03: a run resumed from a saved state is indistinguishable from an uninterrupted run.
#
# Oracle on the implementation alone (c03_engine.py): for generated configurations and histories, an uninterrupted run
# (U), a run that writes its state after step K and goes on (A), and a fresh instance that loads that state, writes
# it back, re-executes step K and goes on (B), for EVERY K of the history and both state formats; A = U, B = A per
# step (values, energies, atomic forces, reported free-energy lines) and in the final state; the state written
# right after loading equals the loaded file byte for byte.
# Tie (c03_tie.py): the extracted resume protocol + object models (coq/C03) predict the A and B trajectories and which
# fields the state file carries; compared with the implementation for the modelled objects.
import os, sys, json
HERE = os.path.dirname(os.path.abspath(__file__))
if HERE not in sys.path:
    sys.path.insert(0, HERE)
import vcommon as V
import c03_resume as R
import c03_families as F
import c03_engine as E
import c03_tie as TIE

PROP = "coq/C03/Properties_C03.v"
EXTRACT = "coq/C03/Extract_C03.v"
DRIVER = "props/C03/driver.ml"
PROGS = {"c03sim": ["props/C03/unit.cpp"]}

MODELLED = ("restraint", "histogram", "extlag", "abmd", "abf", "meta", "eabf", "histrestraint", "alb")

# (family, cases quick, cases thorough, history length quick, thorough)
PLAN = [
    ("restraint", 36, 400, 14, 40),
    ("histogram", 10, 100, 12, 40),
    ("extlag", 12, 120, 12, 40),
    ("abmd", 6, 60, 12, 40),
    ("abf", 14, 160, 14, 40),
    ("meta", 14, 160, 14, 40),
    ("eabf", 6, 60, 12, 40),
    ("histrestraint", 3, 30, 10, 30),
    ("multi", 4, 40, 10, 30),
    ("runave", 2, 10, 10, 20),
    ("alb", 6, 40, 14, 30),
    ("opes", 4, 30, 12, 24),
    ("pabf", 4, 24, 10, 24),
    ("mts", 6, 60, 12, 30),
    ("ti", 4, 40, 12, 30),
]


# fields (keywords of the text state) of each family's objects that must be exercised as run-time data by every run
STATE_FIELDS = {
    "restraint": ["firstStep", "stage", "centers", "forceConstant", "accumulatedWork", "restraintFE", "x"],
    "histogram": ["grid"],
    "extlag": ["extended_x", "extended_v"],
    "abmd": ["refValue"],
    "abf": ["samples", "gradient"],
    "eabf": ["samples", "gradient", "z_samples", "z_gradient", "extended_x", "extended_v"],
    "meta": ["hill", "numHills"],
    "alb": ["setCoupling", "currentCoupling", "maxCouplingRange", "couplingRate", "couplingAccum", "mean", "ssd", "updateCalls",
            "b_equilibration", "forceCoupling"],
    "opes": ["counter", "zed", "sum_weights", "sum_weights2", "num_hills", "hills"],
    "pabf": ["samples", "gradient", "pmf"],
    "ti": ["histogram", "system_forces"],
    "runave": ["runAveWindow"],
}


def signature(c, f):
    """finding -> signature: kind, family with its distinguishing tags[, observable, when].
    Families / features whose state handling is recorded as a known finding are collapsed to
    kind:family+tags (collapse == "all") or kind:family+tags:when (collapse == "obs")."""
    st = list(c.get("sigtags") or [])
    col = c.get("collapse")
    fam = c["fam"] + ("".join("+" + t for t in st))
    parts = f["sig"].split(":")          # engine signatures are <kind>:<fam>:<rest...>
    if col == "all":
        return ":".join([parts[0], fam])
    if col == "obs":
        when = parts[-1] if parts[0] == "resume" and parts[-1] in ("at-restart-step", "after", "final") else None
        return ":".join([parts[0], fam] + ([when] if when else []))
    return ":".join([parts[0], fam] + parts[2:])


def gen_cases(r, quick, only=None):
    cases = []
    for fam, nq, nt, Tq, Tt in PLAN:
        if only and fam not in only:
            continue
        n, T = (nq, Tq) if quick else (nt, Tt)
        for k in range(n):
            c = F.FAMILIES[fam](r, k, T)
            c["id"] = "%s%d" % (fam, k)
            c["Ks"] = list(range(T)) if quick or fam in ("alb", "opes") else sorted(set(r.sample(range(T), 14) + [0, T - 1]))
            c["fmts"] = ["text", "binary"]
            c.setdefault("sigtags", [])
            # the restart file the module writes by itself during step K (colvarsRestartFrequency), and a run boundary
            # in the same session after step K (nothing reloaded); their own random stream: the cases stay what they were
            r2 = V.rng("C03-extra-" + c["id"])
            ne = 3 if quick else 4
            if not (c.get("needs_prefix") or c.get("prefix_per_run")):
                c["auto_Ks"] = sorted(r2.sample(range(1, T), ne))
            c["boundary_Ks"] = sorted(r2.sample(range(T), ne))
            c["buffer_Ks"] = [(K, r2.choice(c["fmts"])) for K in r2.sample(c["Ks"], 2)]
            c["reject_Ks"] = sorted(r2.sample(c["Ks"], 2))
            # a job resumed twice; not for the objects whose single resume is a recorded finding
            ch = set()
            if not (fam in ("runave",) or c.get("sigtags") or c.get("collapse")):
                for _ in range(2):
                    K1 = r2.randrange(0, T - 1)
                    ch.add((K1, r2.randrange(K1 + 1, T) if r2.random() < 0.8 else K1, r2.choice(c["fmts"])))
            c["chain_Ks"] = sorted(ch)
            cases.append(c)
    return cases


def corpus_cases():
    out = []
    p = os.path.join(V.ROOT, "corpus", "C03_cases.txt")
    if os.path.exists(p):
        for l in open(p):
            l = l.strip()
            if l and not l.startswith("#"):
                c = json.loads(l)
                c["id"] = "K%d" % len(out)
                out.append(c)
    return out


def tie_case(c, runs, d, model_exe):
    """model vs implementation for one case (all K, both formats); -> list of (component, detail, impl, model)"""
    bad = []
    U = runs.get("U")
    if U is None or len(U["steps"]) != len(c["pos"]):
        return bad
    if c.get("cvnames"):      # vector variables: all entries of the named variables
        cvs = [[x for n in c["cvnames"] for x in blk["cv"][n]] for blk in U["steps"]]
    else:
        cvs = [[blk["cv"]["v%d" % i][0] for i in range(c["natoms"])] for blk in U["steps"]]
    lines = [TIE.model_line(c, K, cvs) for K in c["Ks"]]
    rc, out, err = V.run_lines(model_exe, lines)
    pre = os.path.join(d, "c%s_" % c["id"])
    for n, K in enumerate(c["Ks"]):
        if n >= len(out) or not out[n].startswith("A"):
            bad.append(("model:no-answer", {"K": K}, None, out[n] if n < len(out) else err[-200:]))
            break
        mo = TIE.parse_model(out[n])
        for fmt in c["fmts"]:
            lab = "%d_%s" % (K, fmt)
            A, B = runs.get("A_" + lab), runs.get("B_" + lab)
            if A is None or B is None or any("err=ok" not in e for e in A["events"] + B["events"]):
                continue
            files = {"a": "%sa_%s.colvars.state" % (pre, lab), "fA": "%sA_%s.colvars.state" % (pre, lab),
                     "fB": "%sB_%s.colvars.state" % (pre, lab)}
            for comp, iv, mv in TIE.compare_case(c, K, fmt, mo, A["steps"], B["steps"], files):
                bad.append((comp, {"K": K, "fmt": fmt}, iv, mv))
            if bad:
                return bad
    return bad


def run_all(run, exe, model_exe, cases, d):
    nsteps = 0
    nfind = 0
    ntie = 0

    def cb(c, runs):
        if c["fam"] in MODELLED and "model" in c and model_exe:
            return tie_case(c, runs, d, model_exe)
        return []

    results = E.run_cases(exe, cases, d, callback=cb)
    for c, (Fd, tb) in zip(cases, results):
        nsteps += c.get("_nsteps", 0)
        resumes = len(c["Ks"]) * len(c["fmts"])
        run.count("%s/%s" % (c["fam"], ",".join(c["tags"])), len(c["pos"]) >= 8 and resumes >= 8)
        run.dist("family=" + c["fam"])
        for t in c["tags"]:
            run.dist(c["fam"] + ":" + t)
        run.dist("resumes", resumes)
        seen = set()
        for f in Fd:
            sig = signature(c, f)
            if sig in seen:
                continue
            seen.add(sig)
            nfind += 1
            run.violation(sig, "%s [%s] %s" % (c["id"], " ".join(c["tags"]), f["what"]),
                          {"kind": "case", "case": strip(c), "K": f["K"], "fmt": f["fmt"], "finding": f["sig"]})
        for comp, det, iv, mv in tb[:1]:
            ntie += 1
            run.mismatch(comp, {"case": strip(c), "at": det}, iv, mv)
        if len(run.cov["samples"]) < 4 and c["fam"] in ("restraint", "meta", "abf", "extlag"):
            run.sample({"family": c["fam"], "tags": c["tags"], "config": c["config"], "it0": c.get("it0", 0),
                        "history_z": c["pos"][:6], "stop_steps": c["Ks"][:6], "formats": c["fmts"]})
    # every field of a state must be run-time data in at least one generated history: differ, at some stop step,
    # from what a job that only read the configuration (and starts at a later step) would write
    changed = {}
    for c in cases:
        changed.setdefault(c["fam"], set()).update(c.get("_state_changed", []))
    for fam, req in STATE_FIELDS.items():
        if fam in changed:
            run.cov.setdefault("state_fields_exercised", {})[fam] = sorted(changed[fam] & set(req))
            for key in req:
                if key not in changed[fam]:
                    run.violation("coverage:%s:state-field-never-differs:%s" % (fam, key),
                                  "no generated %s history makes the state field `%s` differ, at any stop step, from the value the configuration "
                                  "alone gives: a reader that ignores the field would go unnoticed" % (fam, key),
                                  {"kind": "coverage", "family": fam, "field": key})
    return nsteps, nfind, ntie


def strip(c):
    return {k: v for k, v in c.items() if not k.startswith("_")}


def setup():
    V.build_prog("c03sim", PROGS["c03sim"])


def check(run):
    quick = run.tier == "quick"
    run.cov["rule"] = ("case = configuration family (restraints fixed / moving centres continuous+staged / changing force constant continuous+"
                       "staged+lambdaSchedule, accumulated work, TI; histogram; extended-Lagrangian variable with and without Langevin/"
                       "reflecting boundaries under a fixed/moving restraint; ABMD; ABF same-step and lagged, 1-2 variables, other restraint; "
                       "metadynamics with/without grids, keepHills, well-tempered, ebMeta, excursions outside the grid; ALB; OPES (adaptive widths, neighbour list, "
                       "PMF grid); projected ABF; timeStepFactor; TI samples) x dyadic history; "
                       "for EVERY stop step K of the history (quick) and both state formats: U, A(K), B(K) runs compared per step "
                       "(values, energies, atomic forces, dA/dLambda lines) and in the final state; loaded state written back compared byte for byte; "
                       "per case also 2-4 stop steps each of: the restart file the module writes by itself (colvarsRestartFrequency) loaded by a fresh instance, "
                       "a run boundary without reload, the state as a memory buffer, a chain of three jobs. "
                       "non-trivial = history >= 8 steps and >= 8 (K, format) resumes; distinct = distinct (family, feature tags)")
    run.assumptions += [
        "theorems are about the generic machine/protocol model and the object models of coq/C03 (restraint update = C06 model of the repaired code); "
        "decimal text serialisation (14 significant digits; grid parameters) is tested, not modelled: save/load are exact in the model",
        "engine conventions are those of harness/vsim.h: a fresh instance re-executes the step at which the state was written (first calc() "
        "of a process does not advance the step counter), as NAMD/LAMMPS/GROMACS do",
        "floating-point results that went through a text state are compared to 1e-9 relative (DESIGN 3.4); discrete data exactly",
    ]
    st = V.standard_start(run, PROP, EXTRACT, DRIVER, PROGS)
    if st is None:
        return
    model_exe, exes = st
    exe = exes["c03sim"]
    d = V.scratch("C03")
    r = V.rng("C03")
    only = os.environ.get("C03_ONLY")
    only = set(only.split(",")) if only else None
    cases = corpus_cases() + gen_cases(r, quick, only)
    for c in cases:
        c.setdefault("sigtags", [])
        c.setdefault("fmts", ["text", "binary"])
        c.setdefault("Ks", list(range(len(c["pos"]))))
    nsteps, nfind, ntie = run_all(run, exe, model_exe, cases, d)
    run.cov["correspondence"].update({"cases": len(cases), "engine_steps": nsteps,
                                      "resumes": sum(len(c["Ks"]) * len(c["fmts"]) for c in cases),
                                      "modelled_families": list(MODELLED)})


def replay(path):
    j = json.load(open(path))
    rp = j["replay"]
    print(json.dumps({k: v for k, v in j.items() if k != "replay"}, indent=1)[:3000])
    c = rp.get("case")
    if not c:
        print(json.dumps(rp, indent=1)[:4000])
        return 0
    exe = V.build_prog("c03sim", PROGS["c03sim"])
    d = V.scratch("C03r")
    if rp.get("K") is not None:
        c["Ks"] = [rp["K"]]
        c["fmts"] = [rp["fmt"]] if rp.get("fmt") else c["fmts"]
    lines = R.scenario(c, d)
    print("\n".join(lines))
    rc, out, err = E.run_scenario(exe, lines, cwd=d)
    print("\n".join(out))
    for f in E.judge(c, d, out, rc, err):
        print("FINDING", f["sig"], "|", f["what"])
    return 0
