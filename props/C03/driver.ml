(* C03 model driver: runs the extracted resume protocol (ResumeModel) on the extracted objects
   (ObjectsModel) at floats.  One case per line on stdin, one answer line per case:
     <KIND> <configuration tokens> <it0> <T> <K> <inputs of the T steps>
   The answer has three sections separated by " | ":
     A  the run that writes its state after step index K and goes on      (steps K+1 .. T-1)
     B  fresh object, load, re-execute step K, go on                        (steps K .. T-1)
     S  the state file written after step K (fields the object persists; "-" = key absent)
   Steps inside a section are separated by " ; " and are "it=<n> <fields>". *)
open Model
open X_fops

let hexl l = if l = [] then "-" else String.concat "," (List.map hex l)
let hexo o = match o with None -> "-" | Some x -> hex x
let zo o = match o with None -> "-" | Some z -> string_of_int (int_of_z z)
let rec take n l = if n <= 0 then [] else match l with [] -> [] | a :: r -> a :: take (n - 1) r
let rec drop n l = if n <= 0 then l else match l with [] -> [] | _ :: r -> drop (n - 1) r

(* generic: P = run c it0 (h[0..K]); A = go_on; B = resume (h[K..]) *)
let protocol m c it0 h k pr_out pr_saved =
  let h1 = take (k + 1) h and h2 = drop (k + 1) h and hb = drop k h in
  let p = run m c it0 h1 in
  let f = state_file m c (fst p) in
  let a = go_on m c (fst p) h2 in
  let b = resume m c f hb in
  let steps l = String.concat " ; " (List.map (fun (it, o) -> Printf.sprintf "it=%d %s" (int_of_z it) (pr_out o)) l) in
  Printf.printf "A %s | B %s | S step=%d %s\n" (steps (snd a)) (steps (snd b)) (int_of_z (fst f)) (pr_saved (snd f))

let () =
  try
    while true do
      let line = input_line stdin in
      let w = Array.of_list (words line) in
      if Array.length w > 0 then begin
        let p = ref 1 in
        let next () = let s = w.(!p) in Stdlib.incr p; s in
        let nf () = fl (next ()) in
        let ni () = int_of_string (next ()) in
        let nb () = ni () <> 0 in
        let nz () = z_of_int (ni ()) in
        let nflist n = List.init n (fun _ -> nf ()) in
        let read_rcfg () =
          let kind = (match next () with "harmonic" -> Harmonic | "walls" -> Walls | _ -> Linear) in
          let nv = ni () in
          let vars = List.init nv (fun _ ->
              let wd = nf () in let per = nb () in let pp = nf () in let wc = nf () in
              { v_width = wd; v_periodic = per; v_period = pp; v_wrap_center = wc }) in
          let c0 = nflist nv in
          let chgc = nb () in let tc = nflist nv in
          let k0 = nf () in let chgk = nb () in let dec = nb () in
          let sk = nf () in let tk = nf () in let lexp = nf () in
          let ns = ni () in let sched = nflist ns in
          let nsteps = nz () in let nstages = nz () in let equil = nz () in
          let accw = nb () in let hl = nb () in let hu = nb () in
          let lower = nflist nv in let upper = nflist nv in
          let lk = nf () in let uk = nf () in
          let it0 = nz () in
          (nv, { c_kind = kind; c_vars = vars; c_centers0 = c0; c_chg_centers = chgc; c_target_centers = tc;
                 c_k0 = k0; c_chg_k = chgk; c_decoupling = dec; c_start_k = sk; c_target_k = tk;
                 c_lambda_exp = lexp; c_lambda_sched = sched; c_nsteps = nsteps; c_nstages = nstages;
                 c_equil = equil; c_acc_work = accw; c_has_lower = hl; c_has_upper = hu;
                 c_lower = lower; c_upper = upper; c_lower_k = lk; c_upper_k = uk; c_it0 = it0 }) in
        let pr_rout o =
          Printf.sprintf "E=%s F=%s L=%s" (hex o.o_energy) (hexl o.o_forces)
            (match o.o_log with None -> "-" | Some (l, d) -> hex l ^ ":" ^ hex d) in
        let pr_rsaved v =
          Printf.sprintf "firstStep=%s stage=%s centers=%s forceConstant=%s restraintFE=%s accumulatedWork=%s"
            (zo v.sv_first) (zo v.sv_stage) (match v.sv_centers with None -> "-" | Some l -> hexl l)
            (hexo v.sv_k) (hexo v.sv_FE) (hexo v.sv_W) in
        (match w.(0) with
         | "RESTR" ->
           let (nv, c) = read_rcfg () in
           let t = ni () in let k = ni () in
           let h = List.init t (fun _ -> nflist nv) in
           protocol (restraint_machine fops) c c.c_it0 h k pr_rout pr_rsaved
         | "HIST" ->
           let nv = ni () in
           let lower = nflist nv in let width = nflist nv in
           let nx = List.init nv (fun _ -> nz ()) in
           let szd = nb () in
           let it0 = nz () in let t = ni () in let k = ni () in
           let h = List.init t (fun _ -> nflist nv) in
           let nq = ni () in
           let queries = List.init nq (fun _ -> List.init nv (fun _ -> nz ())) in
           let c = { h_lower = lower; h_width = width; h_nx = nx; h_step_zero = szd } in
           let m = histogram_machine fops in
           let h1 = take (k + 1) h and h2 = drop (k + 1) h and hb = drop k h in
           let pp = run m c it0 h1 in
           let f = state_file m c (fst pp) in
           let a = go_on m c (fst pp) h2 in
           let b = resume m c f hb in
           let grid g = String.concat "," (List.map (fun q -> string_of_int (int_of_z (g q))) queries) in
           let bins l = String.concat " ; " (List.map (fun (it, o) ->
               Printf.sprintf "it=%d bin=%s" (int_of_z it) (String.concat "," (List.map (fun z -> string_of_int (int_of_z z)) o))) l) in
           Printf.printf "A %s G=%s | B %s G=%s | S step=%d G=%s\n"
             (bins (snd a)) (grid (snd (fst a))) (bins (snd b)) (grid (snd (fst b))) (int_of_z (fst f)) (grid (snd f))
         | "ABMD" ->
           let kk = nf () in let stop = nf () in let dec = nb () in
           let it0 = nz () in let t = ni () in let k = ni () in
           let h = nflist t in
           let c = { a_k = kk; a_stop = stop; a_decreasing = dec } in
           protocol (abmd_machine fops) c it0 h k
             (fun (e, f) -> Printf.sprintf "E=%s F=%s" (hex e) (hex f))
             (fun (r, _) -> Printf.sprintf "refValue=%s" (hex r))
         | "ALB" ->
           let center = nf () in let width = nf () in let freq = nz () in let kt = nf () in
           let range0 = nf () in let maxrate = nf () in let hard = nb () in let k0 = nf () in
           let it0 = nz () in let t = ni () in let k = ni () in
           let h = nflist t in
           let c = { al_center = center; al_width = width; al_freq = freq; al_kT = kt; al_range0 = range0;
                     al_max_rate = maxrate; al_hard = hard; al_k0 = k0 } in
           protocol (alb_machine fops) c it0 h k
             (fun (e, f) -> Printf.sprintf "E=%s F=%s" (hex e) (hex f))
             (fun (((((((se, cu), ra), rt), ac), me), ss), ((ca, eq), fc)) ->
                Printf.sprintf "setCoupling=%s currentCoupling=%s maxCouplingRange=%s couplingRate=%s couplingAccum=%s mean=%s ssd=%s updateCalls=%d b_equilibration=%s forceCoupling=%s"
                  (hex se) (hex cu) (hex ra) (hex rt) (hex ac) (hex me) (hex ss) (int_of_z ca) (if eq then "yes" else "no") (hex fc))
         | "EXTLAG" ->
           let dt = nf () in let mass = nf () in let kx = nf () in
           let lang = nb () in let gf = nf () in let sigma = nf () in
           let rlo = nb () in let lo = nf () in let rup = nb () in let up = nf () in
           let xc = { x_dt = dt; x_mass = mass; x_k = kx; x_langevin = lang; x_gamma_factor = gf; x_sigma = sigma;
                      x_refl_lo = rlo; x_lo = lo; x_refl_up = rup; x_up = up } in
           let (_, rc) = read_rcfg () in
           let t = ni () in let k = ni () in
           let h = List.init t (fun _ -> let x = nf () in let g = nf () in { xi_x = x; xi_rnd = g }) in
           let m = extlag_machine fops (restraint_machine fops)
               (fun (o : float rout) -> List.fold_left ( +. ) 0.0 o.o_forces) bin_value in
           protocol m (xc, rc) rc.c_it0 h k
             (fun ((xr, fa), o) -> Printf.sprintf "XR=%s FA=%s %s" (hex xr) (hex fa) (pr_rout o))
             (fun (((x, xr), vr), v) -> Printf.sprintf "x=%s extended_x=%s extended_v=%s %s" (hex x) (hex xr) (hex vr) (pr_rsaved v))
         | "ABF" ->
           let nd = ni () in
           let lower = nflist nd in let width = nflist nd in
           let nx = List.init nd (fun _ -> nz ()) in
           let periodic = List.init nd (fun _ -> nb ()) in
           let full = nz () in let mn = nz () in let upd = nb () in
           let cap = nb () in let maxf = nflist nd in let same = nb () in
           let sub = List.init nd (fun _ -> nb ()) in
           let other = List.init nd (fun _ -> nb ()) in
           let it0 = nz () in
           let t = ni () in let k = ni () in
           let h = List.init t (fun _ ->
               let x = nflist nd in let e = nflist nd in let o = nflist nd in
               { i_x = x; i_e = e; i_o = o; i_j = List.init nd (fun _ -> 0.0); i_boundary = false; i_apply = true; i_w = List.init nd (fun _ -> 0.0) }) in
           let nq = ni () in
           let queries = List.init nq (fun _ -> List.init nd (fun _ -> nz ())) in
           let rec nat_of_int n = if n <= 0 then O else S (nat_of_int (n - 1)) in
           let c = { c_nd = nat_of_int nd; c_lower0 = lower; c_width = width; c_nx = nx; c_periodic = periodic;
                     c_full = full; c_min = mn; c_update = upd; c_cap = cap; c_maxf = maxf;
                     c_szd = false; c_same_step = same; c_subtract = sub; c_hidej = false; c_other = other;
                     c_scaled = false; c_sfac = (fun _ -> 1.0) } in
           let m = abf_machine fops in
           let h1 = take (k + 1) h and h2 = drop (k + 1) h and hb = drop k h in
           let pp = run m c it0 h1 in
           let f = state_file m c (fst pp) in
           let a = go_on m c (fst pp) h2 in
           let b = resume m c f hb in
           let grids (cnt, sum) =
             let cs = List.map (fun q -> string_of_int (int_of_z (cnt q))) queries in
             let gs = List.concat (List.map (fun q ->
                 let n = int_of_z (cnt q) in
                 List.map (fun v -> if n > 0 then hex (v /. float_of_int n) else hex 0.0) (sum q)) queries) in
             Printf.sprintf "CNT=%s GRAD=%s" (String.concat "," cs) (String.concat "," gs) in
           let steps l = String.concat " ; " (List.map (fun (it, o) ->
               Printf.sprintf "it=%d F=%s" (int_of_z it) (hexl o.o_f)) l) in
           let st r = let s = snd (fst r) in (s.s_cnt, s.s_sum) in
           Printf.printf "A %s %s | B %s %s | S step=%d %s\n"
             (steps (snd a)) (grids (st a)) (steps (snd b)) (grids (st b)) (int_of_z (fst f)) (grids (snd f))
         | "HISTR" ->
           let kk = nf () in let pi = nf () in let sigma = nf () in let lower = nf () in let width = nf () in
           let nr = ni () in let refp = nflist nr in
           let it0 = nz () in let t = ni () in let k = ni () in let m_ = ni () in
           let h = List.init t (fun _ -> nflist m_) in
           let c = { hr_k = kk; hr_pi = pi; hr_sigma = sigma; hr_lower = lower; hr_width = width; hr_ref = refp } in
           protocol (histrestraint_machine fops) c it0 h k
             (fun (e, f) -> Printf.sprintf "E=%s F=%s" (hex e) (hexl f))
             (fun () -> "none")
         | "EABF" ->
           let dt = nf () in let mass = nf () in let kx = nf () in
           let lang = nb () in let gf = nf () in let sigma = nf () in
           let lower = nf () in let width = nf () in let nx = nz () in
           let full = nz () in let mn = nz () in
           let it0 = nz () in let t = ni () in let k = ni () in
           let h = List.init t (fun _ -> let x = nf () in let g = nf () in { xi_x = x; xi_rnd = g }) in
           let xc = { x_dt = dt; x_mass = mass; x_k = kx; x_langevin = lang; x_gamma_factor = gf; x_sigma = sigma;
                      x_refl_lo = false; x_lo = 0.0; x_refl_up = false; x_up = 0.0 } in
           let ac = { c_nd = S O; c_lower0 = [lower]; c_width = [width]; c_nx = [nx]; c_periodic = [false];
                      c_full = full; c_min = mn; c_update = true; c_cap = false; c_maxf = [0.0];
                      c_szd = false; c_same_step = false; c_subtract = [false]; c_hidej = false; c_other = [false];
                      c_scaled = false; c_sfac = (fun _ -> 1.0) } in
           let m = eabf_machine fops in
           let queries = List.init (int_of_z nx) (fun i -> [z_of_int i]) in
           let grids (cnt, sum) =
             let cs = List.map (fun q -> string_of_int (int_of_z (cnt q))) queries in
             let gs = List.concat (List.map (fun q ->
                 let n = int_of_z (cnt q) in
                 List.map (fun v -> if n > 0 then hex (v /. float_of_int n) else hex 0.0) (sum q)) queries) in
             Printf.sprintf "CNT=%s GRAD=%s" (String.concat "," cs) (String.concat "," gs) in
           let h1 = take (k + 1) h and h2 = drop (k + 1) h and hb = drop k h in
           let pp = run m (xc, ac) it0 h1 in
           let f = state_file m (xc, ac) (fst pp) in
           let a = go_on m (xc, ac) (fst pp) h2 in
           let b = resume m (xc, ac) f hb in
           let steps l = String.concat " ; " (List.map (fun (it, ((xr, fa), _)) ->
               Printf.sprintf "it=%d XR=%s FA=%s" (int_of_z it) (hex xr) (hex fa)) l) in
           let st r = let s = snd (snd (fst r)) in (s.s_cnt, s.s_sum) in
           let (((x, xr), vr), sv) = snd f in
           Printf.printf "A %s %s | B %s %s | S step=%d x=%s extended_x=%s extended_v=%s %s\n"
             (steps (snd a)) (grids (st a)) (steps (snd b)) (grids (st b)) (int_of_z (fst f))
             (hex x) (hex xr) (hex vr) (grids sv)
         | "META" ->
           let nd = ni () in
           let vg = List.init nd (fun _ ->
               let sigma = nf () in let width = nf () in let lower = nf () in let upper = nf () in let nx = ni () in
               let expand = nb () in
               (({ v_kind = KScalar; v_periodic0 = false; v_period0 = 0.0; v_width0 = width;
                  v_gperiodic = false; v_expand = expand; v_hard_lo = false; v_hard_up = false },
                { b_lower = lower; b_upper = upper; b_nx = z_of_int nx }), sigma)) in
           let sigmas = List.map snd vg in let vg = List.map fst vg in
           let weight = nf () in let hw = nf () in let freq = nz () in let gfreq = nz () in
           let ug = nb () in let keep = nb () in let wt = nb () in let bt = nf () in let kb = nf () in
           let eb = nb () in let ebeq = nz () in let nt = ni () in let target = Array.of_list (nflist nt) in
           let sizes = List.map (fun (_, b) -> int_of_z b.b_nx) vg in
           let eb_target ix =
             (* row-major address of the index vector in the grid of the configuration *)
             let a = List.fold_left2 (fun acc i n -> acc * n + int_of_z i) 0 ix sizes in
             if a >= 0 && a < Array.length target then target.(a) else 0.0 in
           let it0 = nz () in let t = ni () in let k = ni () in
           let h = List.init t (fun _ -> List.init nd (fun _ -> [nf ()])) in
           let c = { c_vars0 = List.map fst vg; c_geom0 = List.map snd vg; c_sigmas = sigmas; c_weight = weight; c_hill_width = hw;
                     c_freq = freq; c_gfreq = gfreq; c_use_grids = ug; c_keep = keep; c_wt = wt;
                     c_bias_temp = bt; c_kb = kb; c_step_zero = false; c_eb = eb; c_eb_equil = ebeq;
                     c_eb_target = eb_target } in
           protocol (meta_machine fops) c it0 h k
             (fun (e, f) -> Printf.sprintf "E=%s F=%s" (hex e) (hexl (List.concat f)))
             (fun (_, hs) -> Printf.sprintf "NH=%d" (List.length hs))
         | _ -> Printf.printf "?\n")
      end
    done
  with End_of_file -> ()
