#!/usr/bin/env python3
# Developer tool: run the resume experiment on one family and print what differs.
#   python3 props/C03/explore.py <family> [ncases] [T] [seed]
import os, sys, json
HERE = os.path.dirname(os.path.abspath(__file__))
sys.path.insert(0, os.path.join(HERE, "..", "..", "lib"))
sys.path.insert(0, HERE)
import vcommon as V
import c03_resume as R
import c03_families as F
import c03_engine as E


def main():
    fam = sys.argv[1]
    n = int(sys.argv[2]) if len(sys.argv) > 2 else 5
    T = int(sys.argv[3]) if len(sys.argv) > 3 else 12
    if len(sys.argv) > 4:
        os.environ["VERIF_SEED"] = sys.argv[4]
    exe = V.build_prog("c03sim", ["props/C03/unit.cpp"])
    d = V.scratch("C03x")
    r = V.rng("explore/" + fam)
    cases = []
    for k in range(n):
        c = F.FAMILIES[fam](r, k, T)
        c["id"] = k
        c["Ks"] = list(range(T))
        c["fmts"] = ["text", "binary"]
        cases.append(c)
    res = E.run_cases(exe, cases, d)
    for c, findings in zip(cases, res):
        print("case", c["id"], c["tags"], "findings:", len(findings))
        seen = set()
        for f in findings:
            if f["sig"] in seen:
                continue
            seen.add(f["sig"])
            print("   ", f["sig"], "|", f["what"][:300])
        if "-v" in sys.argv:
            print("\n".join(c["config"]))


if __name__ == "__main__":
    main()
