# C03: running the resume experiment on the implementation and judging it (property oracle).
#
# For a case (configuration, history of positions / engine forces) and every stop step K and format:
#   U  uninterrupted run                      A  run that writes its state after step K and goes on
#   B  fresh instance, same configuration, loads that state, writes it back at once, re-executes step K and goes on
# The property demands B = U (values, energies, forces at every step from K on; final state).  It is checked as
#   A = U  (writing the state does not change the run)            -> finding kind "save-side-effect"
#   B = A  (what is loaded continues like what was saved)         -> finding kind "resume"
#   the state written back right after loading = the loaded file  -> finding kind "save-after-load"
#   loading a state the same configuration wrote must not fail    -> finding kind "load-error"
import os, sys, json, subprocess
from concurrent.futures import ThreadPoolExecutor
import vcommon as V
import c03_resume as R

JOBS = max(1, min(4, V.NPROC))


def run_scenario(exe, lines, timeout=900, cwd=None):
    try:
        p = subprocess.run([exe], input="\n".join(lines) + "\n", stdout=subprocess.PIPE, stderr=subprocess.PIPE,
                           text=True, errors="replace", timeout=timeout, cwd=cwd)
        return p.returncode, p.stdout.split("\n"), p.stderr
    except subprocess.TimeoutExpired:
        return 124, [], "TIMEOUT"


def obs_class(obs):
    """observable name without instance names: energy, cv, bias, atomf, log, state:<keyword>, it, err"""
    return obs if obs.startswith("state:") else obs.split(":")[0]


def first_diff(sa, sb, fa, fb, off=0, tol=R.TOL, resumed=False, tf_lagged=False, sleep_factor=0, states=True):
    """first difference between step lists sa[off:] and sb, then between final state files; (t, (obs, a, b)) or None"""
    awake_seen = False
    for j, b in enumerate(sb):
        if sleep_factor > 1 and b["it"] % sleep_factor == 0:
            awake_seen = True
        if off + j >= len(sa):
            return (off + j, ("steps", len(sa), off + len(sb)))
        dd = R.diff_blocks(sa[off + j], b, tol)
        if dd and resumed and j == 0 and dd[0].startswith("log") and not b["log"]:
            dd = None    # lines written while step K was first executed belong to the stopped run: not expected again
        if dd and resumed and j == 0 and dd[0].startswith("tf") and tf_lagged:
            # the total force of the previous step is not available to an engine restarted at this step:
            # compare everything else of the step
            b2 = dict(b); a2 = dict(sa[off + j]); b2.pop("tf"); a2.pop("tf")
            dd = R.diff_blocks(a2, b2, tol)
        if dd and resumed and sleep_factor > 1 and not awake_seen and dd[0].split(":")[0] in ("cv", "bias"):
            # objects with timeStepFactor f have slept since the restart: what they report is what they held when they
            # were last updated in this session (nothing, in a new one); forces on atoms and energies are compared
            b2 = dict(b); a2 = dict(sa[off + j])
            for key in ("cv", "bias"):
                b2[key] = {}; a2[key] = {}
            dd = R.diff_blocks(a2, b2, tol)
        if dd:
            return (off + j, dd)
    if not states:
        return None
    if len(sa) - off != len(sb):
        return (len(sa) - 1, ("steps", len(sa) - off, len(sb)))
    ds = R.diff_states(fa, fb, tol)
    if ds:
        return (None, ("state:" + ds[0], ds[1], ds[2]))
    return None


def judge(c, d, out, rc, err):
    """-> list of findings {kind, sig, what, K, fmt, ...}"""
    F = []
    fam = c["fam"]
    pre = os.path.join(d, "c%s_" % c["id"])
    runs = R.parse_runs(out)
    T = len(c["pos"])
    it0 = c.get("it0", 0)
    TOLC = c.get("tol", R.TOL)     # projected ABF: results of an iterative solver stopped at its own tolerance

    def add(kind, sig, what, K=None, fmt=None, **kw):
        f = {"kind": kind, "sig": sig, "what": what, "K": K, "fmt": fmt}
        f.update(kw)
        F.append(f)

    U = runs.get("U")
    if rc != 0 or U is None or len(U["steps"]) != T:
        add("harness", "harness:%s:uninterrupted-run-incomplete" % fam,
            "the uninterrupted run did not complete (rc=%s, %d of %d steps): %s" % (rc, len(U["steps"]) if U else 0, T, err[-300:]))
        return F
    bad_ev = [e for e in U["events"] if "err=ok" not in e]
    if any(b["err"] != "err=ok" for b in U["steps"]) or bad_ev:
        add("harness", "harness:%s:uninterrupted-run-error" % fam,
            "the uninterrupted run reports an error: %s %s" % (bad_ev[:2], [b["it"] for b in U["steps"] if b["err"] != "err=ok"][:3]))
        return F
    fU = pre + "U.colvars.state"
    for K in c["Ks"]:
        for fmt in c["fmts"]:
            lab = "%d_%s" % (K, fmt)
            A, B = runs.get("A_" + lab), runs.get("B_" + lab)
            if A is None or B is None:
                add("harness", "harness:%s:run-missing" % fam, "run %s missing (rc=%s) %s" % (lab, rc, err[-200:]), K, fmt)
                continue
            evA = [e for e in A["events"] if "err=ok" not in e]
            evB = [e for e in B["events"] if "err=ok" not in e]
            if evA:
                add("load-error", "save:%s:%s-error" % (fam, evA[0].split()[0].lower()),
                    "state written after step %d (%s): %s" % (it0 + K, fmt, evA[0]), K, fmt)
                continue
            if evB:
                add("load-error", "load:%s:%s-error" % (fam, evB[0].split()[0].lower()),
                    "state written after step %d (%s) by the same configuration, fresh instance: %s" % (it0 + K, fmt, evB[0]), K, fmt)
                continue
            fA, fB = pre + "A_%s.colvars.state" % lab, pre + "B_%s.colvars.state" % lab
            # A = U
            dd = first_diff(U["steps"], A["steps"], fU, fA, tol=TOLC)
            if dd:
                t, (obs, x, y) = dd
                add("save-side-effect", "save-changes-run:%s:%s" % (fam, obs_class(obs)),
                    "writing the state (%s) after step %d changes the run: %s %s is %r, without the save %r"
                    % (fmt, it0 + K, "at step %d" % (it0 + t) if t is not None else "in the final state", obs, y, x),
                    K, fmt, t=t, obs=obs)
            # B = A
            dd = first_diff(A["steps"], B["steps"], fA, fB, off=K, resumed=True, tf_lagged=c.get("tf_lagged", False),
                            sleep_factor=c.get("sleep_factor", 0), tol=TOLC)
            if dd:
                t, (obs, x, y) = dd
                when = "final" if t is None else ("at-restart-step" if t == K else "after")
                add("resume", "resume:%s:%s:%s" % (fam, obs_class(obs), when),
                    "stop after step %d, %s state, fresh instance, load, continue: %s %s is %r, in the run that went on %r"
                    % (it0 + K, fmt, "at step %d" % (it0 + t) if t is not None else "in the final state", obs, y, x),
                    K, fmt, t=t, obs=obs)
            # analysis windows written to files (running average): the lines of the steps after the stop step
            if c.get("prefix_per_run") and not dd:
                la = R.runave_lines("%sP_A_%s.v0.runave.traj" % (pre, lab))
                lb = R.runave_lines("%sP_B_%s.v0.runave.traj" % (pre, lab))
                if la is not None:
                    want = {t: v for t, v in la.items() if t > it0 + K}
                    got = {t: v for t, v in (lb or {}).items() if t > it0 + K}
                    missing = sorted(set(want) - set(got))
                    wrong = [t for t in sorted(set(want) & set(got))
                             if not (R.close(want[t][0], got[t][0]) and R.close(want[t][1], got[t][1], 1e-7))]
                    if missing or wrong:
                        t0 = (missing + wrong)[0]
                        add("resume", "resume:%s:runave-file" % fam,
                            "stop after step %d, %s state, resume: running-average file: line of step %d is %r, in the run "
                            "that went on %r (%d lines missing, %d different)" % (it0 + K, fmt, t0, got.get(t0), want[t0],
                                                                                  len(missing), len(wrong)), K, fmt, obs="runave")
            # block order: the shuffled state (plus a foreign block) loads to the same objects
            if c.get("shuffle") and fmt == "text":
                Sr = runs.get("S_" + lab)
                if Sr is None or any("err=ok" not in e for e in Sr["events"]):
                    add("load-error", "blocks:%s:shuffled-state-not-loaded" % fam,
                        "state written after step %d with its blocks reordered: %s" % (it0 + K, (Sr or {}).get("events")), K, fmt)
                else:
                    ds = first_diff(B["steps"], Sr["steps"], fB, pre + "S_%s.colvars.state" % lab, off=0, tol=0.0)
                    if ds:
                        t, (obs, x, y) = ds
                        add("resume", "blocks:%s:%s" % (fam, obs_class(obs)),
                            "state written after step %d, blocks reordered and a foreign block added: %s %s is %r, with the file as "
                            "written %r" % (it0 + K, "at step index %s" % t if t is not None else "in the final state", obs, y, x), K, fmt)
            # saving immediately after loading reproduces the loaded state
            f1 = "%sa_%s.colvars.state" % (pre, lab)
            f2 = "%sb_%s.colvars.state" % (pre, lab)
            if not R.files_equal(f1, f2):
                if fmt == "text":
                    ds = R.diff_states(f1, f2, tol=0.0)
                    det = "first difference at `%s`: loaded %r, written back %r" % ds if ds else "white space only"
                    key = ds[0] if ds else "format"
                else:
                    det = "the binary files differ"
                    key = "bytes"
                add("save-after-load", "save-after-load:%s:%s" % (fam, key),
                    "state written after step %d (%s), loaded in a fresh instance and written again: %s" % (it0 + K, fmt, det), K, fmt)
    # automatic restart file written by the module at step K: a fresh instance that loads it goes on like the uninterrupted run
    for K in c.get("auto_Ks", []):
        Q, QB = runs.get("Q_%d" % K), runs.get("QB_%d" % K)
        if Q is None or QB is None or len(Q["steps"]) != K + 1:
            add("harness", "harness:%s:run-missing" % fam, "run Q_%d missing or short (rc=%s) %s" % (K, rc, err[-200:]), K, "auto")
            continue
        ev = [e for e in Q["events"] + QB["events"] if "err=ok" not in e]
        if ev or not os.path.exists("%sQ_%d.colvars.state" % (pre, K)):
            add("load-error", "auto-restart:%s:not-loaded" % fam,
                "restart file written by the module at step %d (colvarsRestartFrequency %d): %s" % (it0 + K, R.auto_freq(c, K), ev[:1] or "no file"), K, "auto")
            continue
        dd = first_diff(U["steps"], QB["steps"], fU, pre + "QB_%d.colvars.state" % K, off=K, resumed=True,
                        tf_lagged=c.get("tf_lagged", False), sleep_factor=c.get("sleep_factor", 0), tol=TOLC)
        if dd:
            t, (obs, x, y) = dd
            when = "final" if t is None else ("at-restart-step" if t == K else "after")
            add("resume", "auto-restart:%s:%s:%s" % (fam, obs_class(obs), when),
                "the module writes its restart file at step %d (colvarsRestartFrequency %d), the job ends, a fresh instance loads "
                "the file and continues: %s %s is %r, in the uninterrupted run %r"
                % (it0 + K, R.auto_freq(c, K), "at step %d" % (it0 + t) if t is not None else "in the final state", obs, y, x),
                K, "auto", t=t, obs=obs)
    # a job resumed twice ends like the uninterrupted run
    for K1, K2, fmt in c.get("chain_Ks", []):
        lab = "%d_%d_%s" % (K1, K2, fmt)
        C3 = runs.get("C3_" + lab)
        evs = [e for n in ("C1_", "C2_", "C3_") for e in (runs.get(n + lab) or {"events": ["missing"]})["events"] if "err=ok" not in e]
        if C3 is None or evs:
            add("load-error", "chain:%s:not-loaded" % fam, "stop after steps %d and %d (%s), resumed twice: %s" % (it0 + K1, it0 + K2, fmt, evs[:1]), K2, fmt)
            continue
        dd = first_diff(U["steps"], C3["steps"], fU, pre + "C3_%s.colvars.state" % lab, off=K2, resumed=True,
                        tf_lagged=c.get("tf_lagged", False), sleep_factor=c.get("sleep_factor", 0), tol=TOLC)
        if dd:
            t, (obs, x, y) = dd
            when = "final" if t is None else ("at-restart-step" if t == K2 else "after")
            add("resume", "chain:%s:%s:%s" % (fam, obs_class(obs), when),
                "stopped after step %d, resumed, stopped after step %d, resumed (%s states): %s %s is %r, in the uninterrupted run %r"
                % (it0 + K1, it0 + K2, fmt, "at step %d" % (it0 + t) if t is not None else "in the final state", obs, y, x), K2, fmt, t=t, obs=obs)
    # a rejected configuration before the state is loaded, biases defined in another order: same resumed run
    for K in c.get("reject_Ks", []):
        Er, B = runs.get("E_%d" % K), runs.get("B_%d_text" % K)
        if Er is None or B is None:
            add("harness", "harness:%s:run-missing" % fam, "run E_%d missing (rc=%s) %s" % (K, rc, err[-200:]), K, "text")
            continue
        ev = [e for e in Er["events"] if "err=ok" not in e]
        if len(ev) != 1 or not ev[0].startswith("CONFIG"):
            add("load-error", "rejected-config:%s:events" % fam,
                "a configuration with a bias on an undefined variable is rejected, then the state of step %d is loaded: events %s"
                % (it0 + K, ev[:3]), K, "text")
            continue
        dd = first_diff(B["steps"], Er["steps"], pre + "B_%d_text.colvars.state" % K, pre + "E_%d.colvars.state" % K, off=0, tol=TOLC)
        if dd:
            t, (obs, x, y) = dd
            add("resume", "rejected-config:%s:%s" % (fam, obs_class(obs)),
                "resumed job with its biases defined in the opposite order and one rejected configuration before the state of step "
                "%d is loaded: %s %s is %r, in the plain resumed job %r"
                % (it0 + K, "at step %d" % (it0 + K + t) if t is not None else "in the final state", obs, y, x), K, "text")
    # state handed over as a buffer in memory: same as through a file
    for K, fmt in c.get("buffer_Ks", []):
        lab = "%d_%s" % (K, fmt)
        MA, MB, B = runs.get("MA_" + lab), runs.get("MB_" + lab), runs.get("B_" + lab)
        if MA is None or MB is None:
            add("harness", "harness:%s:run-missing" % fam, "run M_%s missing (rc=%s) %s" % (lab, rc, err[-200:]), K, fmt)
            continue
        ev = [e for e in MA["events"] + MB["events"] if "err=ok" not in e]
        if ev:
            add("load-error", "buffer:%s:%s-error" % (fam, ev[0].split()[0].lower()),
                "state kept as a %s buffer after step %d, fresh instance: %s" % (fmt, it0 + K, ev[0]), K, fmt)
            continue
        if B is None:
            continue
        dd = first_diff(B["steps"], MB["steps"], pre + "B_%s.colvars.state" % lab, pre + "MB_%s.colvars.state" % lab, off=0, tol=0.0)
        if dd:
            t, (obs, x, y) = dd
            add("resume", "buffer:%s:%s" % (fam, obs_class(obs)),
                "state after step %d handed to a fresh instance as a %s buffer in memory instead of a file: %s %s is %r, through the "
                "file %r" % (it0 + K, fmt, "at step %d" % (it0 + K + t) if t is not None else "in the final state", obs, y, x), K, fmt)
    # run boundary in the same session: step K is computed twice, nothing is reloaded
    for K in c.get("boundary_Ks", []):
        Rr = runs.get("R_%d" % K)
        if Rr is None or len(Rr["steps"]) != T + 1:
            add("harness", "harness:%s:run-missing" % fam, "run R_%d missing or short (rc=%s) %s" % (K, rc, err[-200:]), K, "boundary")
            continue
        steps = Rr["steps"][:K + 1] + Rr["steps"][K + 2:]
        rep = Rr["steps"][K + 1]
        found = []
        dd = first_diff(U["steps"], [rep], None, None, off=K, resumed=True, tf_lagged=c.get("tf_lagged", False), states=False, tol=TOLC)
        if dd:
            found.append(("at-repeated-step", dd))
        dd = first_diff(U["steps"], steps, fU, pre + "R_%d.colvars.state" % K, tol=TOLC)
        if dd:
            found.append(("final" if dd[0] is None else "after", dd))
        for when, (t, (obs, x, y)) in found:
            add("resume", "run-boundary:%s:%s:%s" % (fam, obs_class(obs), when),
                "a run ends after step %d and the next run of the same session computes that step again: %s %s is %r, "
                "in the uninterrupted run %r" % (it0 + K, "at step %d" % (it0 + t) if t is not None else "in the final state", obs, y, x),
                K, "boundary", t=t, obs=obs)
    # both formats lead to the same final state
    if "text" in c["fmts"] and "binary" in c["fmts"] and not F:
        for K in c["Ks"]:
            ft = pre + "B_%d_text.colvars.state" % K
            fb = pre + "B_%d_binary.colvars.state" % K
            ds = R.diff_states(ft, fb, TOLC)
            if ds:
                add("format", "format:%s:state:%s" % (fam, ds[0]),
                    "stop after step %d: the run resumed from the text state ends with `%s` %r, the one resumed from the "
                    "binary state with %r" % (it0 + K, ds[0], ds[1], ds[2]), K, None)
                break
    return F


def run_cases(exe, cases, d, keep=False, callback=None):
    """-> per case: findings, or (findings, callback(c, parsed runs)) when a callback is given"""
    def one(c):
        lines = R.scenario(c, d)
        for fn, txt in (c.get("files") or {}).items():      # input files of the configuration (target distributions)
            with open(os.path.join(d, fn), "w") as fh:
                fh.write(txt)
        rc, out, err = run_scenario(exe, lines, cwd=d)
        c["_nsteps"] = sum(1 for l in out if l.startswith("STEP"))
        F = judge(c, d, out, rc, err)
        # which fields of the state differ, at some stop step, from what the configuration alone gives
        try:
            pre_ = os.path.join(d, "c%s_" % c["id"])
            z = R.state_fields(pre_ + "Z.colvars.state")
            ch = set()
            if z is not None and "text" in c["fmts"]:
                for K in c["Ks"]:
                    a = R.state_fields(pre_ + "a_%d_text.colvars.state" % K)
                    if a:
                        ch.update(k for k in a if a.get(k) != z.get(k))
            c["_state_changed"] = sorted(ch)
        except Exception:
            c["_state_changed"] = []
        extra = None
        if callback is not None:
            try:
                extra = callback(c, R.parse_runs(out))
            except Exception as ex:    # a comparator bug must not hide the oracle's verdict
                import traceback
                extra = [("tie:exception", {}, None, traceback.format_exc()[-600:])]
        if not keep:
            pre = "c%s_" % c["id"]
            for fn in os.listdir(d):
                if fn.startswith(pre):
                    try:
                        os.remove(os.path.join(d, fn))
                    except OSError:
                        pass
        return F if callback is None else (F, extra)
    with ThreadPoolExecutor(max_workers=JOBS) as ex:
        return list(ex.map(one, cases))
