# C03 implementation-side experiment: uninterrupted run vs stop / save / fresh instance / load / continue,
# for every stop step K and both state formats, on the engine simulator (harness/vsim.h, program c03sim).
# A case is a dict:
#   fam      family name (restraint, histogram, extlag, abf, meta, abmd, alb, opes, ...)
#   tags     list of feature tags (used in signatures and in the input distribution)
#   natoms   number of atoms; atom i+1 drives variable i through an exact distanceZ
#   setup    scenario lines issued before `fresh` (dt, temperature, samestep, gauss, ...)
#   config   list of configuration lines
#   it0      step number at which the configuration is parsed
#   pos      pos[t] = list of z coordinates (one per atom) at step it0 + t
#   ef       ef[t]  = list of engine forces f_z (one per atom) at step it0 + t   (optional)
#   Ks       stop steps (indices into pos) to try;  fmts  formats to try
import os, re, math
import vcommon as V

TOL = 1e-9


def hx(x):
    return V.hexf(x)


def close(a, b, tol=TOL):
    if a == b:
        return True
    if math.isnan(a) or math.isnan(b):
        return math.isnan(a) and math.isnan(b)
    return abs(a - b) <= tol * max(1.0, abs(a), abs(b))


# --------------------------------------------------------------------------------------------- configuration text
def cv_block(i, name=None, width=1.0, lower=None, upper=None, period=None, wrap=0.0, extra=(), cvc_extra=()):
    L = ["colvar {", "  name %s" % (name or "v%d" % i), "  width %r" % width]
    if lower is not None:
        L.append("  lowerBoundary %r" % lower)
    if upper is not None:
        L.append("  upperBoundary %r" % upper)
    L += ["  " + e for e in extra]
    L += ["  distanceZ {", "    main { atomNumbers %d }" % (i + 1), "    ref { dummyAtom (0,0,0) }", "    axis (0,0,1)"]
    if period is not None:
        L += ["    period %r" % period, "    wrapAround %r" % wrap]
    L += ["    " + e for e in cvc_extra]
    L += ["  }", "}"]
    return L


# --------------------------------------------------------------------------------------------- scenario text
def step_lines(c, t):
    L = []
    for i, z in enumerate(c["pos"][t]):
        L.append("pos %d 0 0 %s" % (i + 1, hx(z)))
    if c.get("ef"):
        for i, f in enumerate(c["ef"][t]):
            L.append("eforce %d 0 0 %s" % (i + 1, hx(f)))
    L += ["step", "logdump"]
    return L


def begin_lines(c, label, pre=None):
    L = ["echo RUN %s" % label]
    if c.get("prefix_per_run") and pre:
        L.append("prefix %sP_%s" % (pre, label))     # output files of this run (analysis windows: runAve)
    L.append("fresh")
    if c.get("it0"):
        L.append("setstep %d" % c["it0"])
    L += ["logmark"]
    L += ["config EOF"] + list(c["config"]) + ["EOF"]
    return L


def split_blocks(lines):
    blocks, cur, depth = [], [], 0
    for l in lines:
        cur.append(l)
        depth += l.count("{") - l.count("}")
        if depth == 0:
            blocks.append(cur); cur = []
    if cur:
        blocks.append(cur)
    return blocks


def reordered_config(c):
    """the same configuration with its (named) biases defined in the opposite order"""
    blocks = split_blocks(list(c["config"]))
    cvs = [b for b in blocks if b[0].startswith("colvar ")]
    rest = [b for b in blocks if not b[0].startswith("colvar ")]
    if len(rest) < 2 or any(not any(l.strip().startswith("name ") for l in b) for b in rest):
        return list(c["config"])
    return [l for b in cvs + rest[::-1] for l in b]


REJECTED = ["config EOF", "harmonic {", "  name rejected", "  colvars no_such_variable", "  forceConstant 1.0", "  centers 0.0", "}", "EOF"]


def plan(c):
    return ([("U",)] + [("AB", K, fmt) for K in c["Ks"] for fmt in c["fmts"]] + [("Q", K) for K in c.get("auto_Ks", [])]
            + [("E", K) for K in c.get("reject_Ks", [])]
            + [("M", K, fmt) for K, fmt in c.get("buffer_Ks", [])] + [("C", K1, K2, fmt) for K1, K2, fmt in c.get("chain_Ks", [])]
            + [("R", K) for K in c.get("boundary_Ks", [])])


def auto_freq(c, K):
    """restart frequency that makes the module write its automatic restart file at step index K (and not later)"""
    n = c.get("it0", 0) + K
    if n < 2 ** 31:
        return n
    # the engine's restart frequency is an int: a small divisor of the step (the file of step K overwrites earlier ones)
    for f in (12, 7, 6, 5, 3, 2):
        if n % f == 0:
            return f
    return 1


def scenario(c, d, runs=None):
    """Scenario text of a case.  Runs:
       U        uninterrupted, never saves before the end;
       A_K_fmt  same, but writes the state after step K (file a) and goes on;
       B_K_fmt  fresh instance, same configuration, loads a, writes the state again at once (file b),
                executes step K again (as an engine restarted from step K does) and goes on.
       Every run ends by writing its final state as text.  Files go to directory d with prefix c<id>_."""
    T = len(c["pos"])
    pre = os.path.join(d, "c%s_" % c["id"])
    L = ["natoms %d" % c["natoms"]] + list(c.get("setup", [])) + ["show err 1"]
    if c.get("show_tf"):
        L.append("show tf 1")
    if c.get("needs_prefix"):
        # the module writes its own restart / output files (restartfreq): give them a place
        L.append("prefix %sout" % pre)
    if runs is None:
        # what the configuration alone gives: the state written before the first step
        # (by a job that starts after the last step of the history, so that step stamps count as run-time data too)
        cz = dict(c); cz["it0"] = c.get("it0", 0) + T + 1
        L += begin_lines(cz, "Z", pre) + ["save text %sZ.colvars.state" % pre]
    for run in (runs or plan(c)):
        if run[0] == "U":
            L += begin_lines(c, "U", pre)
            for t in range(T):
                L += step_lines(c, t)
            L += ["save text %sU.colvars.state" % pre]
        elif run[0] == "Q":
            # automatic restart file: the module writes <prefix>.colvars.state from within the computation of step K
            # (colvarsRestartFrequency); the job ends there; a fresh instance loads that file and goes on from step K
            K = run[1]
            L += ["restartfreq %d" % auto_freq(c, K), "prefix %sQ_%d" % (pre, K)]
            L += begin_lines(c, "Q_%d" % K, None)
            for t in range(K + 1):
                L += step_lines(c, t)
            L += ["restartfreq 0", "prefix"]
            L += begin_lines(c, "QB_%d" % K, None)
            L += ["load %sQ_%d.colvars.state" % (pre, K)]
            for t in range(K, T):
                L += step_lines(c, t)
            L += ["save text %sQB_%d.colvars.state" % (pre, K)]
        elif run[0] == "C":
            # three jobs: stop after K1, resume, stop after K2, resume, go on to the end
            _, K1, K2, fmt = run
            lab = "%d_%d_%s" % (K1, K2, fmt)
            f1, f2 = "%sc1_%s" % (pre, lab), "%sc2_%s" % (pre, lab)
            L += begin_lines(c, "C1_" + lab, pre)
            for t in range(K1 + 1):
                L += step_lines(c, t)
            L += ["save %s %s.colvars.state" % (fmt, f1)]
            L += begin_lines(c, "C2_" + lab, pre)
            L += ["load %s" % f1]
            for t in range(K1, K2 + 1):
                L += step_lines(c, t)
            L += ["save %s %s.colvars.state" % (fmt, f2)]
            L += begin_lines(c, "C3_" + lab, pre)
            L += ["load %s" % f2]
            for t in range(K2, T):
                L += step_lines(c, t)
            L += ["save text %sC3_%s.colvars.state" % (pre, lab)]
        elif run[0] == "E":
            # the resumed job defines its (named) biases in the opposite order and has a configuration rejected
            # (a bias on a variable that does not exist) before it loads the text state of the A run
            K = run[1]
            c2 = dict(c); c2["config"] = reordered_config(c)
            L += begin_lines(c2, "E_%d" % K, pre)
            L += REJECTED
            L += ["load %sa_%d_text" % (pre, K)]
            for t in range(K, T):
                L += step_lines(c, t)
            L += ["save text %sE_%d.colvars.state" % (pre, K)]
        elif run[0] == "M":
            # the state travels as a buffer in memory (checkpoint of the engine, `cv savetostring`), not as a file
            _, K, fmt = run
            L += begin_lines(c, "MA_%d_%s" % (K, fmt), pre)
            for t in range(K + 1):
                L += step_lines(c, t)
            L += ["bufsave %s" % fmt]
            L += begin_lines(c, "MB_%d_%s" % (K, fmt), pre)
            L += ["bufload %s" % fmt]
            for t in range(K, T):
                L += step_lines(c, t)
            L += ["save text %sMB_%d_%s.colvars.state" % (pre, K, fmt)]
        elif run[0] == "R":
            # run boundary without reloading: the engine ends a run after step K and starts the next one in the same
            # session, which computes step K again (simulation continuing) and goes on
            K = run[1]
            L += begin_lines(c, "R_%d" % K, pre)
            for t in range(T):
                L += step_lines(c, t)
                if t == K:
                    L += ["runboundary"] + step_lines(c, t)
            L += ["save text %sR_%d.colvars.state" % (pre, K)]
        else:
            _, K, fmt = run
            lab = "%d_%s" % (K, fmt)
            fa = "%sa_%s" % (pre, lab)
            fb = "%sb_%s" % (pre, lab)
            L += begin_lines(c, "A_" + lab, pre)
            for t in range(T):
                L += step_lines(c, t)
                if t == K:
                    L += ["save %s %s.colvars.state" % (fmt, fa)]
            L += ["save text %sA_%s.colvars.state" % (pre, lab)]
            L += begin_lines(c, "B_" + lab, pre)
            L += ["load %s" % fa, "save %s %s.colvars.state" % (fmt, fb)]
            for t in range(K, T):
                L += step_lines(c, t)
            L += ["save text %sB_%s.colvars.state" % (pre, lab)]
            if c.get("shuffle") and fmt == "text":
                # the same state with its blocks in another order and a foreign block: must load to the same objects
                fs = "%ss_%s" % (pre, lab)
                L += ["shufflestate %s.colvars.state %s.colvars.state %d" % (fa, fs, K + 1)]
                L += begin_lines(c, "S_" + lab, pre)
                L += ["load %s" % fs]
                for t in range(K, T):
                    L += step_lines(c, t)
                L += ["save text %sS_%s.colvars.state" % (pre, lab)]
    L.append("echo END")
    return L


# --------------------------------------------------------------------------------------------- output parsing
def parse_runs(lines):
    """-> {label: {"steps": [blocks], "events": [...]}}; a block is a dict per STEP"""
    runs = {}
    cur = None
    blk = None
    for l in lines:
        w = l.split()
        if not w:
            continue
        if w[0] == "echo":
            if w[1] == "RUN":
                cur = runs.setdefault(w[2], {"steps": [], "events": []})
                blk = None
            elif w[1] == "END":
                cur = None
            continue
        if cur is None:
            continue
        if w[0] == "STEP":
            blk = {"it": int(w[1]), "err": w[2] if len(w) > 2 else "", "cv": {}, "bias": {}, "atomf": {}, "energy": None,
                   "log": [], "tf": {}}
            cur["steps"].append(blk)
        elif w[0] == "ENERGY" and blk is not None:
            blk["energy"] = float.fromhex(w[1])
        elif w[0] == "CV" and blk is not None:
            blk["cv"][w[1]] = [float.fromhex(t) if t != "notset" else float("nan") for t in w[2:]]
        elif w[0] == "TF" and blk is not None:
            blk["tf"][w[1]] = [float.fromhex(t) if t != "notset" else float("nan") for t in w[2:]]
        elif w[0] == "BIAS" and blk is not None:
            blk["bias"][w[1]] = float.fromhex(w[2])
        elif w[0] == "ATOMF" and blk is not None:
            blk["atomf"][w[1]] = [float.fromhex(t) for t in w[2:]]
        elif w[0] == "LOG" and blk is not None:
            m = re.search(r"Lambda=\s*(\S+)\s+dA/dLambda=\s*(\S+)", l)
            if m:
                blk["log"].append((float(m.group(1)), float(m.group(2))))
        elif w[0] in ("CONFIG", "LOAD", "SAVE"):
            cur["events"].append(l)
    return runs


NUM = re.compile(r"^[-+]?(\d+\.?\d*([eE][-+]?\d+)?|\.\d+([eE][-+]?\d+)?|nan|inf)$")


def state_tokens(path):
    """text state -> list of (context keyword, token); numbers are floats"""
    try:
        txt = open(path, errors="replace").read()
    except OSError:
        return None
    out = []
    ctx = ""
    for line in txt.split("\n"):
        w = line.split()
        if not w:
            continue
        start = 0
        if not NUM.match(w[0]) and w[0] not in "{}":
            ctx = w[0]
            start = 1
            if ctx in ("dt", "version"):      # not part of the data
                continue
        for t in w[start:]:
            out.append((ctx, t))
    return out


def state_fields(path):
    """text state -> {context keyword: tuple of its tokens, in order of appearance}"""
    toks = state_tokens(path)
    if toks is None:
        return None
    d = {}
    for k, t in toks:
        d.setdefault(k, []).append(t)
    return {k: tuple(v) for k, v in d.items()}


def diff_states(pa, pb, tol=TOL):
    """first difference between two text state files, or None"""
    a, b = state_tokens(pa), state_tokens(pb)
    if a is None or b is None:
        return ("file", "missing state file", "")
    if len(a) != len(b):
        # find first keyword where they diverge
        for (ka, ta), (kb, tb) in zip(a, b):
            if ka != kb:
                return (ka + "|" + kb, "structure differs", "")
        return ("length", "%d vs %d tokens" % (len(a), len(b)), "")
    for (ka, ta), (kb, tb) in zip(a, b):
        if ta == tb:
            continue
        if NUM.match(ta) and NUM.match(tb):
            if close(float(ta), float(tb), tol):
                continue
        return (ka, ta, tb)
    return None


def diff_blocks(a, b, tol=TOL, skip_tf=True):
    """first differing observable between two STEP blocks, or None"""
    if a["it"] != b["it"]:
        return ("it", a["it"], b["it"])
    if a["err"] != b["err"]:
        return ("err", a["err"], b["err"])
    if (a["energy"] is None) != (b["energy"] is None) or (a["energy"] is not None and not close(a["energy"], b["energy"], tol)):
        return ("energy", a["energy"], b["energy"])
    for key in ("cv", "bias", "atomf", "tf"):
        if key == "tf" and ("tf" not in a or "tf" not in b):
            continue
        if set(a[key]) != set(b[key]):
            return (key + ":names", sorted(a[key]), sorted(b[key]))
        for n in sorted(a[key]):
            va, vb = a[key][n], b[key][n]
            if isinstance(va, float):
                va, vb = [va], [vb]
            if len(va) != len(vb) or not all(close(x, y, tol) for x, y in zip(va, vb)):
                return (key + ":" + n, va, vb)
    la, lb = a.get("log", []), b.get("log", [])
    if len(la) != len(lb) or not all(close(x[0], y[0], 1e-5) and close(x[1], y[1], 2e-5) for x, y in zip(la, lb)):
        return ("log:dA/dLambda", la, lb)
    return None


def files_equal(pa, pb):
    try:
        return open(pa, "rb").read() == open(pb, "rb").read()
    except OSError:
        return False


def runave_lines(path):
    """lines of a running-average file: {step: (average, stddev)}"""
    out = {}
    try:
        for l in open(path, errors="replace"):
            w = l.split()
            if len(w) >= 3 and not w[0].startswith("#"):
                try:
                    out[int(w[0])] = (float(w[1]), float(w[2]))
                except ValueError:
                    pass
    except OSError:
        return None
    return out
