// C09 unit driver: calls the real colvarparse functions on the same case lines as the model driver
// (strings hex encoded), and, in scenario mode (`c09unit scn <file>`), runs engine-simulator scenarios with the
// extra command `confighex <hex>` (a configuration given as arbitrary bytes).
#include <cstdio>
#include <cstdlib>
#include <cstring>
#include <cmath>
#include <iostream>
#include <fstream>
#include <sstream>
#include <string>
#include <vector>
#include <list>
#include <map>
#include <set>
#include <algorithm>
#include <functional>
#include <thread>
#include <mutex>
#include <memory>
#include <limits>
#include <cstdint>
#include <unordered_map>
#include <unordered_set>
#include <array>
#include <omp.h>
// the registry of looked-up keywords (allowed_keywords) of the real objects is read after their init():
// private/protected members are made accessible for this file only (no change to /repo)
#define private public
#define protected public
#include "vsim.h"
#include "colvarparse.h"
#include "colvarcomp.h"
#include "colvaratoms.h"
#include "colvarbias_restraint.h"
#include "colvarbias_histogram.h"
#include "colvarbias_meta.h"
#include "colvarbias_abf.h"
#undef private
#undef protected

struct P : public colvarparse {
  using colvarparse::data_begin_pos;
  using colvarparse::data_end_pos;
  using colvarparse::strip_values;
  using colvarparse::allowed_keywords;
  using colvarparse::get_key_string_multi_value;
};

static std::string unhex(std::string const &s)
{
  if (s == "-") return std::string();
  std::string r;
  for (size_t i = 0; i + 1 < s.size(); i += 2) r.push_back((char) strtol(s.substr(i, 2).c_str(), NULL, 16));
  return r;
}

static std::string hex(std::string const &s)
{
  if (s.empty()) return "-";
  static const char *d = "0123456789abcdef";
  std::string r;
  for (unsigned char c : s) { r.push_back(d[c >> 4]); r.push_back(d[c & 15]); }
  return r;
}

static std::string read_config_lines(P &p, std::string const &raw)
{
  // the loop of colvarmodule::read_config_string, around the real read_config_line
  std::istringstream is(raw);
  std::string conf, line;
  while (p.read_config_line(is, line)) {
    if (line.find_first_not_of(colvarparse::white_space) != std::string::npos) conf.append(line + "\n");
  }
  return conf;
}

static std::string parse_flat(std::string const &schema, std::string const &conf)
{
  P p;
  cvm::clear_error();
  std::vector<std::string> vals;
  std::istringstream ss(schema == "-" ? std::string() : schema);
  std::string item;
  while (std::getline(ss, item, ',')) {
    size_t c = item.find(':');
    std::string kind = item.substr(0, c), key = unhex(item.substr(c + 1));
    std::string out = "-";
    colvarparse::Parse_Mode m = colvarparse::parse_silent;
    if (kind[kind.size() - 1] == '!') { m = colvarparse::parse_required; kind.erase(kind.size() - 1); }
    if (kind == "R") {
      double v = 0.0;
      if (p.get_keyval(conf, key.c_str(), v, 0.0, m)) out = vs_hex(v);
    } else if (kind == "I") {
      int v = 0;
      if (p.get_keyval(conf, key.c_str(), v, 0, m)) out = cvm::to_str(v);
    } else if (kind == "U") {
      size_t v = 0;
      if (p.get_keyval(conf, key.c_str(), v, (size_t) 0, m)) out = cvm::to_str(v);
    } else if (kind == "L") {
      long v = 0;
      if (p.get_keyval(conf, key.c_str(), v, 0L, m)) out = cvm::to_str(v);
    } else if (kind == "J") {
      std::vector<int> v;
      if (p.get_keyval(conf, key.c_str(), v, std::vector<int>(), m)) {
        out = "[";
        for (size_t i = 0; i < v.size(); i++) out += (i ? ";" : "") + cvm::to_str(v[i]);
        out += "]";
      }
    } else if (kind == "W") {
      std::vector<std::string> v;
      if (p.get_keyval(conf, key.c_str(), v, std::vector<std::string>(), m)) {
        out = "[";
        for (size_t i = 0; i < v.size(); i++) out += (i ? ";" : "") + hex(v[i]);
        out += "]";
      }
    } else if (kind == "B") {
      bool v = false;
      if (p.get_keyval(conf, key.c_str(), v, false, m)) out = v ? "1" : "0";
    } else if (kind == "S") {
      std::string v;
      if (p.get_keyval(conf, key.c_str(), v, std::string(""), m)) out = "s" + hex(v);
    } else if (kind == "V" || kind[0] == 'N') {
      size_t n = (kind[0] == 'N') ? atoi(kind.c_str() + 1) : 0;
      std::vector<double> v(n, 0.0), def(n, 0.0);
      if (p.get_keyval(conf, key.c_str(), v, def, m)) {
        out = "[";
        for (size_t i = 0; i < v.size(); i++) out += (i ? ";" : "") + vs_hex(v[i]);
        out += "]";
      }
    } else if (kind[0] == 'Y') {
      size_t n = atoi(kind.c_str() + 1);
      std::string o = "[";
      bool found = false;
      if (n == 3) {
        std::vector<cvm::rvector> v;
        found = p.get_keyval(conf, key.c_str(), v, std::vector<cvm::rvector>(), m);
        for (size_t i = 0; i < v.size(); i++) o += (i ? "|" : "") + vs_hex(v[i].x) + ";" + vs_hex(v[i].y) + ";" + vs_hex(v[i].z);
      } else {
        std::vector<cvm::quaternion> v;
        found = p.get_keyval(conf, key.c_str(), v, std::vector<cvm::quaternion>(), m);
        for (size_t i = 0; i < v.size(); i++) o += (i ? "|" : "") + vs_hex(v[i].q0) + ";" + vs_hex(v[i].q1) + ";" + vs_hex(v[i].q2) + ";" + vs_hex(v[i].q3);
      }
      if (found) out = o + "]";
    } else if (kind[0] == 'T') {
      size_t n = atoi(kind.c_str() + 1);
      std::vector<double> comp;
      bool found = false;
      if (n == 3) {
        cvm::rvector v(0.0, 0.0, 0.0);
        found = p.get_keyval(conf, key.c_str(), v, cvm::rvector(0.0, 0.0, 0.0), m);
        comp = {v.x, v.y, v.z};
      } else if (n == 4) {
        cvm::quaternion q(1.0, 0.0, 0.0, 0.0);
        found = p.get_keyval(conf, key.c_str(), q, cvm::quaternion(1.0, 0.0, 0.0, 0.0), m);
        comp = {q.q0, q.q1, q.q2, q.q3};
      } else {
        colvarvalue v(colvarvalue::type_vector);
        v.vector1d_value.resize(n);
        colvarvalue def(v);
        found = p.get_keyval(conf, key.c_str(), v, def, m);
        for (size_t i = 0; i < v.vector1d_value.size(); i++) comp.push_back(v.vector1d_value[i]);
      }
      if (found) {
        out = "(";
        for (size_t i = 0; i < comp.size(); i++) out += (i ? ";" : "") + vs_hex(comp[i]);
        out += ")";
      }
    } else if (kind == "K") {
      // as colvarmodule::parse_colvars / parse_biases_type do
      std::string data; size_t pos = 0; bool any = false;
      std::string o = "{";
      while (p.key_lookup(conf, key.c_str(), &data, &pos)) {
        if (!data.size()) cvm::error("Error: keyword found without configuration.\n", COLVARS_INPUT_ERROR);
        o += (any ? "|" : "") + hex(data);
        any = true;
        data.clear();
      }
      if (any) out = o + "}";
    }
    vals.push_back(out);
  }
  std::string c2(conf);
  int ck = p.check_keywords(c2, "unit");
  if (cvm::get_error() != COLVARS_OK || ck != COLVARS_OK) { cvm::clear_error(); return "reject"; }
  std::string r = "accept";
  for (auto &v : vals) r += " " + v;
  if (vals.empty()) r += " ";
  return r;
}

// nested client: items separated by ';', a block is G:<keyhex>[<items>]; every level is a parser object of its own
struct NItem { std::string kind, key; std::vector<NItem> sub; };

static std::vector<NItem> parse_nested_schema(std::string const &s, size_t &pos)
{
  std::vector<NItem> items;
  while (pos < s.size() && s[pos] != ']') {
    NItem it;
    size_t c = s.find(':', pos);
    it.kind = s.substr(pos, c - pos);
    pos = c + 1;
    size_t e = s.find_first_of(";[]", pos);
    if (e == std::string::npos) e = s.size();
    it.key = unhex(s.substr(pos, e - pos));
    pos = e;
    if (it.kind == "G") {
      pos++;  // '['
      it.sub = parse_nested_schema(s, pos);
      pos++;  // ']'
    }
    items.push_back(it);
    if (pos < s.size() && s[pos] == ';') pos++; else break;
  }
  return items;
}

// true = accepted
static bool nested_level(std::vector<NItem> const &items, std::string const &conf);

// the lookups of one level with the parser object p (its registry grows); true = no error so far
static bool nested_lookups(P &p, std::vector<NItem> const &items, std::string const &conf)
{
  colvarparse::Parse_Mode const m = colvarparse::parse_silent;
  bool ok = true;
  for (NItem const &it : items) {
    if (it.kind == "G") {
      std::string data; size_t pos = 0;
      std::vector<std::string> blocks;
      while (p.key_lookup(conf, it.key.c_str(), &data, &pos)) { blocks.push_back(data); data.clear(); }
      for (std::string const &b : blocks) {
        if (!b.size()) { ok = false; continue; }
        if (!nested_level(it.sub, b)) ok = false;
      }
    } else if (it.kind == "R") { double v = 0.0; p.get_keyval(conf, it.key.c_str(), v, 0.0, m); }
    else if (it.kind == "I") { int v = 0; p.get_keyval(conf, it.key.c_str(), v, 0, m); }
    else if (it.kind == "B") { bool v = false; p.get_keyval(conf, it.key.c_str(), v, false, m); }
    else if (it.kind == "S") { std::string v; p.get_keyval(conf, it.key.c_str(), v, std::string(""), m); }
    else if (it.kind == "V" || it.kind[0] == 'N') {
      size_t n = (it.kind[0] == 'N') ? atoi(it.kind.c_str() + 1) : 0;
      std::vector<double> v(n, 0.0), def(n, 0.0);
      p.get_keyval(conf, it.key.c_str(), v, def, m);
    }
  }
  if (cvm::get_error() != COLVARS_OK) ok = false;
  return ok;
}

// true = accepted
static bool nested_level(std::vector<NItem> const &items, std::string const &conf)
{
  P p;
  bool ok = nested_lookups(p, items, conf);
  std::string c2(conf);
  if (p.check_keywords(c2, "nested") != COLVARS_OK) ok = false;
  return ok;
}

// Run init() of a real object of the given kind on a configuration text and return the keywords it looked up
// (its allowed_keywords BEFORE check_keywords clears them); then, optionally, the verdict of its real
// check_keywords on the same text with one more line.  prelude: configuration read by the module first (variables
// that a bias refers to).  Returns false if the kind is unknown.
static bool record_block(std::string const &kind, std::string const &prelude, std::string const &conf,
                         std::string const *extra_line, std::vector<std::string> &keys, std::string &verdict)
{
  colvarmodule *cv = cvm::main();
  cvm::clear_error();
  if (prelude.size()) cv->read_config_string(prelude);
  cvm::clear_error();
  colvarparse *obj = NULL;
  colvar *var = NULL; colvar::cvc *comp = NULL; cvm::atom_group *grp = NULL; colvarbias *bias = NULL;
  if (kind == "global") {
    cv->parse->clear();
    cv->parse_global_params(conf);
    obj = cv->parse;
  } else if (kind == "colvar") {
    var = new colvar(); cv->colvars.push_back(var); var->init(conf); obj = var;
  } else if (kind == "cvc:distance") { comp = new colvar::distance(); comp->init(conf); obj = comp; }
  else if (kind == "cvc:distancez") { comp = new colvar::distance_z(); comp->init(conf); obj = comp; }
  else if (kind == "cvc:distancevec") { comp = new colvar::distance_vec(); comp->init(conf); obj = comp; }
  else if (kind == "group") { grp = new cvm::atom_group("main"); grp->parse(conf); obj = grp; }
  else {
    if (kind == "bias:harmonic") bias = new colvarbias_restraint_harmonic("harmonic");
    else if (kind == "bias:harmonicwalls") bias = new colvarbias_restraint_harmonic_walls("harmonicwalls");
    else if (kind == "bias:linear") bias = new colvarbias_restraint_linear("linear");
    else if (kind == "bias:histogram") bias = new colvarbias_histogram("histogram");
    else if (kind == "bias:metadynamics") bias = new colvarbias_meta("metadynamics");
    else if (kind == "bias:abf") bias = new colvarbias_abf("abf");
    else return false;
    cv->biases.push_back(bias); bias->rank = 1; bias->init(conf); obj = bias;
  }
  verdict = (cvm::get_error() == COLVARS_OK) ? "init-ok" : "init-error";
  for (std::list<std::string>::iterator ki = obj->allowed_keywords.begin(); ki != obj->allowed_keywords.end(); ki++) keys.push_back(*ki);
  if (extra_line) {
    cvm::clear_error();
    std::string c2 = conf + (conf.size() && conf[conf.size() - 1] != '\n' ? "\n" : "") + *extra_line + "\n";
    verdict = (obj->check_keywords(c2, "recorded") == COLVARS_OK) ? "accept" : "reject";
  }
  cvm::clear_error();
  if (kind == "global") cv->parse->clear();
  if (var) delete var;
  if (comp) delete comp;
  if (grp) delete grp;
  if (bias) delete bias;
  return true;
}

static void unit_loop()
{
  vsim_engine eng; eng.resize(8);
  vsim_proxy *proxy = new vsim_proxy(&eng, true);
  std::string line;
  while (std::getline(std::cin, line)) {
    std::istringstream is(line);
    std::string cmd; if (!(is >> cmd)) continue;
    std::vector<std::string> a; std::string w; while (is >> w) a.push_back(w);
    std::string out;
    try {
      cvm::clear_error();
      if (cmd == "CB") {
        out = (colvarparse::check_braces(unhex(a[0]), (size_t) atol(a[1].c_str())) == COLVARS_OK) ? "ok" : "bad";
      } else if (cmd == "SC") {
        P p;
        out = hex(read_config_lines(p, unhex(a[0])));
      } else if (cmd == "KL") {
        P p;
        std::string conf = unhex(a[0]), key = unhex(a[1]), data;
        size_t sp = (size_t) atol(a[2].c_str());
        bool f = p.key_lookup(conf, key.c_str(), &data, &sp);
        if (f) {
          std::string reg = "none";
          if (p.data_begin_pos.size()) {
            if (p.data_begin_pos.back() == std::string::npos) reg = "anomaly";
            else reg = cvm::to_str(p.data_begin_pos.back()) + ":" + cvm::to_str(p.data_end_pos.back());
          }
          out = "found " + hex(data) + " " + cvm::to_str(sp) + " " + reg;
        } else if (cvm::get_error() != COLVARS_OK) {
          out = "error " + cvm::to_str(sp);
        } else {
          out = "notfound";
        }
      } else if (cmd == "PF") {
        out = parse_flat(a[1], unhex(a[2]));
      } else if (cmd == "PC") {
        P p;
        std::string conf = read_config_lines(p, unhex(a[2]));
        if (colvarparse::check_braces(conf, 0) != COLVARS_OK) out = "reject";
        else out = parse_flat(a[1], conf);
      } else if (cmd == "NP") {
        P p;
        std::string conf = read_config_lines(p, unhex(a[2]));
        size_t pos = 0;
        std::vector<NItem> items = (a[1] == "-") ? std::vector<NItem>() : parse_nested_schema(a[1], pos);
        if (colvarparse::check_braces(conf, 0) != COLVARS_OK) out = "reject";
        else out = nested_level(items, conf) ? "accept" : "reject";
      } else if (cmd == "HK" || cmd == "HC") {
        // HK kind prelude conf        -> keywords that init() of the real object looks up (sorted)
        // HC kind prelude conf word   -> verdict of the object's real check_keywords on conf + a line holding word
        delete proxy; proxy = new vsim_proxy(&eng, true);      // a fresh module for every recording
        std::vector<std::string> keys; std::string verdict;
        std::string extra = (cmd == "HC") ? unhex(a[3]) : std::string();
        std::ostringstream lg;
        if (cmd == "HK") {
          // the prelude is read quietly; the log of init() itself is kept: the keywords it ECHOES ("# keyword = value")
          cvm::clear_error();
          if (a[1] != "-") cvm::main()->read_config_string(unhex(a[1]));
          proxy->logos = &lg;
        }
        if (!record_block(a[0], (cmd == "HK") ? std::string() : unhex(a[1]), unhex(a[2]), (cmd == "HC") ? &extra : NULL, keys, verdict)) out = "unknown-kind";
        else if (cmd == "HC") out = verdict;
        else {
          std::sort(keys.begin(), keys.end());
          out = verdict;
          for (auto &k : keys) out += " " + hex(k);
          // echoed keywords of the object itself = the "#" lines with the smallest indentation
          std::istringstream ls(lg.str());
          std::string l; size_t best = std::string::npos; std::vector<std::pair<size_t, std::string> > ech;
          while (std::getline(ls, l)) {
            size_t i = l.find_first_not_of(' ');
            if (i == std::string::npos || l[i] != '#' || i + 2 >= l.size()) continue;
            size_t e = l.find(" = ", i);
            if (e == std::string::npos) continue;
            ech.push_back(std::make_pair(i, l.substr(i + 2, e - i - 2)));
            if (i < best) best = i;
          }
          out += " |";
          for (auto &pr : ech) if (pr.first == best) out += " " + hex(pr.second);
        }
        proxy->logos = NULL;
      } else if (cmd == "IX") {
        // colvarmodule::read_index_file on a file with the given bytes
        static int ixn = 0;
        std::string fname = "c09_index_" + cvm::to_str(++ixn) + ".ndx";
        { std::ofstream f(fname.c_str(), std::ios::binary); f << unhex(a[0]); }
        colvarmodule *cv = cvm::main();
        cv->reset_index_groups();
        int rc = cv->read_index_file(fname.c_str());
        if (rc != COLVARS_OK || cvm::get_error() != COLVARS_OK) out = "error";
        else {
          out = "ok ";
          for (size_t i = 0; i < cv->index_group_names.size(); i++) {
            out += (i ? ";" : "") + hex(cv->index_group_names[i]) + "=";
            for (size_t j = 0; j < cv->index_groups[i]->size(); j++) out += (j ? "," : "") + cvm::to_str((*cv->index_groups[i])[j]);
          }
        }
        proxy->close_input_stream(fname);
        cv->reset_index_groups();
        std::remove(fname.c_str());
      } else if (cmd == "TL") {
        out = hex(colvarparse::to_lower_cppstr(unhex(a[0])));
      } else if (cmd == "CA") {
        out = (colvarparse::check_ascii(unhex(a[0])) == COLVARS_OK) ? "ok" : "error";
      } else if (cmd == "KM") {
        P p;
        std::vector<std::string> data;
        bool f = p.get_key_string_multi_value(unhex(a[0]), unhex(a[1]).c_str(), data);
        out = (cvm::get_error() != COLVARS_OK) ? "error " : (f ? "found " : "notfound ");
        for (size_t i = 0; i < data.size(); i++) out += (i ? "|" : "") + hex(data[i]);
      } else if (cmd == "KV") {
        // get_keyval<double> for the same keyword on ONE parser object: several texts and parse modes
        P p;
        std::string key = unhex(a[0]);
        double v = 111.0;
        std::istringstream cs(a[1]);
        std::string one;
        while (std::getline(cs, one, '|')) {
          char mc = one[0];
          std::string conf = unhex(one.substr(2));
          colvarparse::Parse_Mode m = colvarparse::parse_silent;
          if (mc == 'r') m = colvarparse::parse_required;
          if (mc == 'q') m = colvarparse::parse_required | colvarparse::parse_restart;
          if (mc == 'o') m = colvarparse::parse_override;
          if (mc == 'n') m = colvarparse::parse_normal;
          if (mc == 'd') m = colvarparse::parse_deprecated;
          cvm::clear_error();
          bool f = p.get_keyval(conf, key.c_str(), v, 222.0, m);
          out += (out.size() ? ";" : "") + std::string(f ? "1" : "0") + "/" + (cvm::get_error() != COLVARS_OK ? "1" : "0") + "/" + vs_hex(v);
        }
      } else if (cmd == "KS") {
        // successive key_lookup calls on ONE parser object, through ONE std::string object (same address every time)
        P p;
        std::istringstream cs(a[0]);
        std::string one, conf;
        while (std::getline(cs, one, '|')) {
          size_t c1 = one.find(':'), c2 = one.find(':', c1 + 1);
          conf = unhex(one.substr(0, c1));
          std::string key = unhex(one.substr(c1 + 1, c2 - c1 - 1)), data;
          size_t sp = (size_t) atol(one.substr(c2 + 1).c_str());
          size_t const nreg = p.data_begin_pos.size();
          cvm::clear_error();
          bool f = p.key_lookup(conf, key.c_str(), &data, &sp);
          std::string r;
          if (f) {
            std::string reg = "none";
            if (p.data_begin_pos.size() > nreg) reg = cvm::to_str(p.data_begin_pos.back()) + ":" + cvm::to_str(p.data_end_pos.back());
            r = "found " + hex(data) + " " + cvm::to_str(sp) + " " + reg;
          } else if (cvm::get_error() != COLVARS_OK) r = "error " + cvm::to_str(sp);
          else r = "notfound";
          out += (out.size() ? ";" : "") + r;
        }
      } else if (cmd == "PS" || cmd == "MS") {
        // one parser object over a sequence of texts.  PS: nobody clears it; MS: as colvarmodule::parse_config does
        // (error while parsing -> clear(); check_keywords clears the registry itself on success; failure -> clear())
        P p;
        size_t pos = 0;
        std::vector<NItem> items = (a[1] == "-") ? std::vector<NItem>() : parse_nested_schema(a[1], pos);
        std::istringstream cs(a[2]);
        std::string one;
        std::string conf;   // ONE string object for the whole sequence, as the module's local variable at a fixed address
        while (std::getline(cs, one, '|')) {
          cvm::clear_error();
          bool ok;
          if (cmd == "PS") {
            conf = unhex(one);
            ok = nested_lookups(p, items, conf);
            std::string c2(conf);
            if (p.check_keywords(c2, "seq") != COLVARS_OK) ok = false;
          } else {
            conf = read_config_lines(p, unhex(one));
            if (colvarparse::check_braces(conf, 0) != COLVARS_OK) ok = false;
            else {
              ok = nested_lookups(p, items, conf);
              if (!ok) p.clear();
              else {
                std::string c2(conf);
                if (p.check_keywords(c2, "seq") != COLVARS_OK) { ok = false; p.clear(); }
              }
            }
          }
          out += (out.size() ? " " : "") + std::string(ok ? "accept" : "reject");
        }
        if (cmd == "MS") out += (p.data_begin_pos.empty() && p.allowed_keywords.empty()) ? " empty" : " dirty";
      } else if (cmd == "SS") {
        std::vector<std::string> dest;
        colvarparse::split_string(unhex(a[0]), unhex(a[1]), dest);
        out = "[";
        for (size_t i = 0; i < dest.size(); i++) out += (i ? "," : "") + hex(dest[i]);
        out += "]";
      } else {
        out = "?";
      }
    } catch (std::exception const &e) {
      out = "anomaly";
    }
    cvm::clear_error();
    while (out.size() && out[out.size() - 1] == ' ') out.erase(out.size() - 1);
    std::cout << out << "\n";
  }
}

struct c09_session : public vsim_session {
  c09_session(std::ostream *o) : vsim_session(o) {}
  bool exec_extra(std::string const &cmd, std::vector<std::string> const &a, std::istream &) override
  {
    if (cmd == "confighex") {
      cvm::clear_error();
      int err;
      try {
        err = proxy->colvars->read_config_string(unhex(a.size() ? a[0] : std::string("-")));
        (*out) << "CONFIG err=" << vs_errclass(err | cvm::get_error()) << " ncv=" << proxy->colvars->variables()->size()
               << " nbias=" << proxy->colvars->biases.size() << "\n";
      } catch (std::exception const &e) {
        (*out) << "CONFIG err=exception " << e.what() << "\n";
      }
      cvm::clear_error();
      return true;
    }
    return false;
  }
};

int main(int argc, char **argv)
{
  if (argc > 2 && std::string(argv[1]) == "scn") {
    std::cout << std::unitbuf;   // what was printed before a crash must not be lost
    c09_session s(&std::cout);
    std::ifstream f(argv[2]);
    s.run(f);
    return 0;
  }
  unit_loop();
  return 0;
}
