(* C09 model driver: evaluates the extracted ParseModel on case lines from stdin (strings are hex encoded).
   One answer line per case, in the same format as props/C09/unit.cpp. *)
open Model

let rec pos_of_int (n : int) : positive =
  if n <= 1 then XH else if n land 1 = 0 then XO (pos_of_int (n lsr 1)) else XI (pos_of_int (n lsr 1))
let z_of_int (n : int) : z =
  if n = 0 then Z0 else if n > 0 then Zpos (pos_of_int n) else Zneg (pos_of_int (- n))
let rec int_of_pos (p : positive) : int =
  match p with XH -> 1 | XO q -> 2 * int_of_pos q | XI q -> 2 * int_of_pos q + 1
let int_of_z (x : z) : int =
  match x with Z0 -> 0 | Zpos p -> int_of_pos p | Zneg p -> - (int_of_pos p)
let rec int64_of_pos (p : positive) : int64 =
  match p with XH -> 1L | XO q -> Int64.mul 2L (int64_of_pos q) | XI q -> Int64.add (Int64.mul 2L (int64_of_pos q)) 1L
let z_str (x : z) : string =
  match x with Z0 -> "0" | Zpos p -> Printf.sprintf "%Lu" (int64_of_pos p) | Zneg p -> "-" ^ Printf.sprintf "%Lu" (int64_of_pos p)
let nat_of_int n = let rec go n acc = if n <= 0 then acc else go (n - 1) (S acc) in go n O
let int_of_nat n = let rec go n acc = match n with O -> acc | S m -> go m (acc + 1) in go n 0

(* a table of the 256 byte values so that conversion does not allocate per character *)
let ztab = Array.init 256 z_of_int
let unhex (s : string) : z list =
  if s = "-" then [] else
  let n = String.length s / 2 in
  List.init n (fun i -> ztab.(int_of_string ("0x" ^ String.sub s (2 * i) 2)))
let hex (l : z list) : string =
  if l = [] then "-" else String.concat "" (List.map (fun c -> Printf.sprintf "%02x" (int_of_z c land 255)) l)

let words (s : string) : string list = List.filter (fun w -> w <> "") (String.split_on_char ' ' (String.trim s))

let str_of_bytes (l : z list) : string = String.concat "" (List.map (fun c -> String.make 1 (Char.chr (int_of_z c land 255))) l)

let float_of_dec (d : dec) : float =
  let ds = str_of_bytes d.d_digits in
  let e = int_of_z d.d_exp in
  float_of_string (Printf.sprintf "%s%se%d" (if d.d_neg then "-" else "") ds e)

let reg_str = function RegNone -> "none" | Reg (b, e) -> Printf.sprintf "%d:%d" (int_of_nat b) (int_of_nat e)

let rec kind_of (s : string) : kind =
  if s.[String.length s - 1] = '!' then KReq (kind_of (String.sub s 0 (String.length s - 1))) else
  match s.[0] with
  | 'T' -> KTuple (nat_of_int (int_of_string (String.sub s 1 (String.length s - 1))))
  | 'R' -> KReal | 'I' -> KInt | 'B' -> KBool | 'S' -> KString | 'V' -> KRealVec | 'K' -> KBlock
  | 'U' -> KSize | 'L' -> KLong | 'J' -> KIntVec | 'W' -> KWordVec
  | 'Y' -> KTupleVec (nat_of_int (int_of_string (String.sub s 1 (String.length s - 1))))
  | 'N' -> KRealVecN (nat_of_int (int_of_string (String.sub s 1 (String.length s - 1))))
  | _ -> failwith "kind"

let schema_of (s : string) : (z list * kind) list =
  if s = "-" then [] else
  List.map (fun it -> match String.split_on_char ':' it with
      | [k; key] -> (unhex key, kind_of k) | _ -> failwith "schema") (String.split_on_char ',' s)

(* nested schema: items separated by ';', a block is G:<keyhex>[<items>] *)
let parse_nested (s : string) : nitem list =
  let n = String.length s in
  let pos = ref 0 in
  let rec items () : nitem list =
    if !pos >= n || s.[!pos] = ']' then [] else begin
      let it = item () in
      if !pos < n && s.[!pos] = ';' then (Stdlib.incr pos; it :: items ()) else [it]
    end
  and item () : nitem =
    let st = !pos in
    while !pos < n && s.[!pos] <> ':' do Stdlib.incr pos done;
    let k = String.sub s st (!pos - st) in
    Stdlib.incr pos;
    let st2 = !pos in
    while !pos < n && s.[!pos] <> ';' && s.[!pos] <> '[' && s.[!pos] <> ']' do Stdlib.incr pos done;
    let key = unhex (String.sub s st2 (!pos - st2)) in
    if k = "G" then begin
      Stdlib.incr pos;               (* '[' *)
      let sub = items () in
      Stdlib.incr pos;               (* ']' *)
      NBlock (key, sub)
    end else NLeaf (key, kind_of k)
  in
  if s = "-" then [] else items ()

let value_str = function
  | VNotGiven -> "-"
  | VReal d -> Printf.sprintf "%h" (float_of_dec d)
  | VInt z -> z_str z
  | VInts l -> "[" ^ String.concat ";" (List.map z_str l) ^ "]"
  | VWords l -> "[" ^ String.concat ";" (List.map hex l) ^ "]"
  | VTuples l -> "[" ^ String.concat "|" (List.map (fun t -> String.concat ";" (List.map (fun d -> Printf.sprintf "%h" (float_of_dec d)) t)) l) ^ "]"
  | VBool b -> if b then "1" else "0"
  | VString s -> "s" ^ hex s
  | VReals l -> "[" ^ String.concat ";" (List.map (fun d -> Printf.sprintf "%h" (float_of_dec d)) l) ^ "]"
  | VBlocks l -> "{" ^ String.concat "|" (List.map hex l) ^ "}"
  | VTuple l -> "(" ^ String.concat ";" (List.map (fun d -> Printf.sprintf "%h" (float_of_dec d)) l) ^ ")"
  | VBad -> "bad"

let presult_str = function
  | PAccept vs -> "accept " ^ String.concat " " (List.map value_str vs)
  | PReject -> "reject"
  | POutOfFuel -> "outoffuel"

let () =
  try
    while true do
      let line = input_line stdin in
      match words line with
      | [] -> ()
      | "CB" :: c :: st :: _ ->
        print_endline (if check_braces (unhex c) (nat_of_int (int_of_string st)) then "ok" else "bad")
      | "SC" :: c :: _ -> print_endline (hex (strip_comments (unhex c)))
      | "KL" :: c :: k :: sp :: _ ->
        let conf = unhex c in
        (match key_lookup (fuel_of conf) conf (unhex k) (nat_of_int (int_of_string sp)) with
         | KL_notfound -> print_endline "notfound"
         | KL_error sp -> Printf.printf "error %d\n" (int_of_nat sp)
         | KL_found (pos, data, sp, reg) ->
           ignore pos; Printf.printf "found %s %d %s\n" (hex data) (int_of_nat sp) (reg_str reg)
         | KL_outoffuel -> print_endline "outoffuel")
      | "PF" :: strict :: sch :: c :: _ ->
        print_endline (presult_str (parse_flat (strict = "1") (schema_of sch) (unhex c)))
      | "PC" :: strict :: sch :: c :: _ ->
        print_endline (presult_str (parse_config (strict = "1") (schema_of sch) (unhex c)))
      | "NP" :: strict :: sch :: c :: _ ->
        print_endline (if nparse_config (strict = "1") (parse_nested sch) (unhex c) then "accept" else "reject")
      | "IX" :: t :: _ ->
        (match parse_index true (unhex t) with
         | IndexError -> print_endline "error"
         | IndexOutOfFuel -> print_endline "outoffuel"
         | IndexOk gs -> print_endline ("ok " ^ String.concat ";" (List.map (fun (n, v) -> hex n ^ "=" ^ String.concat "," (List.map z_str v)) gs)))
      | "TL" :: t :: _ -> print_endline (hex (to_lower (unhex t)))
      | "CA" :: _ :: _ -> print_endline "ok"
      | "KM" :: c :: k :: _ ->
        let r = key_string_values (unhex c) (unhex k) in
        print_endline (String.trim ((if r.ksv_err then "error " else if r.ksv_found then "found " else "notfound ") ^ String.concat "|" (List.map hex r.ksv_all)))
      | "KV" :: k :: calls :: _ ->
        (* get_keyval<double> for the same keyword, several texts and parse modes, one parser object *)
        let cl = List.map (fun c -> match String.split_on_char ':' c with
            | [m; cf] -> let (rq, ov) = (match m with "r" | "q" -> (true, false) | "o" | "n" | "d" -> (false, true) | _ -> (false, false)) in
              ((rq, ov), unhex cf) | _ -> failwith "KV") (String.split_on_char '|' calls) in
        let outs = kv_seq { kv_set = false; kv_val = KvInit } (unhex k) cl in
        print_endline (String.concat ";" (List.map (fun o ->
            Printf.sprintf "%d/%d/%s" (if o.ko_found then 1 else 0) (if o.ko_err then 1 else 0)
              (match o.ko_val with KvInit -> Printf.sprintf "%h" 111.0 | KvDefault -> Printf.sprintf "%h" 222.0 | KvUser d -> Printf.sprintf "%h" (float_of_dec d))) outs))
      | "CW" :: allowed :: w :: _ ->
        (* line_ok of the model for a line holding one word, with the recorded keyword list of a real block *)
        let al = List.map unhex (String.split_on_char ',' allowed) in
        print_endline (if check_keywords al (unhex w) [] = CK_ok then "accept" else "reject")
      | "KS" :: calls :: _ ->
        (* successive key_lookup calls on one parser object: conf:key:savepos|conf:key:savepos|... *)
        let cl = List.map (fun c -> match String.split_on_char ':' c with
            | [cf; k; sp] -> ((unhex cf, unhex k), nat_of_int (int_of_string sp)) | _ -> failwith "KS") (String.split_on_char '|' calls) in
        let (_, rs) = lookup_seq mempty cl in
        print_endline (String.concat ";" (List.map (function
            | KL_notfound -> "notfound"
            | KL_error sp -> Printf.sprintf "error %d" (int_of_nat sp)
            | KL_found (_, data, sp, reg) -> Printf.sprintf "found %s %d %s" (hex data) (int_of_nat sp) (reg_str reg)
            | KL_outoffuel -> "outoffuel") rs))
      | "PS" :: strict :: sch :: cs :: _ ->
        (* one parser object, several texts, no clear in between *)
        let confs = List.map unhex (String.split_on_char '|' cs) in
        print_endline (String.concat " " (List.map (fun b -> if b then "accept" else "reject")
          (pseq (strict = "1") (parse_nested sch) mempty confs)))
      | "MS" :: strict :: sch :: cs :: _ ->
        (* the module's parser object over a sequence of read_config_string calls *)
        let raws = List.map unhex (String.split_on_char '|' cs) in
        let (st, oks) = mrun (strict = "1") (parse_nested sch) mempty raws in
        print_endline (String.concat " " (List.map (fun b -> if b then "accept" else "reject") oks)
                       ^ (if st.ms_regs = [] && st.ms_allowed = [] then " empty" else " dirty"))
      | "SS" :: d :: dl :: _ ->
        (match split_string (unhex d) (unhex dl) with
         | None -> print_endline "outoffuel"
         | Some l -> print_endline ("[" ^ String.concat "," (List.map hex l) ^ "]"))
      | _ -> print_endline "?"
    done
  with End_of_file -> ()
