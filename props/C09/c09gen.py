# C09 generators: strings for the unit tie (structured mostly-valid stream from the configurations under
# /repo/tests/input_files + a malformed byte stream), schemas/configurations for the generic flat client,
# keyword-level mutants and layout rewrites of whole configurations.
import os, re, glob

KEYWORDS = ("indexGroup name colvar indexFile colvarsTrajFrequency colvarsRestartFrequency width colvars "
            "outputAppliedForce forceConstant group1 group2 centers harmonic distance refPositionsFile upperBoundary "
            "atoms outputEnergy targetNumSteps upperWalls harmonicWalls lowerBoundary histogram dihedral axis ref main "
            "lowerWalls hillWidth hillWeight metadynamics abf fullSamples center lowerWall upperWall colvar_ s").split()

NUMBER_TOKENS = ["1", "0", "-1", "+2", "0.5", "-1.5", ".5", "5.", "-.25", "+0.125", "1e5", "1E-3", "2.5e+2", "1e0",
                 "00012", "-0", "-0e-0", "0.1", "3.14159", "1e-999", "123456789012345678901234567890", "0.000001",
                 "1e308", "1.7976931348623157e308", "4.9e-324", "12.375", "1024", "7e2"]
BAD_NUMBER_TOKENS = ["abc", "0.5abc", "1e", "1e+", ".", "+", "-", "+.e5", "0x10", "1.2.3", "1e5e5", "inf", "nan",
                     "1e999", "-1e400", "1.8e308", "1,5", "1..", "--1", "5.5.", "1e5.3", "e5", ".e5", "1d5", "1_000",
                     "0.5#", "(1)", "1;", "5x"]
INT_TOKENS = ["5", "-5", "+5", "0", "010", "2147483647", "-2147483648", "12"]
BAD_INT_TOKENS = ["5x", "5.5", "2147483648", "-2147483649", "99999999999", "0x10", "-", "+", "abc", "1e3", "5 6"]
BOOL_TOKENS = ["on", "off", "yes", "no", "true", "false"]
BAD_BOOL_TOKENS = ["On", "TRUE", "1", "0", "y", "on off", "onn", "on junk", "off on", "yes {", "true 1", "no no", "on\ton", "false x y"]
WORDS = ["x", "one", "file.dat", "Group_1", "a/b", "dA", "x1"]


def hx(b):
    if isinstance(b, str):
        b = b.encode("latin1")
    return b.hex() if b else "-"


def unhx(s):
    return b"" if s == "-" else bytes.fromhex(s)


def test_configs(repo):
    out = []
    for p in sorted(glob.glob(os.path.join(repo, "tests", "input_files", "*", "test.in"))):
        try:
            out.append((os.path.basename(os.path.dirname(p)), open(p, "rb").read()))
        except OSError:
            pass
    return out


def first_tokens(conf):
    ks = []
    for l in conf.split(b"\n"):
        m = re.match(rb"\s*([A-Za-z_][A-Za-z0-9_]*)", l)
        if m:
            ks.append(m.group(1))
    return ks


def rcase(r, w):
    """random case change of a keyword (bytes)"""
    m = r.random()
    if m < 0.3:
        return w.upper()
    if m < 0.6:
        return w.lower()
    return bytes((c ^ 0x20) if (chr(c).isalpha() and r.random() < 0.5) else c for c in w)


MISSPELL_FAMILIES = ["prefix", "prefix", "extension", "deletion", "transposition", "insertion"]


def misspell(r, kw, forbidden, family=None):
    """a misspelling of keyword kw (bytes) of one of the families; None if it would be a valid keyword
    (forbidden: lower-case keywords that are valid in that place).  Returns (family, word)."""
    fam = family or r.choice(MISSPELL_FAMILIES)
    w = None
    if fam == "prefix" and len(kw) > 1:
        w = kw[:r.randint(1, len(kw) - 1)]                 # every proper prefix can be drawn
    elif fam == "extension":
        w = kw + bytes([r.choice(b"sxez1_")])
    elif fam == "deletion" and len(kw) > 1:
        i = r.randrange(len(kw)); w = kw[:i] + kw[i + 1:]
    elif fam == "transposition" and len(kw) > 1:
        i = r.randrange(len(kw) - 1); w = kw[:i] + kw[i + 1:i + 2] + kw[i:i + 1] + kw[i + 2:]
    elif fam == "insertion":
        i = r.randint(0, len(kw)); w = kw[:i] + bytes([r.choice(b"xQ_z")]) + kw[i:]
    if not w or w.lower() == kw.lower() or w.lower() in forbidden or not re.match(rb"^[A-Za-z_]", w):
        return None
    return fam, w


def all_prefixes(kw):
    return [kw[:i] for i in range(1, len(kw))]


def rws(r, n=3, allow_empty=False):
    k = r.randint(0 if allow_empty else 1, n)
    return bytes(r.choice(b" \t") for _ in range(k))


def gen_value(r, depth=0):
    """a value text: number(s), word, or a brace block (single- or multi-line, possibly nested)"""
    m = r.random()
    if m < 0.35:
        return r.choice(NUMBER_TOKENS + BAD_NUMBER_TOKENS + INT_TOKENS).encode()
    if m < 0.5:
        return b" ".join(r.choice(NUMBER_TOKENS + WORDS).encode() for _ in range(r.randint(2, 4)))
    if m < 0.6:
        return r.choice(WORDS + BOOL_TOKENS).encode()
    if m < 0.65:
        return b"(" + b", ".join(r.choice(NUMBER_TOKENS).encode() for _ in range(3)) + b")"
    # brace block
    inner = []
    for _ in range(r.randint(0, 3)):
        kw = r.choice(KEYWORDS).encode()
        if depth < 2 and r.random() < 0.3:
            inner.append(kw + rws(r) + gen_value(r, depth + 1))
        else:
            inner.append(kw + rws(r) + r.choice(NUMBER_TOKENS + WORDS).encode())
    if r.random() < 0.4 and all(b"\n" not in x for x in inner):
        return b"{" + rws(r, 2, True) + b" ".join(inner) + rws(r, 2, True) + b"}"
    ind = b"  " * (depth + 1)
    return b"{" + rws(r, 2, True) + b"\n" + b"".join(ind + x + b"\n" for x in inner) + b"  " * depth + b"}"


def gen_struct_conf(r, keys, nlines=None):
    """a configuration-like string built from keyword lines"""
    lines = []
    for _ in range(nlines or r.randint(1, 7)):
        m = r.random()
        kw = r.choice(keys)
        if isinstance(kw, str):
            kw = kw.encode()
        if r.random() < 0.4:
            kw = rcase(r, kw)
        if m < 0.7:
            l = rws(r, 4, True) + kw + rws(r) + gen_value(r) + rws(r, 2, True)
        elif m < 0.8:
            l = rws(r, 4, True) + kw + rws(r, 2, True)
        elif m < 0.85:
            l = rws(r, 2, True) + kw + r.choice([b"{", b"}", b"x", b"=", b"\t", b"s"]) + gen_value(r)
        elif m < 0.9:
            l = r.choice([b"}", b"x ", b"} ", b"{", b"#", b"x}"]) + kw + rws(r) + gen_value(r)
        elif m < 0.95:
            l = rws(r, 3, True)
        else:
            l = b"# " + kw + b" 1"
        lines.append(l)
    s = b"\n".join(lines)
    if r.random() < 0.8:
        s += b"\n"
    return s


def mutate_bytes(r, s, n=None):
    s = bytearray(s)
    for _ in range(n or r.randint(1, 3)):
        m = r.random()
        p = r.randint(0, len(s))
        if m < 0.3 and s:
            del s[min(p, len(s) - 1)]
        elif m < 0.65:
            s.insert(p, r.choice(b"{}\n \t#\r{}\n") if r.random() < 0.8 else r.randint(0, 255))
        elif m < 0.8 and s:
            q = min(p, len(s) - 1)
            s[q] = r.choice(b"{}\n \t#\rXx0.") if r.random() < 0.8 else r.randint(0, 255)
        elif s:
            # swap two chunks / duplicate a chunk
            a = r.randint(0, len(s) - 1); b = r.randint(a, min(len(s), a + 12))
            s[p:p] = s[a:b]
    return bytes(s)


def gen_malformed(r, keys, maxlen=60):
    """bytes with a bias towards structural characters and keyword occurrences"""
    out = bytearray()
    for _ in range(r.randint(0, 14)):
        m = r.random()
        if m < 0.3:
            kw = r.choice(keys)
            out += rcase(r, kw.encode() if isinstance(kw, str) else kw)
        elif m < 0.75:
            out += bytes([r.choice(b"{}{}\n\n \t#\r")])
        elif m < 0.9:
            out += r.choice(NUMBER_TOKENS + BAD_NUMBER_TOKENS).encode()
        else:
            out += bytes(r.randint(0, 255) for _ in range(r.randint(1, 3)))
    return bytes(out[:maxlen])


# ------------------------------------------------------------------ flat schema cases
KINDS = ["R", "I", "B", "S", "V", "N1", "N2", "N3", "K", "T3", "T4", "T2", "T5", "R!", "S!", "B!", "T3!", "U", "U", "L", "J", "W", "Y3", "Y4"]


def value_for(r, kind, good=True):
    kind = kind.rstrip("!")
    if kind[0] == "Y":
        k = r.randint(1, 3)
        parts = [value_for(r, "T" + kind[1:], True) for _ in range(k)]
        if good:
            return r.choice([" ", "  ", "\t"]).join(parts)
        return r.choice(["".join(parts) if k > 1 else parts[0] + "x", parts[0] + " " + value_for(r, "T" + kind[1:], False), "1 2 3", parts[0] + " ("])
    if kind[0] == "T":
        n = int(kind[1:])
        toks = [r.choice(NUMBER_TOKENS) for _ in range(n)]
        sp = lambda: r.choice(["", " ", "  ", "\t"])
        if good:
            return "(" + sp() + (sp() + "," + sp()).join(toks) + sp() + ")"
        m = r.random()
        if m < 0.2:
            return "(" + ", ".join(toks)                       # no closing parenthesis
        if m < 0.4:
            return "(" + ", ".join(toks[:-1] or ["1"]) + ")" if n > 1 else "()"   # too few
        if m < 0.55:
            return "(" + ", ".join(toks + ["1"]) + ")"         # too many
        if m < 0.7:
            return "(" + ", ".join(toks) + ") x"               # text after
        if m < 0.85:
            return "(" + ", ".join([r.choice(BAD_NUMBER_TOKENS)] + toks[1:]) + ")"
        return " ".join(toks)                                  # no parentheses
    if kind == "U":
        return r.choice(["0", "5", "+7", "18446744073709551615", "00012", "4294967296"] if good else
                        ["-5", "-0", "-18446744073709551615", "18446744073709551616", "5.5", "0x10", "1e3", "abc", "5 6", "5-", "inf"])
    if kind == "L":
        return r.choice(["0", "-5", "+7", "9223372036854775807", "-9223372036854775808", "2147483648"] if good else
                        ["9223372036854775808", "-9223372036854775809", "5.5", "0x10", "1e3", "abc", "5 6", "nan"])
    if kind == "J":
        return " ".join(r.choice(INT_TOKENS) for _ in range(r.randint(1, 5))) if good else r.choice(["1 2 x 3", "1.5 2", "1 2147483648", "abc", "1,2", "1 2-"])
    if kind == "W":
        return " ".join(r.choice(WORDS + ["{x}", "\"q\"", "a#b"][:2]) for _ in range(r.randint(1, 4))) if good else ""
    if kind == "R":
        return r.choice(NUMBER_TOKENS if good else BAD_NUMBER_TOKENS + ["1 2", "1 abc", "0.5 .", "2 1e"])
    if kind == "I":
        return r.choice(INT_TOKENS if good else BAD_INT_TOKENS)
    if kind == "B":
        return r.choice(BOOL_TOKENS + [""] if good else BAD_BOOL_TOKENS)
    if kind == "S":
        return r.choice(WORDS if good else ["a b", "x y z"])
    if kind == "V":
        if good:
            return " ".join(r.choice(NUMBER_TOKENS) for _ in range(r.randint(1, 5)))
        return r.choice(["1 2 x 3", "abc", "1 2 3abc", "1, 2", "1 2 .", "1e999 2"])
    if kind[0] == "N":
        n = int(kind[1:])
        if good:
            return " ".join(r.choice(NUMBER_TOKENS) for _ in range(n))
        k = r.choice([n - 1, n + 1, n + 2, n])
        toks = [r.choice(NUMBER_TOKENS) for _ in range(max(k, 0))]
        if k == n or r.random() < 0.3:
            toks.append(r.choice(BAD_NUMBER_TOKENS))
        return " ".join(toks)
    if kind == "K":
        body = "\n".join("  " + r.choice(KEYWORDS) + " " + r.choice(NUMBER_TOKENS + WORDS) for _ in range(r.randint(1, 3)))
        if good:
            return r.choice(["{\n" + body + "\n}", "{ " + r.choice(KEYWORDS) + " 1 }", "{\n" + body + "\n  sub {\n    a 1\n  }\n}"])
        return r.choice(["{ }", "{}", "", "{\n" + body, "{\n}"])
    return ""


def gen_flat_case(r):
    """(schema string, conf bytes, tag): a schema of 2-6 keywords and a configuration that mostly fits it"""
    nk = r.randint(2, 6)
    pool = r.sample(KEYWORDS, nk + 2)
    keys = pool[:nk]
    schema = [(k, r.choice(KINDS)) for k in keys]
    tag = "valid"
    lines = []
    for k, kind in schema:
        if r.random() < 0.2:
            continue                      # keyword not given
        kw = k.encode()
        if r.random() < 0.4:
            kw = rcase(r, kw)
        v = value_for(r, kind, True).encode()
        lines.append(rws(r, 3, True) + kw + (rws(r) + v if v else b"") + rws(r, 2, True))
    r.shuffle(lines)
    m = r.random()
    if m < 0.45:
        pass
    elif m < 0.55:
        tag = "unknown-keyword"
        v = value_for(r, r.choice(KINDS), True).encode()
        lines.insert(r.randint(0, len(lines)), rws(r, 2, True) + r.choice(pool[nk:] + ["fooBar", "widthh", "x"]).encode() + b" " + v)
    elif m < 0.65 and schema:
        tag = "bad-value"
        k, kind = r.choice(schema)
        lines = [l for l in lines if l.strip().lower().split()[:1] != [k.lower().encode()]]
        lines.insert(r.randint(0, len(lines)), k.encode() + b" " + value_for(r, kind, False).encode())
    elif m < 0.72 and schema:
        tag = "missing-value"
        k, kind = r.choice(schema)
        lines = [l for l in lines if l.strip().lower().split()[:1] != [k.lower().encode()]]
        lines.insert(r.randint(0, len(lines)), rws(r, 2, True) + k.encode() + rws(r, 2, True))
    elif m < 0.8 and lines:
        tag = "repeated"
        lines.insert(r.randint(0, len(lines)), r.choice(lines))
    elif m < 0.88 and lines:
        tag = "misspelt"
        i = r.randrange(len(lines))
        l = lines[i]
        st = len(l) - len(l.lstrip())
        m0 = re.match(rb"[A-Za-z_][A-Za-z0-9_]*", l[st:])
        ms = misspell(r, m0.group(0), set(k.lower().encode() for k in keys)) if m0 else None
        if ms:
            tag = "misspelt"
            lines[i] = l[:st] + ms[1] + l[st + len(m0.group(0)):]
        else:
            lines[i] = l[:st] + r.choice([b"x", b"_"]) + l[st:] if r.random() < 0.5 else l[:st + 1] + b"Q" + l[st + 1:]
            if lines[i][st:].split()[:1] and lines[i][st:].split()[0].lower() in set(k.lower().encode() for k in keys):
                tag = "valid"
    elif m < 0.94:
        tag = "brace"
        lines.insert(r.randint(0, len(lines)), r.choice([b"}", b"{", b"}{", b"x {", b"} x"]))
    else:
        tag = "bytes"
        s = mutate_bytes(r, b"\n".join(lines) + b"\n")
        return ",".join("%s:%s" % (kd, hx(k)) for k, kd in schema), s, tag
    conf = b"\n".join(lines) + (b"\n" if r.random() < 0.9 else b"")
    return ",".join("%s:%s" % (kd, hx(k)) for k, kd in schema), conf, tag


def decorate_raw(r, conf):
    """put comments, CRLF and blank lines into a cleaned configuration (input of read_config_string)"""
    out = []
    for l in conf.split(b"\n"):
        m = r.random()
        if m < 0.15:
            out.append(rws(r, 3, True) + b"# " + r.choice([b"comment", b"width 1", b"{", b"}"]))
        if m < 0.3:
            l = l + rws(r, 2, True) + b"#" + r.choice([b"", b" c", b" { x", b"\r"])
        if r.random() < 0.3:
            l = l + b"\r"
        out.append(l)
        if r.random() < 0.1:
            out.append(rws(r, 3, True))
    return b"\n".join(out)


# ------------------------------------------------------------------ nested schema cases (blocks within blocks)
NESTED = [
    ("colvar", [("name", "S"), ("width", "R"), ("lowerBoundary", "R"), ("outputEnergy", "B"),
                ("distance", [("forceNoPBC", "B"), ("group1", [("atomNumbers", "V"), ("indexGroup", "S")]),
                              ("group2", [("atomNumbers", "V"), ("dummyAtom", "N3")])]),
                ("distanceZ", [("main", [("atomNumbers", "V")]), ("ref", [("atomNumbers", "V")]), ("axis", "N3")])]),
    ("harmonic", [("name", "S"), ("colvars", "S"), ("centers", "V"), ("forceConstant", "R"), ("outputEnergy", "B")]),
    ("colvarsTrajFrequency", "I"),
    ("indexFile", "S"),
]


def _all_keys(items):
    out = set()
    for k, v in items:
        out.add(k.lower().encode())
        if isinstance(v, list):
            out |= _all_keys(v)
    return out


NESTED_ALL_KEYS = _all_keys(NESTED)


def nested_schema_str(items):
    out = []
    for k, v in items:
        if isinstance(v, list):
            out.append("G:%s[%s]" % (hx(k), nested_schema_str(v)))
        else:
            out.append("%s:%s" % (v, hx(k)))
    return ";".join(out)


def gen_nested_lines(r, items, depth, paths, path=()):
    """lines (bytes, without LF) of a random valid instance of the items; paths collects (line index, path, key, kind)"""
    lines = []
    for k, v in items:
        if r.random() < 0.25:
            continue
        ind = b"  " * depth + rws(r, 2, True) if r.random() < 0.3 else b"  " * depth
        kw = rcase(r, k.encode()) if r.random() < 0.3 else k.encode()
        if isinstance(v, list) and depth == 0 and r.random() < 0.25:
            # more than two instances of the same block keyword (the key_lookup loop of the parent)
            for _ in range(r.randint(1, 2)):
                extra = gen_nested_lines(r, v, depth + 1, [], path + (k,))
                lines.append(ind + kw + b" {")
                lines += extra
                lines.append(b"  " * depth + b"}")
        if isinstance(v, list):
            inner = gen_nested_lines(r, v, depth + 1, [], path + (k,))
            if inner and len(inner) == 1 and b"{" not in inner[0] and r.random() < 0.4:
                lines.append(ind + kw + rws(r, 2) + b"{ " + inner[0].strip() + b" }")
                paths.append((len(lines) - 1, path, k, "block1"))
            else:
                lines.append(ind + kw + rws(r, 2) + b"{")
                paths.append((len(lines) - 1, path, k, "block"))
                base = len(lines)
                sub_paths = []
                inner = gen_nested_lines(r, v, depth + 1, sub_paths, path + (k,)) if not inner else inner
                # regenerate paths for the inner lines actually used
                for i, l in enumerate(inner):
                    m = re.match(rb"\s*([A-Za-z_][A-Za-z0-9_]*)", l)
                    if m:
                        paths.append((base + i, path + (k,), m.group(1).decode(), "line"))
                lines += inner
                lines.append(b"  " * depth + b"}")
        else:
            val = value_for(r, v, True).encode()
            lines.append(ind + kw + (rws(r, 3) + val if val else b"") + rws(r, 2, True))
            paths.append((len(lines) - 1, path, k, v))
    return lines


def gen_nested_case(r):
    """(schema string, raw conf bytes, tag)"""
    paths = []
    lines = gen_nested_lines(r, NESTED, 0, paths)
    tag = "valid"
    m = r.random()
    cand = [p for p in paths if re.match(rb"\s*[A-Za-z_]", lines[p[0]])]
    if m < 0.4 or not cand:
        pass
    elif m < 0.6:
        tag = "misspelt"
        i = r.choice(cand)[0]
        l = lines[i]
        st = len(l) - len(l.lstrip())
        m0 = re.match(rb"[A-Za-z_][A-Za-z0-9_]*", l[st:])
        ms = misspell(r, m0.group(0), NESTED_ALL_KEYS) if m0 else None
        if ms:
            lines[i] = l[:st] + ms[1] + l[st + len(m0.group(0)):]
        else:
            lines[i] = l[:st + 1] + b"Q" + l[st + 1:] if r.random() < 0.5 else l[:st] + b"x" + l[st:]
    elif m < 0.75:
        tag = "wrong-level"
        # a leaf line of one level moved to another level where that keyword does not exist
        leafs = [p for p in cand if p[3] in ("S", "R", "I", "B", "V", "N3") and b"{" not in lines[p[0]]]
        if leafs:
            src = r.choice(leafs)
            key = src[2]
            def keys_at(path):
                items = NESTED
                for seg in path:
                    items = dict((k, v) for k, v in items)[seg]
                return [k.lower() for k, _ in items]
            others = [p for p in cand if p[1] != src[1] and key.lower() not in keys_at(p[1]) and p[0] != src[0]]
            if others:
                dst = r.choice(others)
                l = lines[src[0]]
                lines[src[0]] = b""
                lines[dst[0]] = l.strip() + b"\n" + lines[dst[0]]
            else:
                tag = "valid"
        else:
            tag = "valid"
    elif m < 0.85:
        tag = "unknown-keyword"
        i = r.randrange(len(lines) + 1)
        lines.insert(i, rws(r, 4, True) + r.choice([b"fooBar 1", b"widthh 0.5", b"x", b"atomNumbers_ 1 2",
                                                    b"fooBlock {\n  width 1\n}", b"fooBlock { width 1 }", b"group9 {\n  atomNumbers 1\n  fooBar 2\n}"]))
    elif m < 0.89:
        # text that is neither keyword nor value: after a closing brace, between a block keyword and its brace
        idx_close = [i for i, l in enumerate(lines) if l.rstrip().endswith(b"}")]
        idx_open = [i for i, l in enumerate(lines) if l.rstrip().endswith(b"{")]
        if r.random() < 0.5 and idx_close:
            tag = "junk-after-brace"
            i = r.choice(idx_close)
            lines[i] = lines[i].rstrip() + b" " + r.choice([b"junk", b"x 1", b"0.5", b"fooBar"])
        elif idx_open:
            tag = "junk-before-brace"
            i = r.choice(idx_open)
            l = lines[i].rstrip()
            lines[i] = l[:-1].rstrip() + b" " + r.choice([b"junk", b"foo", b"1"]) + b" {"
        else:
            tag = "valid"
    elif m < 0.905:
        # text after the complete value of a leaf keyword, on the same line: a junk word, or a keyword of the same level with
        # its value (the line itself again); boolean flags preferred half of the time
        leaf = [i for i, l in enumerate(lines) if re.match(rb"\s*[A-Za-z_]", l) and b"{" not in l and b"}" not in l and b"#" not in l]
        flags = [i for i in leaf if lines[i].split()[0].lower() in (b"outputenergy", b"forcenopbc")]
        if leaf:
            tag = "trailing-text"
            i = r.choice(flags) if flags and r.random() < 0.5 else r.choice(leaf)
            l = lines[i].rstrip()
            lines[i] = l + b" " + (b"junk" if r.random() < 0.5 else l.strip())
        else:
            tag = "valid"
    elif m < 0.93:
        tag = "brace"
        idx = [i for i, l in enumerate(lines) if b"{" in l or b"}" in l]
        if idx:
            i = r.choice(idx)
            ch = b"{" if b"{" in lines[i] else b"}"
            k = lines[i].rfind(ch)
            lines[i] = lines[i][:k] + lines[i][k + 1:]
        else:
            tag = "valid"
    else:
        tag = "bytes"
        return nested_schema_str(NESTED), mutate_bytes(r, b"\n".join(lines) + b"\n"), tag
    conf = b"\n".join(l for l in lines) + b"\n"
    if r.random() < 0.3:
        conf = decorate_raw(r, conf)
    return nested_schema_str(NESTED), conf, tag


# ------------------------------------------------------------------ text after a complete value, for every value kind
TRAIL_KINDS = ["B", "I", "R", "S", "U", "L", "V", "J", "N2", "T3", "Y3", "W", "B!", "R!"]
TRAIL_FAMILIES = ["junk-word", "keyword-and-value", "open-brace", "close-brace", "brace-pair", "second-value"]


def gen_trailing_cases(r):
    """for every value kind: a GOOD value followed, on the same line, by a junk word / another keyword of the schema with its
       value / a brace.  Returns [(schema string, conf bytes, kind, family, must_reject)]"""
    out = []
    for kind in TRAIL_KINDS:
        for fam in TRAIL_FAMILIES:
            k1, k2 = r.sample([k for k in KEYWORDS if k not in ("s", "colvar_")], 2)
            other_kind = r.choice(["B", "R", "I"])
            v1 = value_for(r, kind, True)
            if kind.rstrip("!") == "B" and not v1:
                v1 = "on"
            v2 = value_for(r, other_kind, True) or "on"
            tail = {"junk-word": "junk", "keyword-and-value": "%s %s" % (k2, v2), "open-brace": "{", "close-brace": "}",
                    "brace-pair": "{ x }", "second-value": v1}[fam]
            line = "%s %s %s" % (k1, v1, tail)
            conf = (line + "\n").encode()
            # a list of strings legitimately takes further words; everything else must be refused
            must = not (kind == "W" and fam in ("junk-word", "keyword-and-value", "second-value"))
            if kind == "W" and fam == "brace-pair" and "{" in v1:
                # `key {x} { x }`: the value of a braced keyword is the text between the FIRST `{` and the LAST `}` of the line,
                # so the strings are `x}`, `{`, `x` - odd, but every byte is taken as a value, nothing is dropped (NOTES.md)
                must = False
            if kind in ("V", "J", "Y3") and fam == "second-value":
                must = False                      # one more number in a list of numbers is a longer list
            sch = "%s:%s,%s:%s" % (kind, hx(k1), other_kind, hx(k2))
            out.append((sch, conf, kind, fam, must))
    return out
