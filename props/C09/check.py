# C09: configuration parsing is total, strict and independent of layout (partial claim).
import os, sys, json, re, shutil, glob
import vcommon as V
import c09gen as G

PROP = "coq/C09/Properties_C09.v"
EXTRACT = "coq/C09/Extract_C09.v"
DRIVER = "props/C09/driver.ml"
UNIT = {"c09unit": ["props/C09/unit.cpp"]}

NUM_RE = re.compile(rb"^[+-]?(\d+\.?\d*|\.\d+)([eE][+-]?\d+)?$")
INT_RE = re.compile(rb"^[+-]?\d+$")
ISSPACE = b" \t\n\v\f\r"


def is_number_text(v):
    """independent reading of "this text is one finite number" (python)"""
    t = v.strip(ISSPACE)
    if not NUM_RE.match(t):
        return False
    try:
        x = float(t)
    except ValueError:
        return False
    return x not in (float("inf"), float("-inf"))


def is_int_text(v):
    t = v.strip(ISSPACE)
    return bool(INT_RE.match(t)) and -2147483648 <= int(t) <= 2147483647


def number_list(v):
    """list of floats if the text is a white-space separated list of numbers, else None"""
    toks = v.split()
    if not all(is_number_text(t) for t in toks):
        return None
    return [float(t) for t in toks]


# ------------------------------------------------------------------------------------------------ unit cases

def py_strip_comments(raw):
    """independent re-implementation of what read_config_string hands to the parser"""
    out = b""
    lines = raw.split(b"\n")
    if lines and lines[-1] == b"":
        lines.pop()
    for l in lines:
        if l.endswith(b"\r"):
            l = l[:-1]
        k = l.find(b"#")
        if k >= 0:
            l = l[:k]
        if l.strip(b" \t") != b"":
            out += l + b"\n"
    return out


def gen_layout_case(r):
    """a configuration of distinct keyword lines with known values, in a random layout:
       returns (conf bytes, [(key, expected value bytes)])"""
    n = r.randint(1, 5)
    keys = r.sample([k for k in G.KEYWORDS if k not in ("s", "colvar_", "center", "colvar", "lowerWall", "upperWall")], n)
    lines, exp = [], []
    for k in keys:
        m = r.random()
        kw = G.rcase(r, k.encode())
        if m < 0.5:
            val = b" ".join(r.choice(G.NUMBER_TOKENS + G.WORDS).encode() for _ in range(r.randint(1, 3)))
            # amount of blanks between the tokens of a value is part of the value text: keep single blanks
            lines.append(G.rws(r, 4, True) + kw + G.rws(r, 3) + val + G.rws(r, 3, True))
            exp.append((k, val))
        elif m < 0.75:
            inner = b" ".join(r.choice(G.NUMBER_TOKENS + G.WORDS).encode() for _ in range(r.randint(1, 3)))
            lines.append(G.rws(r, 4, True) + kw + G.rws(r, 2) + b"{" + G.rws(r, 3, True) + inner + G.rws(r, 3, True) + b"}" + G.rws(r, 2, True))
            exp.append((k, inner))
        else:
            # multi-line block: the value is the text between the braces, line structure kept
            body = [b"  " + r.choice(["alpha", "beta", "gamma"]).encode() + b" " + r.choice(G.NUMBER_TOKENS).encode() for _ in range(r.randint(1, 3))]
            txt = G.rws(r, 4, True) + kw + G.rws(r, 2) + b"{" + G.rws(r, 2, True) + b"\n" + b"\n".join(body) + b"\n" + G.rws(r, 2, True) + b"}" + G.rws(r, 2, True)
            lines.append(txt)
            exp.append((k, b"\n" + b"\n".join(body) + b"\n"))
    conf = b"\n".join(lines) + b"\n"
    return conf, exp


def gen_unit_cases(r, n, tc):
    cases = []      # (line, meta)
    keys = G.KEYWORDS
    for _ in range(n):
        m = r.random()
        if m < 0.08:
            s = bytes(r.choice(b"{}{}ab \n") for _ in range(r.randint(0, 14)))
            cases.append(("CB %s %d" % (G.hx(s), r.randint(0, len(s) + 2)), {"kind": "CB"}))
        elif m < 0.26:
            s = G.gen_struct_conf(r, keys)
            if r.random() < 0.3:
                s = G.mutate_bytes(r, s)
            kw = r.choice(G.first_tokens(s) or [b"width"]) if r.random() < 0.8 else r.choice(keys).encode()
            cases.append(("KL %s %s %d" % (G.hx(s), G.hx(G.rcase(r, kw)), r.choice([0, 0, 0, r.randint(0, len(s) + 1)])),
                          {"kind": "KL", "stream": "structured"}))
        elif m < 0.31:
            # targeted: unterminated / odd braces after a keyword, keyword at the very end, string == keyword
            kw = r.choice(keys).encode()
            s = r.choice([kw + b" } {\n", kw + b" { a\n b\n", kw + b" {\n}\n}\n{\n", kw, kw + b"x", kw + b"\n", b" " + kw,
                          kw + b" {", kw + b" { }", kw + b"{}", kw + b" {}}{", b"}" + kw + b" 1\n", kw + b" 1 {\n 2\n}",
                          kw + b" { a } } {\n", kw + b" { a { b }\n c }\n", b"x " + kw + b" 1\n" + kw + b" 2\n",
                          kw + b"s 1\n" + kw + b" 2\n", kw + b" { a } b { c }\n"])
            cases.append(("KL %s %s 0" % (G.hx(s), G.hx(G.rcase(r, kw))), {"kind": "KL", "stream": "targeted"}))
        elif m < 0.39:
            s = G.gen_malformed(r, keys)
            cases.append(("KL %s %s %d" % (G.hx(s), G.hx(r.choice(keys)), r.choice([0, 0, r.randint(0, len(s) + 1)])),
                          {"kind": "KL", "stream": "malformed"}))
        elif m < 0.47 and tc:
            name, c = r.choice(tc)
            if r.random() < 0.5:
                c = py_strip_comments(c)
            if r.random() < 0.5:
                c = G.mutate_bytes(r, c)
            kw = r.choice(G.first_tokens(c) or [b"colvar"])
            cases.append(("KL %s %s 0" % (G.hx(c), G.hx(G.rcase(r, kw))), {"kind": "KL", "stream": "testsuite:" + name}))
        elif m < 0.55:
            s = G.decorate_raw(r, G.gen_struct_conf(r, keys)) if r.random() < 0.7 else G.gen_malformed(r, keys)
            cases.append(("SC %s" % G.hx(s), {"kind": "SC", "raw": s}))
        elif m < 0.63:
            conf, exp = gen_layout_case(r)
            for k, val in exp:
                cases.append(("KL %s %s 0" % (G.hx(conf), G.hx(G.rcase(r, k.encode()))), {"kind": "KL", "stream": "layout", "expect": val}))
        elif m < 0.86:
            sch, c, tag = G.gen_flat_case(r)
            meta = {"kind": "PF", "tag": tag, "schema": sch, "conf": c}
            if r.random() < 0.4:
                raw = G.decorate_raw(r, c)
                meta["kind"] = "PC"
                cases.append(("PC 1 %s %s" % (sch, G.hx(raw)), meta))
            else:
                cases.append(("PF 1 %s %s" % (sch, G.hx(c)), meta))
        elif m < 0.90:
            sch, c, tag = G.gen_nested_case(r)
            cases.append(("NP 1 %s %s" % (sch, G.hx(c)), {"kind": "NP", "tag": tag, "conf": c}))
        elif m < 0.94:
            # index files, to_lower, check_ascii, repeated-keyword values
            mm = r.random()
            if mm < 0.5:
                groups, names = [], r.sample(["g", "group1", "Protein", "C-alpha", "a_b", "x1", "h"], r.randint(1, 4))
                for nm_ in names:
                    groups.append((nm_, [r.randint(1, 99999) for _ in range(r.randint(0, 6))]))
                sp = lambda: bytes(r.choice(b"  \n\t") for _ in range(r.randint(1, 3)))
                txt = b"".join(b"[" + sp() + g.encode() + sp() + b"]" + b"".join(sp() + str(n).encode() for n in ns) + sp() for g, ns in groups)
                tag = "valid"
                k = r.random()
                if k < 0.5:
                    tag = r.choice(["text-for-number", "zero", "negative", "glued-header", "no-bracket", "bytes", "redefined"])
                    toks = txt.split()
                    nums = [i for i, t in enumerate(toks) if t.isdigit()]
                    if tag in ("text-for-number", "zero", "negative") and nums:
                        i = r.choice(nums)
                        toks[i] = {"text-for-number": r.choice([b"x", b"1.5", b"12a", b"0x1f"]), "zero": b"0", "negative": b"-3"}[tag]
                        if tag != "text-for-number" and i == len(toks) - 1:
                            toks.append(b"7")
                        txt = b" ".join(toks)
                    elif tag == "glued-header":
                        txt = txt.replace(b"]", b" ]").replace(b"[ ", b"[").replace(b"[\n", b"[").replace(b"[\t", b"[")
                        txt = re.sub(rb"\s+\]", b"]", txt, count=1)
                    elif tag == "no-bracket":
                        txt = txt.replace(b"]", b"", 1)
                    elif tag == "redefined":
                        txt = txt + b" [ " + groups[0][0].encode() + b" ] 100001 100002 "
                    elif tag == "bytes":
                        txt = G.mutate_bytes(r, txt)
                    else:
                        tag = "valid"
                cases.append(("IX %s" % G.hx(txt), {"kind": "IX", "tag": tag, "groups": groups, "text": txt}))
            elif mm < 0.6:
                t = bytes(r.randint(0, 255) for _ in range(r.randint(0, 24)))
                cases.append(("TL %s" % G.hx(t), {"kind": "TL", "text": t}))
            elif mm < 0.65:
                t = G.gen_malformed(r, keys) + bytes(r.randint(128, 255) for _ in range(r.randint(0, 3)))
                cases.append(("CA %s" % G.hx(t), {"kind": "CA"}))
            elif mm < 0.75:
                sc = G.gen_struct_conf(r, keys[:6], r.randint(2, 7))
                kw = r.choice(G.first_tokens(sc) or [b"width"])
                cases.append(("KM %s %s" % (G.hx(sc), G.hx(G.rcase(r, kw))), {"kind": "KM"}))
            else:
                # parse modes and key_already_set: the same keyword, 2-5 calls on one object
                calls = []
                for _ in range(r.randint(2, 5)):
                    mode = r.choice("srrondq")
                    k = r.random()
                    txt = (b"other 1\n" if k < 0.4 else b"width %s\n" % r.choice(G.NUMBER_TOKENS + G.BAD_NUMBER_TOKENS[:6]).encode() if k < 0.8
                           else b"width\n" if k < 0.9 else b"width 1\nwidth 2\n")
                    calls.append((mode, txt))
                cases.append(("KV %s %s" % (G.hx("width"), "|".join("%s:%s" % (m_, G.hx(t)) for m_, t in calls)), {"kind": "KV", "calls": calls}))
        elif m < 0.95:
            # successive key_lookup calls on one parser object through one string object; half of the time the texts
            # have EQUAL length and the later one holds a keyword that the earlier one lacks at that place
            n = r.randint(2, 4)
            confs = [G.gen_struct_conf(r, keys, r.randint(2, 5)) for _ in range(n)]
            if r.random() < 0.6:
                ln = max(len(c) for c in confs)
                confs = [c + b" " * (ln - len(c)) for c in confs]
            calls = []
            for c in confs:
                kw = r.choice(G.first_tokens(c) or [b"width"]) if r.random() < 0.85 else r.choice(keys).encode()
                calls.append((c, G.rcase(r, kw)))
            cases.append(("KS " + "|".join("%s:%s:0" % (G.hx(c), G.hx(k)) for c, k in calls), {"kind": "KS", "calls": calls}))
        elif m < 0.965:
            # one parser object over a sequence of 2-4 configurations (accepted, rejected at any depth, misspelt)
            seq = [G.gen_nested_case(r) for _ in range(r.randint(2, 4))]
            sch = seq[0][0]
            cmd = r.choice(["MS", "MS", "PS"])
            confs = [c if cmd == "MS" else py_strip_comments(c) for _, c, _ in seq]
            if r.random() < 0.5:
                # equal length after comment stripping: pad the shorter ones with blanks at the end of their last line
                ln = max(len(py_strip_comments(c)) for c in confs)
                confs = [(c.rstrip(b"\n") + b" " * (ln - len(py_strip_comments(c))) + b"\n") if py_strip_comments(c).endswith(b"\n") and len(py_strip_comments(c)) < ln else c
                         for c in confs]
            cases.append(("%s 1 %s %s" % (cmd, sch, "|".join(G.hx(c) for c in confs)),
                          {"kind": cmd, "tags": [t for _, _, t in seq], "confs": confs, "schema": sch}))
        else:
            d = bytes(r.choice(b"ab  ,,x") for _ in range(r.randint(0, 10)))
            dl = r.choice([b" ", b",", b" ", b"x"])
            cases.append(("SS %s %s" % (G.hx(d), G.hx(dl)), {"kind": "SS", "data": d, "delim": dl}))
    return cases


# the witnesses of the _refuted theorems and of the repaired defects, replayed on every run
WITNESS_CASES = [
    ("strict:scalar:text-after-number", "PF 1 R:%s %s" % (G.hx("width"), G.hx("width 0.5abc\n")), "reject",
     "`width 0.5abc` is accepted (text after the first number of a scalar keyword is ignored)"),
    ("strict:scalar:text-after-number", "PF 1 R:%s %s" % (G.hx("width"), G.hx("width 1 abc\n")), "reject",
     "`width 1 abc` is accepted (text after the first number of a scalar keyword is ignored)"),
    ("strict:scalar:text-after-number", "PF 1 I:%s %s" % (G.hx("n"), G.hx("n 5.5\n")), "reject",
     "`n 5.5` is accepted as the integer 5"),
    ("strict:scalar:text-after-number", "PF 1 R:%s %s" % (G.hx("width"), G.hx("width 0x10\n")), "reject",
     "`width 0x10` is accepted as 0"),
    ("strict:vector:unparsable-entry-dropped", "PF 1 V:%s %s" % (G.hx("atoms"), G.hx("atoms 1 2 x 3\n")), "reject",
     "`atoms 1 2 x 3` is accepted as the list (1, 2)"),
    ("strict:vector:surplus-entries-dropped", "PF 1 N1:%s %s" % (G.hx("centers"), G.hx("centers 1 2 3\n")), "reject",
     "`centers 1 2 3` is accepted for a single value (surplus entries dropped)"),
    # the witnesses of C09_bool_value_strict (first-word rule refuted), on the real get_keyval<bool>
    ("strict:value:junk-word-after-bool-value-accepted", "PF 1 B:%s %s" % (G.hx("outputAppliedForce"), G.hx("outputAppliedForce on junk\n")), "reject",
     "`outputAppliedForce on junk` is accepted (text after the first word of a boolean value is ignored)"),
    ("strict:value:keyword-and-value-after-bool-value-accepted", "PF 1 B:%s,B:%s %s" % (G.hx("outputValue"), G.hx("outputAppliedForce"), G.hx("outputValue off outputAppliedForce on\n")), "reject",
     "`outputValue off outputAppliedForce on` is accepted (the second flag is silently dropped)"),
    ("strict:value:second-value-after-bool-value-accepted", "PF 1 B:%s %s" % (G.hx("flag"), G.hx("flag off on\n")), "reject",
     "`flag off on` is accepted as off"),
    ("strict:value:bool-spelling", "PF 1 B:%s %s" % (G.hx("flag"), G.hx("flag {\n on\n}\n")), "reject",
     "a boolean value in braces over several lines (value text `\\n on\\n`) is accepted; the model (whole-text comparison) refuses it"),
    ("strict:value:bool-spelling", "PF 1 B:%s %s" % (G.hx("flag"), G.hx("flag { on }\n")), "accept 1",
     "`flag { on }` is refused"),
]
ISOLATION_WITNESSES = [
    ("KL %s %s 0" % (G.hx("colvarx"), G.hx("colvar")), "notfound", "key_lookup(\"colvarx\", \"colvar\") finds the keyword although an x follows it"),
    ("KL %s %s 0" % (G.hx("colvar"), G.hx("colvar")), "found", "key_lookup(\"colvar\", \"colvar\") does not find the keyword"),
]


def flat_oracle(meta, impl):
    """demands of the property text on the implementation alone, for tagged flat cases; returns (sig, text) or None"""
    tag = meta["tag"]
    acc = impl.startswith("accept")
    if tag.startswith("trailing:"):
        if acc and meta["must_reject"]:
            return ("strict:value:%s-after-%s-value-accepted" % (tag[len("trailing:"):], {"B": "bool", "I": "int", "R": "real", "S": "string", "U": "size_t", "L": "long",
                    "V": "real-list", "J": "int-list", "N": "fixed-list", "T": "tuple", "Y": "tuple-list", "W": "string-list"}[meta["vkind"][0]]),
                    "the configuration %r is accepted: the text after the value of the %s keyword is silently dropped" % (meta["conf"], meta["vkind"]))
        return None
    if acc and tag != "bytes":
        firsts = [l.strip(b" \t").lower().split()[:1] for l in meta["conf"].split(b"\n")]
        for it in meta["schema"].split(","):
            kd, key = it.split(":")
            if kd.endswith("!") and [G.unhx(key).lower()] not in firsts:
                return ("strict:required-keyword-missing-accepted", "keyword %r is looked up with parse_required, is absent, and the configuration is accepted" % G.unhx(key))
    if tag in ("unknown-keyword", "misspelt", "brace") and acc:
        return ("strict:%s-accepted" % tag, "a configuration with %s is accepted" % {"unknown-keyword": "a keyword that the context does not know",
                "misspelt": "a misspelt keyword", "brace": "a stray brace"}[tag])
    return None


def value_oracle(meta, impl):
    """every number the implementation returns for a real/int/list keyword must be the number written in the
       configuration: the value text of that keyword's line, read by python, is that number and nothing else"""
    if not impl.startswith("accept"):
        return None
    conf = meta["conf"]
    sch = [(it.split(":")[0], G.unhx(it.split(":")[1])) for it in meta["schema"].split(",")]
    vals = impl.split()[1:]
    if len(vals) != len(sch):
        return None
    lines = conf.split(b"\n")
    for (kind, key), v in zip(sch, vals):
        kind = kind.rstrip("!")
        if kind in ("U", "L"):
            if v == "-":
                continue
            cand = [l for l in lines if l.strip(b" \t").lower().split()[:1] == [key.lower()]]
            if len(cand) != 1 or b"{" in conf or b"}" in conf or b"#" in conf or b"\r" in conf:
                continue
            t = cand[0].strip(b" \t")[len(key):].strip(ISSPACE)
            lo, hi = (0, 2 ** 64 - 1) if kind == "U" else (-2 ** 63, 2 ** 63 - 1)
            if not INT_RE.match(t) or (kind == "U" and b"-" in t) or not (lo <= int(t) <= hi):
                return ("strict:integer:%s" % ("negative-unsigned-accepted" if kind == "U" and t.startswith(b"-") else "malformed-accepted"),
                        "keyword %r (%s): value text %r accepted as %s" % (key, "size_t" if kind == "U" else "long", t, v))
            if int(t) != int(v):
                return ("value:integer", "keyword %r: value text %r read as %s" % (key, t, v))
            continue
        if kind == "B":
            # the value text of the keyword's line must be exactly one of the six spellings (or absent: the flag alone)
            cand = [l for l in lines if l.strip(b" \t").lower().split()[:1] == [key.lower()]]
            if v == "-" or len(cand) != 1 or b"{" in conf or b"}" in conf or b"#" in conf or b"\r" in conf:
                continue
            t = cand[0].strip(b" \t")[len(key):].strip(b" \t")
            want = {b"": "1", b"on": "1", b"yes": "1", b"true": "1", b"off": "0", b"no": "0", b"false": "0"}.get(t)
            if want is None:
                return ("strict:value:bool-spelling", "keyword %r (bool): value text %r accepted as %s" % (key, t, v))
            if want != v:
                return ("value:bool", "keyword %r: value text %r read as %s" % (key, t, v))
            continue
        if kind not in ("R", "I", "V") and kind[0] not in "NT":
            continue
        if v == "-":
            continue
        # the one line that starts with this keyword (skip when repeated or inside a block)
        cand = [l for l in lines if l.strip(b" \t").lower().split()[:1] == [key.lower()]]
        if len(cand) != 1 or b"{" in conf or b"}" in conf or b"#" in conf or b"\r" in conf:
            continue
        text = cand[0].strip(b" \t")[len(key):]
        if kind == "R":
            if not is_number_text(text):
                return ("strict:scalar:text-after-number", "keyword %r: value text %r is not one number, accepted as %s" % (key, text, v))
            if float(text.strip(ISSPACE)) != float.fromhex(v):
                return ("value:real", "keyword %r: value text %r read as %s" % (key, text, v))
        elif kind[0] == "T":
            n = int(kind[1:])
            t = text.strip(ISSPACE)
            inner = t[1:-1].split(b",") if t.startswith(b"(") and t.endswith(b")") else None
            got = [float.fromhex(x) for x in v.strip("()").split(";") if x]
            if inner is None or len(inner) != n or not all(is_number_text(x) for x in inner):
                return ("strict:tuple:malformed-accepted", "keyword %r: value text %r is not a tuple of %d numbers, accepted as %s" % (key, text, n, got))
            if [float(x.strip(ISSPACE)) for x in inner] != got:
                return ("value:tuple", "keyword %r: value text %r read as %s" % (key, text, got))
        elif kind == "I":
            if not is_int_text(text):
                return ("strict:scalar:text-after-number", "keyword %r: value text %r is not one integer, accepted as %s" % (key, text, v))
            if int(text.strip(ISSPACE)) != int(v):
                return ("value:int", "keyword %r: value text %r read as %s" % (key, text, v))
        else:
            nl = number_list(text)
            got = [float.fromhex(t) for t in v.strip("[]").split(";") if t]
            if nl is None:
                return ("strict:vector:unparsable-entry-dropped", "keyword %r: value text %r is not a list of numbers, accepted as %s" % (key, text, got))
            if kind[0] == "N" and len(nl) != int(kind[1:]):
                return ("strict:vector:surplus-entries-dropped", "keyword %r: %d values given where %s are expected, accepted as %s" % (key, len(nl), kind[1:], got))
            if nl != got:
                return ("value:list", "keyword %r: value text %r read as %s" % (key, text, got))
    return None


# ------------------------------------------------------------------------------------------------ whole module

TEMPLATES = [
    # (name, natoms, config, positions)
    ("dz-harmonic", 2, """colvarsTrajFrequency 0
colvar {
  name x
  width 0.5
  outputAppliedForce on
  distanceZ {
    main {
      atomNumbers 1
    }
    ref {
      dummyAtom (0,0,0)
    }
    axis (0,0,1)
  }
}
harmonic {
  name h
  colvars x
  centers 0.25
  forceConstant 4.0
  outputEnergy on
}
"""),
    ("dist-walls", 4, """colvar {
  name d
  lowerBoundary 0.0
  upperBoundary 8.0
  width 0.25
  distance {
    group1 {
      atomNumbers 1 2
    }
    group2 {
      atomNumbers 3 4
    }
  }
}
harmonicWalls {
  name w
  colvars d
  lowerWalls 1.5
  upperWalls 2.5
  forceConstant 2.0
}
linear {
  name l
  colvars d
  centers 1.0
  forceConstant 0.5
}
"""),
    ("two-cv-hist", 4, """colvarsRestartFrequency 0
colvar {
  name a
  width 0.5
  lowerBoundary -4.0
  upperBoundary 4.0
  extendedLagrangian off
  distanceZ {
    main {
      atomNumbers 1 2
    }
    ref {
      atomNumbers 3
    }
    axis (1.0, 0.0, 0.0)
  }
}
colvar {
  name b
  width 1.0
  lowerBoundary 0.0
  upperBoundary 8.0
  distance {
    group1 {
      atomNumbers 1
    }
    group2 {
      atomNumbers 4
    }
    forceNoPBC yes
  }
}
harmonic {
  colvars a b
  centers 0.5 2.0
  forceConstant 3.0
}
histogram {
  name hg
  colvars a b
}
"""),
    ("dvec-harmonic", 3, """colvar {
  name v
  distanceVec {
    group1 {
      atomNumbers 1
    }
    group2 {
      atomNumbers 2 3
    }
  }
}
harmonic {
  colvars v
  centers (1.0, 0.5, -0.25)
  forceConstant 2.0
}
"""),
]


DZ = """colvar {
  name x
  width 0.5
  distanceZ {
    main {
      %s
    }
    ref {
      dummyAtom (0,0,0)
    }
    axis (0,0,1)
  }
}
harmonic {
  colvars x
  centers %s
  forceConstant 4.0
}
"""
DP = """colvar {
  name p
  distancePairs {
    group1 {
      atomNumbers 1 2
    }
    group2 {
      atomNumbers 3 4
    }
  }
}
linear {
  colvars p
  centers %s
  forceConstant 0.5
}
"""
GC = """colvar {
  name g
  groupCoord {
    group1 {
      %s
    }
    group2 {
      atomNumbers 2
    }
  }
}
"""
# whole-module witnesses of the repaired defects: (signature, natoms, configuration, must be accepted?, what it shows)
MODULE_WITNESSES = [
    ("ok", 4, DZ % ("atomNumbers 1", "0.25"), True, "reference"),
    ("ok", 4, DP % "(0.1, 0.2, 0.3, 0.4)", True, "reference (vector variable)"),
    ("ok", 4, GC % "atomNumbers 1", True, "reference (groupCoord)"),
    ("ok", 4, DZ % ("atomNumbers 1\n      atomNumbersRange 2-3", "0.25"), True, "reference (atomNumbersRange)"),
    ("strict:scalar:text-after-number", 4, (DZ % ("atomNumbers 1", "0.25")).replace("width 0.5", "width 0.5abc"), False,
     "`width 0.5abc` is accepted"),
    ("strict:scalar:text-after-number", 4, (DZ % ("atomNumbers 1", "0.25")).replace("forceConstant 4.0", "forceConstant 4.0 abc"), False,
     "`forceConstant 4.0 abc` is accepted"),
    ("strict:vector:surplus-entries-dropped", 4, DZ % ("atomNumbers 1", "0.25 0.5"), False, "`centers 0.25 0.5` for one variable is accepted"),
    ("strict:atoms:unparsable-atom-number", 4, DZ % ("atomNumbers 1 x", "0.25"), False, "`atomNumbers 1 x` is accepted"),
    ("strict:atoms:unparsable-atom-range", 4, DZ % ("atomNumbers 1\n      atomNumbersRange abc", "0.25"), False,
     "`atomNumbersRange abc` is accepted (ignored)"),
    ("strict:vector1d:missing-parenthesis", 4, DP % "(0.1, 0.2, 0.3, 0.4", False, "`centers (0.1, 0.2, 0.3, 0.4` without the closing parenthesis is accepted"),
    # an unknown keyword on a line of its own at every depth: only check_keywords of that level can refuse it
    ("strict:module:unknown-keyword-at-module-level", 4, "fooBar 2\n" + DZ % ("atomNumbers 1", "0.25"), False, "unknown keyword at the module level"),
    ("strict:module:unknown-keyword-in-colvar", 4, (DZ % ("atomNumbers 1", "0.25")).replace("  width 0.5\n", "  width 0.5\n  fooBar 2\n"), False,
     "unknown keyword in a colvar block"),
    ("strict:module:unknown-keyword-in-component", 4, (DZ % ("atomNumbers 1", "0.25")).replace("    axis (0,0,1)\n", "    axis (0,0,1)\n    fooBar 2\n"), False,
     "unknown keyword in a component block"),
    ("strict:module:unknown-keyword-in-atom-group", 4, DZ % ("atomNumbers 1\n      fooBar 2", "0.25"), False, "unknown keyword in an atom group block"),
    ("strict:module:unknown-keyword-in-bias", 4, (DZ % ("atomNumbers 1", "0.25")).replace("  forceConstant 4.0\n", "  forceConstant 4.0\n  fooBar 2\n"), False,
     "unknown keyword in a bias block"),
    ("strict:integer:negative-unsigned-accepted", 4, "colvarsTrajFrequency -5\n" + DZ % ("atomNumbers 1", "0.25"), False,
     "`colvarsTrajFrequency -5` (an unsigned setting) is accepted"),
    ("ok", 4, "indexFile c09_good.ndx\n" + DZ % ("indexGroup g", "0.25"), True, "reference (index file)"),
    ("strict:index:text-for-number-accepted", 4, "indexFile c09_bad.ndx\n" + DZ % ("indexGroup g", "0.25"), False,
     "an index file with `[ g ] 1 2 x 3` is accepted (g = 1 2, the rest of the file ignored)"),
    ("ok", 4, "units real\n" + DZ % ("atomNumbers 1", "0.25"), True, "reference (units real)"),
    ("ok", 4, "UNITS Real\n" + DZ % ("atomNumbers 1", "0.25"), True, "reference (units, letter case)"),
    ("strict:module:unknown-units-accepted", 4, "units furlongs\n" + DZ % ("atomNumbers 1", "0.25"), False, "`units furlongs` is accepted"),
    # text after a complete BOOLEAN value (a junk word, a second flag with its value)
    ("strict:module:junk-word-after-bool-value-accepted", 4, (DZ % ("atomNumbers 1", "0.25")).replace("  width 0.5\n", "  width 0.5\n  outputAppliedForce on junk\n"), False,
     "`outputAppliedForce on junk`"),
    ("strict:module:keyword-and-value-after-bool-value-accepted", 4, (DZ % ("atomNumbers 1", "0.25")).replace("  width 0.5\n", "  width 0.5\n  outputValue off outputAppliedForce on\n"), False,
     "two flags on one line: `outputValue off outputAppliedForce on`"),
    ("strict:module:junk-word-after-bool-value-accepted", 4, (DZ % ("atomNumbers 1", "0.25")).replace("  forceConstant 4.0\n", "  forceConstant 4.0\n  outputEnergy yes please\n"), False,
     "`outputEnergy yes please` in a bias block"),
    ("ok", 4, (DZ % ("atomNumbers 1", "0.25")).replace("  width 0.5\n", "  width 0.5\n  outputAppliedForce { on }\n"), True, "reference (`outputAppliedForce { on }`)"),
    # text that is neither a keyword nor a value must be an error, wherever it is on the line
    ("strict:module:text-after-brace-accepted", 4, (DZ % ("atomNumbers 1", "0.25")).replace("      atomNumbers 1\n    }", "      atomNumbers 1\n    } junk"), False,
     "`} junk` after the closing brace of an atom group"),
    ("strict:module:text-after-brace-accepted", 4, (DZ % ("atomNumbers 1", "0.25")).replace("    main {\n      atomNumbers 1\n    }", "    main { atomNumbers 1 } junk"), False,
     "`main { atomNumbers 1 } junk` on one line"),
    ("strict:module:text-before-brace-accepted", 4, (DZ % ("atomNumbers 1", "0.25")).replace("colvar {", "colvar foo {"), False, "`colvar foo {`"),
    ("strict:module:second-block-ignored", 4, (DZ % ("atomNumbers 1", "0.25")).replace("    ref {", "    main {\n      atomNumbers 2\n    }\n    ref {"), False,
     "a second `main { ... }` block in a component that reads one"),
    ("ok", 4, (DZ % ("atomNumbers 1", "0.25")).replace("}\nharmonic {", "} harmonic {"), True, "reference (`} harmonic {` on one line)"),
    # a misspelling that is a proper PREFIX of an optional keyword of the same block (the whole word must match)
    ("strict:module:keyword-prefix-accepted", 4, "colvarsTrajFreq 5\n" + DZ % ("atomNumbers 1", "0.25"), False, "`colvarsTrajFreq 5` (prefix of colvarsTrajFrequency) at the module level"),
    ("strict:module:keyword-prefix-accepted", 4, (DZ % ("atomNumbers 1", "0.25")).replace("  width 0.5\n", "  width 0.5\n  upperBound 3.0\n"), False,
     "`upperBound 3.0` (prefix of upperBoundary) in a colvar block"),
    ("strict:module:keyword-prefix-accepted", 4, (DZ % ("atomNumbers 1", "0.25")).replace("    axis (0,0,1)\n", "    axis (0,0,1)\n    componentCoef 2.0\n"), False,
     "`componentCoef 2.0` (prefix of componentCoeff) in a component block"),
    ("strict:module:keyword-prefix-accepted", 4, DZ % ("atomNumbers 1\n      atomNumber 2", "0.25"), False, "`atomNumber 2` (prefix of atomNumbers) in an atom group block"),
    ("strict:module:keyword-prefix-accepted", 4, (DZ % ("atomNumbers 1", "0.25")).replace("  forceConstant 4.0\n", "  forceConstant 4.0\n  outputEner on\n"), False,
     "`outputEner on` (prefix of outputEnergy) in a harmonic block"),
    ("strict:module:keyword-prefix-accepted", 4, TEMPLATES[1][2].replace("  upperWalls 2.5\n", "  upperWall 2.5\n"), False,
     "`upperWall 2.5` (prefix of upperWalls) in a harmonicWalls block that also has lowerWalls"),
    ("crash:colvar::groupcoordnum::init", 4, GC % "indexGroup nosuch", False, "groupCoord with an undefined index group"),
    ("crash:colvar::distance_inv::init", 4, (GC % "indexGroup nosuch").replace("groupCoord", "distanceInv"), False, "distanceInv with an undefined index group"),
    ("crash:colvar::distance_pairs::init", 4, (GC % "indexGroup nosuch").replace("groupCoord", "distancePairs"), False, "distancePairs with an undefined index group"),
    ("crash:colvar::gyration::init", 4, "colvar {\n  name g\n  gyration {\n    atoms {\n      indexGroup nosuch\n    }\n  }\n}\n", False,
     "gyration with an undefined index group"),
    ("crash:colvarbias_meta::init", 4, DZ.replace("harmonic {", "metadynamics {").replace("  centers %s\n  forceConstant 4.0\n", "  hillWeight 0.01%s\n") % ("atomNumbers 1", ""),
     False, "metadynamics without hillWidth"),
    ("crash:colvarbias_restraint_centers_moving::init", 4, DZ.replace("  centers %s\n", "  targetCenters %s\n  targetNumSteps 10\n") % ("atomNumbers 1", "1.0"), False,
     "harmonic restraint with targetCenters but no centers"),
    ("crash:colvarvalue::check_types", 4, DZ.replace("  forceConstant 4.0\n", "  forceConstant 4.0\n  targetCenters abc\n  targetNumSteps 10\n") % ("atomNumbers 1", "0.25"), False,
     "harmonic restraint with `targetCenters abc`"),
    ("crash:colvar::parse_analysis", 4, (DZ % ("atomNumbers 1", "0.25")).replace("  width 0.5\n", "  width 0.5\n  runAve on\n  runAveStride 0\n"), False,
     "runAveStride 0"),
]


def cv_block(name, atom, pad=0, bad=None):
    extra = ["  lowerBoundary -10.0", "  upperBoundary 10.0", "  outputAppliedForce on", "  expandBoundaries off", "  outputEnergy off",
             "  hardLowerBoundary off", "  hardUpperBoundary off", "  outputValue on"][:pad]
    L = ["colvar {", "  name %s" % name, "  width 0.5"] + extra + ([bad] if bad else []) + [
        "  distanceZ {", "    main {", "      atomNumbers %d" % atom, "    }", "    ref {", "      dummyAtom (0,0,0)", "    }", "    axis (0,0,1)", "  }", "}"]
    return "\n".join(L) + "\n"


def bias_block(cv, bad=None):
    L = ["harmonic {", "  name h%s" % cv, "  colvars %s" % cv, "  centers 0.25", "  forceConstant 4.0"] + ([bad] if bad else []) + ["}"]
    return "\n".join(L) + "\n"


def rejected_config(r, name, atom):
    """a configuration that the module refuses, at a random stage/depth; uses the given names only"""
    kind = r.choice(["global", "global-set-then-error", "colvar", "component", "group", "bias", "top", "brace", "value"])
    pad = r.randint(0, 8)
    if kind == "global":
        return kind, "colvarsTrajFrequency abc\n" + cv_block(name, atom, pad) + bias_block(name)
    if kind == "global-set-then-error":
        # module-level settings are made, THEN the configuration is refused
        return kind, "colvarsTrajFrequency 9\ncolvarsRestartFrequency 11\n" + cv_block(name, atom, pad) + bias_block(name, "  forceKonstant 1.0")
    if kind == "colvar":
        return kind, cv_block(name, atom, pad, "  wdth 0.5") + bias_block(name)
    if kind == "component":
        return kind, cv_block(name, atom, pad).replace("    axis (0,0,1)\n", "    axis (0,0,1)\n    fooBar 1\n") + bias_block(name)
    if kind == "group":
        return kind, cv_block(name, atom, pad).replace("      atomNumbers %d\n" % atom, "      atomNumbers %d\n      fooBar 2\n" % atom) + bias_block(name)
    if kind == "bias":
        return kind, cv_block(name, atom, pad) + bias_block(name, "  forceKonstant 1.0")
    if kind == "top":
        return kind, cv_block(name, atom, pad) + bias_block(name) + "colvarsRestartFrequenzy 50\n"
    if kind == "value":
        return kind, cv_block(name, atom, pad).replace("width 0.5", "width 0.5abc") + bias_block(name)
    return kind, cv_block(name, atom, pad) + bias_block(name).rstrip("}\n") + "\n"


def last_config(r):
    """the configuration whose verdict is examined: variable y, bias hy; valid or with a misspelt keyword somewhere"""
    pad = r.randint(0, 4)
    cvb, bb = cv_block("y", 2, pad), bias_block("y")
    kind = r.choice(["valid", "typo-start", "typo-between", "typo-end", "typo-end", "typo-in-bias", "typo-in-colvar", "bias-only-typo"])
    typo = r.choice(["colvarsRestartFrequenzy 50", "fooBar 1", "colvarTrajFrequency 5"])
    if kind == "valid":
        return kind, cvb + bb
    if kind == "typo-start":
        return kind, typo + "\n" + cvb + bb
    if kind == "typo-between":
        return kind, cvb + typo + "\n" + bb
    if kind == "typo-end":
        return kind, cvb + bb + typo + "\n"
    if kind == "typo-in-bias":
        return kind, cvb + bias_block("y", "  forceKonstant 1.0")
    if kind == "typo-in-colvar":
        return kind, cv_block("y", 2, pad, "  wdth 1.0") + bb
    return kind, cvb + bb + typo + "\n"


def gen_module_sequence(r):
    earlier, kinds = [], []
    for name, atom in [("x", 1), ("z", 3)][:r.randint(1, 2)]:
        k, c = rejected_config(r, name, atom)
        if r.random() < 0.2:
            k, c = "accepted", cv_block(name, atom, r.randint(0, 3)) + bias_block(name)
        earlier.append(c); kinds.append(k)
    lk, last = last_config(r)
    return earlier, last, "+".join(kinds) + " then " + lk


def stripped_len(t):
    return len(py_strip_comments(t.encode()))


def pad_to(t, n):
    """append blanks to the 'width 0.5' line (or the first line) until the comment-stripped length is n"""
    k = n - stripped_len(t)
    if k <= 0:
        return t
    i = t.find("width 0.5")
    i = i + len("width 0.5") if i >= 0 else t.find("\n")
    return t[:i] + " " * k + t[i:]


def gen_equal_length_sequence(r):
    """1-2 ACCEPTED configurations, then a last one of EQUAL comment-stripped length that has a module-level scalar
       keyword (or a whole block) where the earlier ones have something else"""
    glob = r.choice(["colvarsTrajFrequency 7", "colvarsRestartFrequency 30", "colvarsTrajFrequency 3\ncolvarsRestartFrequency 40", ""])
    where = r.choice(["start", "end", "between"])
    cvb, bb = cv_block("y", 2, r.randint(0, 3)), (bias_block("y") if r.random() < 0.7 else "")
    if not glob and not bb:
        bb = bias_block("y")
    last = (glob + "\n" + cvb + bb) if where == "start" else (cvb + bb + glob + "\n") if where == "end" else (cvb + glob + "\n" + bb)
    last = last.replace("\n\n", "\n")
    earlier = []
    for name, atom in [("x", 1), ("z", 3)][:r.randint(1, 2)]:
        e = cv_block(name, atom, r.randint(0, 6)) + (bias_block(name) if r.random() < 0.5 else "")
        earlier.append(e)
    n = max(stripped_len(t) for t in earlier + [last])
    earlier = [pad_to(t, n) for t in earlier]
    last = pad_to(last, n)
    return earlier, last, "equal-length accepted x%d then %s global(%s)" % (len(earlier), where, glob.replace("\n", "+") or "none")


# the situation of the seeded change C09_3: same stripped length, the later configuration has a module-level keyword
# (or a block) that the earlier one lacks at that place
_E1 = cv_block("x", 1, 2)
_L1 = cv_block("y", 2, 0) + "colvarsTrajFrequency 7\n"
_L2 = bias_block("x").replace("hx", "hy")
EQLEN_WITNESSES = [
    ([pad_to(_E1, max(stripped_len(_E1), stripped_len(_L1)))], pad_to(_L1, max(stripped_len(_E1), stripped_len(_L1))),
     "equal-length accepted then colvarsTrajFrequency at the end"),
    ([pad_to(_E1, max(stripped_len(_E1), stripped_len(_L2)))], pad_to(_L2, max(stripped_len(_E1), stripped_len(_L2))),
     "equal-length accepted colvar then bias block", [_E1]),
]

# the two situations of the seeded change C09_1, with other names for the last configuration
SEQ_WITNESSES = [
    ([cv_block("x", 1, 6, "  wdth 0.5") + bias_block("x") + "colvarsRestartFrequenzy 50\n"],
     cv_block("y", 2, 0) + bias_block("y") + "colvarsRestartFrequenzy 50\n", "colvar(long block) then typo-end"),
    ([cv_block("x", 1, 0) + bias_block("x", "  forceKonstant 1.0")], bias_block("x").replace("hx", "hy"), "bias then bias-only", [cv_block("x", 1, 0)]),
    ([cv_block("x", 1, 8, "  wdth 0.5") + bias_block("x")], cv_block("y", 2, 0) + "fooBar 1\n" + bias_block("y"), "colvar(long block) then typo-between"),
]


def dyad_positions(r, natoms):
    return ["pos %d %s %s %s" % (i + 1, V.hexf(V.dyadic(r, -3, 3) + i), V.hexf(V.dyadic(r, -3, 3)), V.hexf(V.dyadic(r, -3, 3) - i))
            for i in range(natoms)]


def suite_positions(repo):
    xs = []
    p = os.path.join(repo, "tests", "input_files", "trajectory.xyz")
    try:
        L = open(p).read().split("\n")
        n = int(L[0])
        for l in L[2:2 + n]:
            w = l.split()
            xs.append((float(w[1]), float(w[2]), float(w[3])))
    except Exception:
        pass
    return xs


def scenario(natoms, pos_lines, conf_bytes, nsteps=2):
    L = ["natoms %d" % natoms, "totalforces 1", "samestep 1"] + pos_lines + ["new", "show tf 0 af 1"]
    L.append("confighex %s" % G.hx(conf_bytes))
    for k in range(nsteps):
        L.append("step")
    return "\n".join(L) + "\n"


def run_scn(exe, d, name, text, timeout=60, env=None):
    p = os.path.join(d, name + ".scn")
    open(p, "w").write(text)
    rc, o, e = V.sh([exe, "scn", p], cwd=d, timeout=timeout, env=env)
    os.remove(p)
    return rc, o, e


def conf_status(o):
    m = re.search(r"^CONFIG err=(\S+)", o, flags=re.M)
    return m.group(1) if m else None


def observables(o):
    """what must be identical between layouts: everything printed from the CONFIG line on"""
    k = o.find("CONFIG ")
    return o[k:] if k >= 0 else o


NUMVAL_LINE = re.compile(rb"^(\s*)([A-Za-z_][A-Za-z0-9_]*)(\s+)([-+0-9.eE \t]+?)(\s*)$")
KEYLINE = re.compile(rb"^(\s*)([A-Za-z_][A-Za-z0-9_]*)(.*)$")
GLOBAL_KEYS = [b"colvarstrajfrequency", b"colvarsrestartfrequency", b"indexfile"]


def clean_lines(conf):
    return py_strip_comments(conf).split(b"\n")[:-1]


def depth_before(lines):
    d, out = 0, []
    for l in lines:
        out.append(d)
        d += l.count(b"{") - l.count(b"}")
    return out


def keyword_mutants(r, conf, n):
    """keyword-level mutations of a valid configuration; every one must be refused.  (kind, bytes, description)"""
    L = clean_lines(conf)
    dep = depth_before(L)
    out = []
    numeric = [i for i, l in enumerate(L) if NUMVAL_LINE.match(l) and all(is_number_text(t) for t in NUMVAL_LINE.match(l).group(4).split())]
    keyl = [i for i, l in enumerate(L) if KEYLINE.match(l)]
    tries = 0
    while len(out) < n and tries < 10 * n:
        tries += 1
        kind = r.choice(["misspelt", "wrong-block", "brace", "missing-value", "text-for-number", "text-for-number"])
        M = list(L)
        if kind == "misspelt" and keyl:
            i = r.choice(keyl)
            m = KEYLINE.match(M[i])
            kw = m.group(2)
            new = r.choice([kw + b"Q", kw[:1] + b"Z" + kw[1:], b"x" + kw, kw + b"_"])
            M[i] = m.group(1) + new + m.group(3)
            out.append((kind, b"\n".join(M) + b"\n", "line %d: keyword %s written %s" % (i + 1, kw.decode(), new.decode())))
        elif kind == "wrong-block":
            # a module-level keyword inside a variable's block, or a variable's numeric keyword at the module level
            top_blocks = [i for i, l in enumerate(L) if dep[i] == 0 and l.strip().lower().startswith(b"colvar") and l.rstrip().endswith(b"{")]
            inner = [i for i in numeric if dep[i] == 1 and KEYLINE.match(L[i]).group(2).lower() in (b"width", b"lowerboundary", b"upperboundary", b"forceconstant", b"centers")]
            if r.random() < 0.5 and top_blocks:
                i = r.choice(top_blocks)
                M.insert(i + 1, b"  colvarsTrajFrequency 1")
                out.append((kind, b"\n".join(M) + b"\n", "colvarsTrajFrequency placed inside the block that starts on line %d" % (i + 1)))
            elif inner:
                i = r.choice(inner)
                l = M.pop(i)
                M.insert(0, l.strip())
                out.append((kind, b"\n".join(M) + b"\n", "line %d (%s) moved to the module level" % (i + 1, l.strip().decode())))
        elif kind == "brace":
            idx = [i for i, l in enumerate(L) if b"{" in l or b"}" in l]
            if not idx:
                continue
            i = r.choice(idx)
            if r.random() < 0.6:
                ch = b"{" if b"{" in M[i] and r.random() < 0.5 else (b"}" if b"}" in M[i] else b"{")
                k = M[i].rfind(ch)
                M[i] = M[i][:k] + M[i][k + 1:]
                out.append((kind, b"\n".join(M) + b"\n", "line %d: a %s removed" % (i + 1, ch.decode())))
            else:
                ch = r.choice([b"{", b"}"])
                M[i] = M[i] + b" " + ch
                out.append((kind, b"\n".join(M) + b"\n", "line %d: a %s added" % (i + 1, ch.decode())))
        elif kind == "missing-value" and numeric:
            i = r.choice(numeric)
            m = NUMVAL_LINE.match(M[i])
            M[i] = m.group(1) + m.group(2) + r.choice([b"", b" ", b"\t "])
            out.append((kind, b"\n".join(M) + b"\n", "line %d: value of %s removed" % (i + 1, m.group(2).decode())))
        elif kind == "text-for-number" and numeric:
            i = r.choice(numeric)
            m = NUMVAL_LINE.match(M[i])
            toks = m.group(4).split()
            j = r.randrange(len(toks))
            how = r.choice(["replace", "suffix", "extra"])
            if how == "replace":
                toks[j] = r.choice([b"abc", b"x", b"1.2.3", b"--1", b"one"])
            elif how == "suffix":
                toks[j] = toks[j] + r.choice([b"abc", b"x", b"_", b"..", b"e"])
            else:
                toks.insert(j + 1, r.choice([b"abc", b"x", b"."]))
            M[i] = m.group(1) + m.group(2) + m.group(3) + b" ".join(toks)
            out.append((kind, b"\n".join(M) + b"\n", "line %d: value of %s written %s" % (i + 1, m.group(2).decode(), b" ".join(toks).decode())))
    return out


# ---- optional keywords of every block type, harvested from the code, misspelt by families
STATIC_FILES = {"global": ["colvarmodule.cpp"], "colvar": ["colvar.cpp"], "component": ["colvarcomp.cpp"],
                "group": ["colvaratoms.cpp"], "bias": ["colvarbias.cpp"]}
KW_CALL = re.compile(r'(?:get_keyval|key_lookup|get_keyval_feature)\s*\(\s*[^,()]*(?:\([^()]*\))?[^,()]*,\s*"(\w+)"')


def static_keywords(repo):
    """keywords that the sources look up, per source file (harvested from the get_keyval/key_lookup calls)"""
    out = {}
    for f in glob.glob(os.path.join(repo, "src", "*.cpp")):
        try:
            ks = set(KW_CALL.findall(open(f, errors="replace").read()))
        except OSError:
            ks = set()
        if ks:
            out[os.path.basename(f)] = ks
    return out


def harvest_keywords(log):
    """keywords echoed by the parser while it reads a valid configuration ("# keyword = value [default]"),
       per block type: global / colvar / component / group / bias:<type>"""
    H = {}
    lvl1 = "colvar"
    for line in log.split("\n"):
        if not line.startswith("colvars:"):
            continue
        txt = line[len("colvars:"):]
        if "Initializing a new collective variable" in txt:
            lvl1 = "colvar"
        m = re.search(r'Initializing a new "(\w+)" instance', txt)
        if m:
            lvl1 = "bias:" + m.group(1).lower()
        m = re.match(r"^( +)# (\w+) = ", txt)
        if m:
            level = (len(m.group(1)) - 1) // 2
            label = "global" if level == 0 else lvl1 if level == 1 else "component" if (level == 2 and lvl1 == "colvar") else "group"
            H.setdefault(label, set()).add(m.group(2))
    return H


def block_opens(L):
    """(line index, block type label, indentation) of every multi-line block of a configuration; index -1 = module level"""
    out = [(-1, "global", b"")]
    stack = []
    for i, l in enumerate(L):
        m = re.match(rb"^(\s*)([A-Za-z_][A-Za-z0-9_]*)\s*\{\s*$", l)
        if m:
            d = len(stack)
            kw = m.group(2).lower().decode()
            label = ("colvar" if kw == "colvar" else "bias:" + kw) if d == 0 else ("component" if (d == 1 and stack[0] == "colvar") else "group")
            out.append((i, label, m.group(1) + b"  "))
            stack.append(kw if d == 0 else label)
        else:
            for ch in l:
                if ch == 0x7b:
                    stack.append("?")
                elif ch == 0x7d and stack:
                    stack.pop()
    return out


def optional_keyword_mutants(r, conf, H, S, allkw, n, families=None):
    """an OPTIONAL keyword of the block's type (harvested), misspelt, on a line of its own inside that block: must be refused"""
    L = clean_lines(conf)
    opens = block_opens(L)
    out = []
    tries = 0
    while len(out) < n and tries < 20 * n:
        tries += 1
        i, label, ind = r.choice(opens)
        dyn = sorted(H.get(label, ()))
        base = label.split(":")[0]
        sta = sorted(set().union(*[S.get(f, set()) for f in STATIC_FILES.get(base, [])]))
        pool = dyn if (dyn and r.random() < 0.8) else (sta or dyn)
        if not pool:
            continue
        kw = r.choice(pool).encode()
        ms = G.misspell(r, kw, allkw, r.choice(families) if families else None)
        if not ms:
            continue
        fam, w = ms
        M = list(L)
        M.insert(i + 1, ind + w + b" 1")
        out.append(("misspelt-optional-" + fam, b"\n".join(M) + b"\n",
                    "optional keyword %s of a %s block written %s (line %d)" % (kw.decode(), label, w.decode(), i + 2)))
    return out


def layout_rewrite(r, conf):
    """a rewrite of the configuration that only uses the documented free aspects of the syntax; returns (bytes, [what])"""
    L = clean_lines(conf)
    what = set()
    out = []
    # brace-delimited leaf blocks: join the three-line form into one line / split the one-line form
    i = 0
    J = []
    while i < len(L):
        l = L[i]
        if (i + 2 < len(L) and l.rstrip().endswith(b"{") and b"{" not in L[i + 1] and b"}" not in L[i + 1]
                and L[i + 2].strip() == b"}" and len(L[i + 1].split()) >= 2 and r.random() < 0.5):
            J.append(l.rstrip() + b" " + L[i + 1].strip() + b" }")
            what.add("block-joined")
            i += 3
            continue
        m = re.match(rb"^(\s*)(\w+)\s*\{\s*([^{}]*?\S)\s*\}\s*$", l)
        if m and len(m.group(3).split()) >= 2 and r.random() < 0.5:
            J += [m.group(1) + m.group(2) + b" {", m.group(1) + b"  " + m.group(3), m.group(1) + b"}"]
            what.add("block-split")
            i += 1
            continue
        J.append(l)
        i += 1
    for l in J:
        m = KEYLINE.match(l)
        if m:
            ind, kw, rest = m.group(1), m.group(2), m.group(3)
            if r.random() < 0.5:
                kw = G.rcase(r, kw); what.add("keyword-case")
            if r.random() < 0.5:
                ind = G.rws(r, 6, True); what.add("indent")
            mv = re.match(rb"^(\s+)(\S.*?)(\s*)$", rest)
            if mv and b"{" not in rest and b"}" not in rest:
                sep, val = mv.group(1), mv.group(2)
                if r.random() < 0.5:
                    sep = G.rws(r, 5); what.add("blanks")
                low = val.lower()
                if val in (b"on", b"yes", b"true") and r.random() < 0.6:
                    if r.random() < 0.5:
                        val = r.choice([b"on", b"yes", b"true"]); what.add("boolean-synonym")
                    else:
                        val = b""; sep = b""; what.add("boolean-shorthand")
                elif val in (b"off", b"no", b"false") and r.random() < 0.6:
                    val = r.choice([b"off", b"no", b"false"]); what.add("boolean-synonym")
                rest = sep + val
            if r.random() < 0.3:
                rest = rest + G.rws(r, 3); what.add("trailing-blanks")
            l = ind + kw + rest
        if r.random() < 0.2:
            l = l + G.rws(r, 2, True) + b"# " + r.choice([b"a comment", b"width 3", b"}", b"{"]); what.add("comment")
        if r.random() < 0.12:
            out.append(G.rws(r, 3, True) + b"# " + r.choice([b"comment line", b"colvar {", b"}"])); what.add("comment-line")
        if r.random() < 0.12:
            out.append(G.rws(r, 3, True)); what.add("blank-line")
        out.append(l)
    eol = b"\r\n" if r.random() < 0.4 else b"\n"
    if eol == b"\r\n":
        what.add("crlf")
    s = eol.join(out) + (eol if r.random() < 0.85 else b"")
    return s, sorted(what)


def crash_site(exe, d, scn_text, stderr, env):
    """name of the function in which the process died: from the sanitizer report, else from gdb"""
    m = re.search(r"#0 0x[0-9a-f]+ in ([^\s(]+)", stderr or "")
    if m:
        return m.group(1)
    m = re.search(r"runtime error: ([^\n]*)", stderr or "")
    if m:
        return "ubsan:" + re.sub(r"[^A-Za-z0-9_:]+", "-", m.group(1))[:60]
    p = os.path.join(d, "gdb.scn")
    open(p, "w").write(scn_text)
    rc, o, e = V.sh(["gdb", "-batch", "-ex", "run", "-ex", "bt 3", "--args", exe, "scn", p], cwd=d, timeout=120, env=env)
    os.remove(p)
    m = re.search(r"#0\s+(?:0x[0-9a-f]+ in )?([^\s(]+)", o or "")
    return m.group(1) if m else "unknown-site"


# ---- the keywords that the init() of every real block kind looks up, recorded from the binary of this run
_CVX = "colvar {\n  name x\n  distanceZ {\n    main {\n      atomNumbers 1\n    }\n    ref {\n      dummyAtom (0,0,0)\n    }\n    axis (0,0,1)\n  }\n}\n"
_GRP = "group1 {\n  atomNumbers 1 2\n}\ngroup2 {\n  atomNumbers 3 4\n}\n"
RECORD = [
    ("global", "", "colvarsTrajFrequency 5\n"),
    ("colvar", "", "name x\nwidth 0.5\ndistanceZ {\n  main {\n    atomNumbers 1\n  }\n  ref {\n    dummyAtom (0,0,0)\n  }\n}\n"),
    ("cvc:distance", "", _GRP),
    ("cvc:distancez", "", "main {\n  atomNumbers 1\n}\nref {\n  dummyAtom (0,0,0)\n}\naxis (0,0,1)\n"),
    ("cvc:distancevec", "", _GRP),
    ("group", "", "atomNumbers 1 2\n"),
    ("bias:harmonic", _CVX, "colvars x\ncenters 0.5\nforceConstant 2.0\n"),
    ("bias:harmonicwalls", _CVX, "colvars x\nlowerWalls 0.5\nupperWalls 1.5\nforceConstant 2.0\n"),
    ("bias:linear", _CVX, "colvars x\ncenters 0.5\nforceConstant 2.0\n"),
    ("bias:histogram", _CVX.replace("  distanceZ", "  lowerBoundary 0.0\n  upperBoundary 4.0\n  width 0.5\n  distanceZ"), "colvars x\n"),
    ("bias:metadynamics", _CVX.replace("  distanceZ", "  lowerBoundary 0.0\n  upperBoundary 4.0\n  width 0.5\n  distanceZ"), "colvars x\nhillWeight 0.01\nhillWidth 1.0\n"),
    ("bias:abf", _CVX.replace("  distanceZ", "  lowerBoundary 0.0\n  upperBoundary 4.0\n  width 0.5\n  distanceZ"), "colvars x\nfullSamples 10\n"),
]


def record_keywords(unit):
    """{kind: sorted list of keywords (bytes)} looked up by init() of the real objects"""
    lines = ["HK %s %s %s" % (k, G.hx(pre), G.hx(conf)) for k, pre, conf in RECORD]
    rc, o, e = V.run_lines(unit, lines, cwd=V.scratch("C09rec"), timeout=300)
    tbl = {}
    for (k, _, _), l in zip(RECORD, o):
        w = l.split("|")[0].split()
        if w and w[0] in ("init-ok", "init-error"):
            tbl[k] = sorted(set(G.unhx(x) for x in w[1:]))
            ECHOED[k] = sorted(set(G.unhx(x) for x in l.split("|")[1].split())) if "|" in l else []
    return tbl


ECHOED = {}


def write_gen(tbl):
    os.makedirs(os.path.join(V.COQ, "Gen"), exist_ok=True)
    def lst(b):
        return "[" + "; ".join(str(c) for c in b) + "]"
    body = ("(* GENERATED by props/C09/check.py: for every kind of real object, the keywords its init() looks up, recorded from the\n"
            "   freshly built binary (allowed_keywords after init(), before check_keywords); do not edit *)\n"
            "From Coq Require Import ZArith List. Import ListNotations. Local Open Scope Z_scope.\n"
            "Definition real_keywords : list (list Z * list (list Z)) := [\n  "
            + ";\n  ".join("(%s (* %s *),\n   [%s])" % (lst(k.encode()), k, ";\n    ".join(lst(kw) for kw in kws)) for k, kws in sorted(tbl.items()))
            + "].\n")
    p = os.path.join(V.COQ, "Gen", "GenC09Keywords.v")
    if not os.path.exists(p) or open(p).read() != body:
        open(p, "w").write(body)


def presetup():
    unit = V.build_prog("c09unit", UNIT["c09unit"])
    write_gen(record_keywords(unit))


def setup():
    V.extract_model("C09", EXTRACT, DRIVER, [])
    V.build_prog("c09unit", UNIT["c09unit"])


def check(run):
    r = V.rng("C09")
    quick = run.tier == "quick"
    run.cov["rule"] = ("unit cases (strings hex encoded): check_braces on brace-heavy strings; key_lookup on a structured mostly-valid stream "
                       "(keyword lines with numbers / words / one-line and multi-line brace blocks, keyword case changed, prefixes and suffixes of keywords, "
                       "the 87 configurations of /repo/tests/input_files and byte mutations of them) and on a separate malformed byte stream; "
                       "read_config_string's comment/CR stripping; a generic client (get_keyval of real/int/bool/string/list/fixed list + key_lookup loop for blocks, "
                       "then check_keywords) on 2-6 keyword schemas with valid, unknown-keyword, misspelt, bad-value, missing-value, repeated, stray-brace and byte-mutated "
                       "configurations; split_string.  Whole module (engine simulator): keyword-level mutants and layout rewrites of 4 templates and of the test-suite "
                       "configurations that run in the simulator.  distinct = distinct case text; non-trivial = keyword found / configuration accepted or a tagged mutant / rewrite with >= 2 aspects")
    run.assumptions += [
        "what operator>> consumes for double/int (libstdc++ num_get in the C locale, strtod overflow) is modelled by hand in ParseModel.v and tied by the unit cases; other value types (3-vectors, quaternions, colvarvalue) are not modelled",
        "keywords are program constants: theorems about key_lookup assume a non-empty keyword without LF, blank, tab or '}' (good_key); the tie uses such keywords only",
        "crash- and hang-freedom of the C++ parser is explored (timeouts, ASan/UBSan build in the thorough tier), not proved",
    ]
    # the keyword table of the real blocks is regenerated from the binary before the theorems about it are checked
    try:
        presetup()
    except V.InfraError as ex:
        if "compilation of /repo failed" in str(ex):
            raise
        run.violation("tie:harness-build", "the harness no longer builds against the tree: %s" % str(ex)[-800:], {"kind": "harness-build"}, found_input=False)
        return
    st = V.standard_start(run, PROP, EXTRACT, DRIVER, UNIT, extra_ml=())
    if st is None:
        return
    model, exes = st
    unit = exes["c09unit"]
    tc = G.test_configs(V.REPO)

    # ------------------------------------------------------------ 1. unit tie + oracles on the implementation
    cases = []
    cp = os.path.join(V.ROOT, "corpus", "C09_unit.txt")
    if os.path.exists(cp):
        for l in open(cp):
            l = l.strip()
            if l and not l.startswith("#"):
                if l.split()[0] in ("KV", "IX"):
                    cases.append((l, {"kind": l.split()[0], "tag": "corpus", "calls": [("s", b"width")], "groups": [], "text": b""}))
                    continue
                if l.split()[0] in ("PS", "MS"):
                    cases.append((l, {"kind": l.split()[0], "tags": ["corpus"], "schema": l.split()[2], "confs": [G.unhx(x) for x in l.split()[3].split("|")]}))
                    continue
                cases.append((l, {"kind": l.split()[0], "stream": "corpus", "tag": "corpus", "schema": l.split()[2] if l.split()[0] in ("PF", "PC") else "",
                                  "conf": G.unhx(l.split()[3]) if l.split()[0] == "PF" else b"", "raw": G.unhx(l.split()[1]) if l.split()[0] == "SC" else b"",
                                  "data": b"", "delim": b""}))
    ncorpus = len(cases)
    cases += gen_unit_cases(r, 2500 if quick else 60000, tc)
    # text after a complete value, for EVERY value kind and family (deterministic coverage, every run)
    for sch, cconf, kd, fam, must in G.gen_trailing_cases(r):
        cases.append(("PF 1 %s %s" % (sch, G.hx(cconf)), {"kind": "PF", "tag": "trailing:" + fam, "schema": sch, "conf": cconf, "vkind": kd, "must_reject": must}))
    lines = [c for c, _ in cases]
    rc1, impl, e1 = V.run_lines(unit, lines, timeout=900, cwd=V.scratch("C09unit"))
    rc2, mod, e2 = V.run_lines(model, lines, timeout=1800)
    if len(impl) != len(lines):
        k = len(impl)
        run.violation("crash:unit", "the C09 unit driver died (rc=%d) on case %d: %s   stderr: %s" % (rc1, k, lines[k] if k < len(lines) else "?", e1[-300:]),
                      {"kind": "unit", "case": lines[k] if k < len(lines) else None})
        return
    if len(mod) != len(lines):
        raise V.InfraError("model driver answered %d of %d cases: %s" % (len(mod), len(lines), e2[-300:]))
    nsample = 0
    for (c, meta), io, mo in zip(cases, impl, mod):
        kind = meta["kind"]
        w = c.split()
        nontriv = True
        if kind == "KL":
            nontriv = io.startswith("found") or io.startswith("error")
            run.dist("unit:KL:" + meta.get("stream", "?").split(":")[0])
        elif kind in ("IX", "TL", "CA", "KM", "KV"):
            nontriv = kind != "CA"
            run.dist("unit:%s%s" % (kind, (":" + meta["tag"] + ":" + io.split()[0]) if kind == "IX" else ""))
        elif kind == "KS":
            nontriv = "found" in io
            run.dist("unit:KS:%d:%s" % (len(meta["calls"]), "equal-length" if len(set(len(c) for c, _ in meta["calls"])) == 1 else "any"))
        elif kind in ("MS", "PS"):
            nontriv = "reject" in io and "accept" in io
            run.dist("unit:%s:%s" % (kind, len(meta["confs"])))
        elif kind in ("PF", "PC", "NP"):
            nontriv = io.startswith("accept") or meta.get("tag") not in ("valid", "bytes", "corpus")
            run.dist("unit:%s:%s:%s" % (kind, meta.get("tag"), io.split()[0]))
        else:
            run.dist("unit:" + kind)
        run.count(c, nontriv)
        if io == "anomaly":
            run.violation("crash:exception", "an exception escaped the parser on %s" % c, {"kind": "unit", "case": c, "impl": io})
        # property oracles on the implementation alone
        bad = None
        if kind == "CB":
            s = G.unhx(w[1])[int(w[2]):]
            dd, okn = 0, True
            for ch in s:
                dd += (ch == 0x7b) - (ch == 0x7d)
                okn = okn and dd >= 0
            if (okn and dd == 0) != (io == "ok"):
                bad = ("braces:nesting", "check_braces(%r, %s) = %s" % (G.unhx(w[1]), w[2], io))
        elif kind == "SC" and "raw" in meta and c.split()[0] == "SC":
            if G.hx(py_strip_comments(G.unhx(w[1]))) != io:
                bad = ("layout:comments", "read_config_string turns %r into %r" % (G.unhx(w[1]), G.unhx(io)))
        elif kind == "SS" and w[0] == "SS":
            d, dl = G.unhx(w[1]), G.unhx(w[2])
            if len(dl) == 1:
                exp = "[" + ",".join(G.hx(x) for x in d.split(dl) if x) + "]"
                if exp != io:
                    bad = ("split_string", "split_string(%r, %r) = %s" % (d, dl, io))
        elif kind == "KL" and "expect" in meta:
            exp = "found %s" % G.hx(meta["expect"])
            if not io.startswith(exp + " "):
                bad = ("layout:key_lookup", "key_lookup of %r in %r gives %s, the value written is %r" % (G.unhx(w[2]), G.unhx(w[1]), io, meta["expect"]))
        elif kind in ("PF", "PC") and meta.get("tag") != "corpus":
            bad = flat_oracle(meta, io) or value_oracle(meta, io)
        elif kind == "IX":
            if meta["tag"] == "valid":
                exp = "ok " + ";".join("%s=%s" % (G.hx(g), ",".join(map(str, ns))) for g, ns in meta["groups"])
                if io.strip() != exp.strip():
                    bad = ("index:valid-file-misread", "the index file %r is read as %s, it defines %s" % (meta["text"], io, meta["groups"]))
            elif meta["tag"] in ("text-for-number", "zero", "negative", "glued-header", "no-bracket", "redefined") and io.startswith("ok"):
                bad = ("strict:index:%s-accepted" % meta["tag"], "the index file %r (%s) is accepted: %s" % (meta["text"], meta["tag"], io))
        elif kind == "KV":
            # a required keyword missing from the text of the FIRST call on a fresh object must be an error
            outs = io.split(";")
            m0, t0 = meta["calls"][0]
            if m0 in "rq" and not t0.startswith(b"width") and len(outs) and outs[0].split("/")[1] != "1":
                bad = ("strict:required-keyword-missing-accepted", "get_keyval with parse_required on a fresh parser object, keyword absent: no error (%s)" % outs[0])
        elif kind == "TL":
            exp = bytes((c + 32) if 65 <= c <= 90 else c for c in meta["text"])
            if G.hx(exp) != io:
                bad = ("to_lower", "to_lower_cppstr(%r) = %r" % (meta["text"], G.unhx(io)))
        elif kind == "CA" and io != "ok":
            bad = ("check_ascii", "check_ascii fails")
        elif kind == "KS":
            # every lookup of the sequence == the same lookup by a fresh parser object (asked from the implementation)
            _, alone, _ = V.run_lines(unit, ["KL %s %s 0" % (G.hx(c), G.hx(k)) for c, k in meta["calls"]])
            if io.split(";") != alone:
                k = next(i for i, (x, y) in enumerate(zip(io.split(";"), alone)) if x != y) if len(io.split(";")) == len(alone) else 0
                bad = ("sequence:lookup-depends-on-history", "key_lookup of %r in %r on a parser object that looked up other texts before gives %r, a fresh object gives %r" % (
                    meta["calls"][k][1], meta["calls"][k][0], io.split(";")[k] if k < len(io.split(";")) else "?", alone[k]))
        elif kind == "MS":
            # verdict on configuration k == verdict of a fresh parser on it alone (asked from the implementation)
            _, alone, _ = V.run_lines(unit, ["NP 1 %s %s" % (meta["schema"], G.hx(c)) for c in meta["confs"]])
            if io.split()[:-1] != alone:
                bad = ("sequence:verdict-depends-on-history", "verdicts %s of a sequence of configurations on one parser object differ from the verdicts %s of fresh parsers (%s)" % (
                    io.split()[:-1], alone, meta["tags"]))
            elif not io.endswith(" empty"):
                bad = ("sequence:registry-not-empty", "the parser object's registry is not empty after a sequence of read_config_string calls (%s)" % meta["tags"])
        elif kind == "NP":
            if meta["tag"] in ("misspelt", "wrong-level", "unknown-keyword", "brace", "junk-after-brace", "junk-before-brace", "trailing-text") and io == "accept":
                bad = ("strict:nested:%s-accepted" % meta["tag"], "a nested configuration with a %s mutation is accepted: %r" % (meta["tag"], meta["conf"]))
            elif meta["tag"] == "valid" and io != "accept":
                bad = ("layout:nested:valid-refused", "a valid nested configuration (random layout) is refused: %r" % meta["conf"])
        if bad:
            run.violation(bad[0], bad[1], {"kind": "unit", "case": c, "impl": io, "model": mo})
        if io != mo:
            comp = "unit:" + {"KL": "key_lookup", "CB": "braces", "SC": "comments", "SS": "split_string", "PF": "strict:flat", "PC": "strict:flat", "NP": "strict:nested", "MS": "strict:sequence", "PS": "strict:sequence", "KS": "sequence", "IX": "strict:index", "KM": "key_lookup", "KV": "strict:modes"}.get(kind, kind)
            if kind in ("PF", "PC"):
                # is it the pinned (lenient) value rule?  then the repaired defect is back: name it
                rcl, ml, _ = V.run_lines(model, [c.replace(kind + " 1 ", kind + " 0 ", 1)])
                if ml and ml[0] == io:
                    comp = "unit:strict:pinned-lenient-rule"
            run.mismatch(comp, c, io, mo)
        if nsample < 4 and nontriv and kind in ("KL", "PF"):
            nsample += 1
            run.sample({"unit_case": c, "decoded": [G.unhx(x).decode("latin1") if re.fullmatch(r"[0-9a-f]+", x) and len(x) % 2 == 0 and len(x) > 2 else x for x in w[1:]],
                        "impl": io, "model": mo})

    # witnesses: repaired defects must stay repaired; the _refuted theorems are replayed
    wl = [c for _, c, _, _ in WITNESS_CASES]
    _, wi, _ = V.run_lines(unit, wl)
    _, wm, _ = V.run_lines(model, wl)
    for (sig, c, want, text), io, mo in zip(WITNESS_CASES, wi, wm):
        run.count(c, True)
        if not io.startswith(want):
            run.violation(sig, text + " [witness of C09_pinned_scalar_rule_refuted / C09_pinned_vector_rules_refuted / C09_bool_value_strict]", {"kind": "unit", "case": c, "impl": io, "model": mo})
        if io != mo:
            run.mismatch("unit:strict:pinned-lenient-rule", c, io, mo)
    il = [c for c, _, _ in ISOLATION_WITNESSES]
    _, ii, _ = V.run_lines(unit, il)
    _, im, _ = V.run_lines(model, il)
    for (c, expected, text), io, mo in zip(ISOLATION_WITNESSES, ii, im):
        run.count(c, True)
        if not io.startswith(expected):
            run.violation("key_lookup:end-of-string-isolation", text + " [witness of C09_pinned_right_isolation_refuted]", {"kind": "unit", "case": c, "impl": io, "model": mo})
        if io != mo:
            run.mismatch("unit:key_lookup", c, io, mo)
    run.cov["correspondence"]["unit_cases"] = len(lines)
    run.cov["correspondence"]["corpus_cases"] = ncorpus

    # ------------------------------------------------------------ 1b. every real block: check_keywords accepts exactly
    # the keywords its init() looked up (table recorded from the binary, also the subject of GenC09_real_blocks_keywords)
    tbl = record_keywords(unit)
    allk = set(k for ks in tbl.values() for k in ks)
    hc, hmeta = [], []
    for kind, pre, conf in RECORD:
        ks = tbl.get(kind, [])
        if not ks:
            run.mismatch("module:recorded-keywords", {"kind": kind}, "none", "some")
            continue
        acc = ks if not quick else r.sample(ks, min(8, len(ks)))
        rej = []
        for _ in range(len(ks) * 2 if not quick else 12):
            src = r.choice(ks)
            ms = G.misspell(r, src, set(ks)) if r.random() < 0.7 else None
            wd = ms[1] if ms else r.choice(sorted(allk - set(ks)) or [b"foobar"])
            if wd.lower() not in ks:
                rej.append((wd, ms[0] if ms else "other-block"))
        for wd in acc:
            hc.append("HC %s %s %s %s" % (kind, G.hx(pre), G.hx(conf), G.hx(G.rcase(r, wd))))
            hmeta.append((kind, wd, True, "recorded"))
        for wd, fam in rej:
            hc.append("HC %s %s %s %s" % (kind, G.hx(pre), G.hx(conf), G.hx(wd)))
            hmeta.append((kind, wd, False, fam))
    rch, hio, _ = V.run_lines(unit, hc, cwd=V.scratch("C09hc"), timeout=600)
    _, hmo, _ = V.run_lines(model, ["CW %s %s" % (",".join(G.hx(k) for k in tbl[kd]), c.split()[4]) for (kd, _, _, _), c in zip(hmeta, hc)])
    if len(hio) != len(hc):
        run.violation("crash:unit", "the unit driver died while running check_keywords of a real %s block" % (hmeta[len(hio)][0] if len(hio) < len(hmeta) else "?"),
                      {"kind": "unit", "case": hc[len(hio)] if len(hio) < len(hc) else None})
    for (kd, wd, want, fam), c, io_, mo_ in zip(hmeta, hc, hio, hmo):
        run.count(c, True)
        run.dist("block:%s:%s" % (kd, "recorded" if want else fam))
        if (io_ == "accept") != want:
            run.violation("strict:block:%s" % ("looked-up-keyword-refused" if want else "keyword-%s-accepted" % fam),
                          "check_keywords of a real %s block %s the word %r (%s); its init() looks up %d keywords" % (
                              kd, "refuses" if want else "accepts", wd, "one of them" if want else fam + ", not one of them", len(tbl[kd])),
                          {"kind": "unit", "case": c, "impl": io_, "model": mo_})
        if io_ != mo_:
            run.mismatch("strict:block", c, io_, mo_)
    run.cov["correspondence"]["recorded_keywords"] = {k: len(v) for k, v in sorted(tbl.items())}

    # ------------------------------------------------------------ 2. whole module: mutants and layout rewrites
    d = V.scratch("C09")
    for f in glob.glob(os.path.join(V.REPO, "tests", "input_files", "*.*")):
        if os.path.getsize(f) < 4000000:
            shutil.copy(f, d)
    bases = []
    for name, natoms, conf in TEMPLATES:
        bases.append((name, natoms, dyad_positions(r, natoms), conf.encode()))
    xyz = suite_positions(V.REPO)
    if xyz:
        spos = ["pos %d %s %s %s" % (i + 1, V.hexf(x), V.hexf(y), V.hexf(z)) for i, (x, y, z) in enumerate(xyz)]
        pick = list(tc)
        r.shuffle(pick)
        for name, c in pick[:(6 if quick else len(pick))]:
            bases.append(("suite:" + name, len(xyz), spos, c))
    nm = 5 if quick else 40
    nl = 3 if quick else 25
    nopt = 6 if quick else 60
    S_KW = static_keywords(V.REPO)
    allkw = set(k.lower().encode() for ks in S_KW.values() for k in ks)
    HARVEST = {}
    usable = 0
    for name, natoms, pos, conf in bases:
        rc, o, e = run_scn(unit, d, "base", scenario(natoms, pos, conf))
        stt = conf_status(o)
        if rc != 0 or stt != "ok":
            # not runnable in the simulator (needs Lepton, Torch, files ...): not a base, not a verdict
            run.dist("module:base-unusable")
            if rc < 0 or rc == 124:
                run.violation("crash:module", "read_config_string %s on the unchanged configuration %s" % ("timed out" if rc == 124 else "died with signal %d" % -rc, name),
                              {"kind": "module", "natoms": natoms, "positions": pos, "config": conf.decode("latin1")})
            continue
        steps_ok = all("err=ok" in l for l in o.split("\n") if l.startswith("STEP"))
        if not steps_ok:
            run.dist("module:base-unusable")
            continue
        usable += 1
        base_obs = observables(o)
        run.dist("module:base")
        # harvest the keywords this configuration's blocks look up (echoed by the parser), then misspell optional ones
        rch, och, ech = run_scn(unit, d, "harv", scenario(natoms, pos, conf, 0).replace("new\n", "new\nquiet 0\n", 1))
        H = harvest_keywords(ech or "")
        for lab, ks in H.items():
            HARVEST.setdefault(lab, set()).update(ks)
            allkw.update(k.lower().encode() for k in ks)
        opt = optional_keyword_mutants(r, conf, H, S_KW, allkw, nopt)
        for kind, mconf, descr in keyword_mutants(r, conf, nm) + opt:
            rc, o2, e2 = run_scn(unit, d, "mut", scenario(natoms, pos, mconf, 1))
            s2 = conf_status(o2)
            run.count("mut:" + name + ":" + descr, True)
            run.dist("module:mutant:" + kind)
            rp = {"kind": "module", "natoms": natoms, "positions": pos, "config": mconf.decode("latin1"), "base": name, "mutation": descr}
            if rc < 0 or rc == 124:
                site = "hang" if rc == 124 else crash_site(unit, d, scenario(natoms, pos, mconf, 1), e2, None)
                run.violation("crash:" + site, "the parser %s on a %s mutant of %s (%s) in %s" % (
                    "timed out" if rc == 124 else "died with signal %d" % -rc, kind, name, descr, site), rp)
            elif s2 == "ok":
                sig = "strict:module:%s-accepted" % kind
                if kind.startswith("misspelt-optional-"):
                    sig = "strict:module:keyword-%s-accepted" % kind[len("misspelt-optional-"):]
                if kind == "text-for-number":
                    sig = "strict:scalar:text-after-number" if " written " in descr else sig
                run.violation(sig, "mutant of %s accepted without error: %s" % (name, descr), rp)
        for k in range(nl):
            lconf, what = layout_rewrite(r, conf)
            rc, o2, e2 = run_scn(unit, d, "lay", scenario(natoms, pos, lconf))
            run.count("lay:" + name + ":" + str(k), len(what) >= 2)
            for wname in what:
                run.dist("module:layout:" + wname)
            rp = {"kind": "module", "natoms": natoms, "positions": pos, "config": lconf.decode("latin1"), "base": name,
                  "base_config": conf.decode("latin1"), "rewrites": what}
            if rc < 0 or rc == 124:
                run.violation("crash:module", "the parser %s on a layout rewrite of %s" % ("timed out" if rc == 124 else "died with signal %d" % -rc, name), rp)
            elif observables(o2) != base_obs:
                a, b = base_obs.split("\n"), observables(o2).split("\n")
                first = next((i for i in range(min(len(a), len(b))) if a[i] != b[i]), min(len(a), len(b)))
                run.violation("layout:module:" + "+".join(what[:3]), "a layout rewrite (%s) of %s changes the result: %r instead of %r" % (
                    ", ".join(what), name, b[first] if first < len(b) else "<end>", a[first] if first < len(a) else "<end>"), rp)
        if usable == 1:
            run.sample({"module_base": name, "config": conf.decode("latin1").split("\n")[:12], "observables": base_obs.split("\n")[:6]})
    # two independent records of what a block looks up must agree: every keyword the parser ECHOES while the real init()
    # of a block reads its text ("# keyword = value") must be among the keywords that init() REGISTERS for check_keywords
    for lab in sorted(tbl):
        reg = set(tbl[lab])
        for k in ECHOED.get(lab, []):
            run.count("echo:%s:%s" % (lab, k.decode("latin1")), True)
            if k.lower() not in reg:
                run.violation("strict:block:looked-up-keyword-not-registered",
                              "the keyword %s is read (echoed) by the init() of a real %s block but is not among the keywords it registers for check_keywords: a configuration that uses it is refused" % (k.decode("latin1"), lab),
                              {"kind": "unit", "case": "HK %s" % lab, "impl": k.decode("latin1"), "model": sorted(x.decode() for x in reg)})
    run.cov["correspondence"]["module_bases_usable"] = usable
    run.cov["correspondence"]["harvested_keywords"] = {k: len(v) for k, v in sorted(HARVEST.items())}
    # sequences of configurations sent to ONE module instance: the verdict on the last one and the objects it creates
    # must be those of a fresh module given only that configuration (earlier ones use other names)
    nseq = 30 if quick else 400
    seqs = list(SEQ_WITNESSES) + [gen_module_sequence(r) for _ in range(nseq)] + \
           list(EQLEN_WITNESSES) + [gen_equal_length_sequence(r) for _ in range(10 if quick else 150)]
    for sq in seqs:
        earlier, last, descr = sq[0], sq[1], sq[2]
        fresh_prefix = sq[3] if len(sq) > 3 else []
        head = ["natoms 4", "totalforces 1"] + ["pos %d %d %d %d" % (i + 1, i, 2 * i, 3 * i + 1) for i in range(4)] + ["new", "show tf 0 af 0"]
        Ls = head + ["confighex %s" % G.hx(c.encode()) for c in earlier] + ["echo LAST", "quiet 0", "confighex %s" % G.hx(last.encode()), "quiet 1", "step"]
        Lf = head + ["confighex %s" % G.hx(c.encode()) for c in fresh_prefix] + ["echo LAST", "quiet 0", "confighex %s" % G.hx(last.encode()), "quiet 1", "step"]
        rcs, os_, es = run_scn(unit, d, "seq", "\n".join(Ls) + "\n")
        rcf, of, ef = run_scn(unit, d, "seqf", "\n".join(Lf) + "\n")
        run.count("seq:" + descr + ":" + G.hx(last.encode())[:24], True)
        run.dist("module:sequence:%d" % (len(earlier) + 1))
        rp = {"kind": "sequence", "scenario": "\n".join(Ls) + "\n", "fresh_scenario": "\n".join(Lf) + "\n", "what": descr,
              "configs": list(earlier) + [last]}
        if rcs != 0 or "STEP" not in os_:
            site = "hang" if rcs == 124 else crash_site(unit, d, "\n".join(Ls) + "\n", es, None)
            run.violation("sequence:crash:" + site, "the process died (rc=%d) on a sequence of configurations sent to one module instance (%s) in %s" % (rcs, descr, site), rp)
            continue
        def last_part(o):
            o = o.split("echo LAST", 1)[-1]
            st = conf_status(o)
            m0 = re.search(r"CONFIG err=\S+ ncv=(\d+) nbias=(\d+)", o)
            objs = sorted(l for l in o.split("\n") if l.startswith("CV y ") or l.startswith("BIAS hy "))
            return st, (int(m0.group(1)), int(m0.group(2))) if m0 else None, objs
        def before(o):
            ms = re.findall(r"CONFIG err=\S+ ncv=(\d+) nbias=(\d+)", o.split("echo LAST", 1)[0])
            return (int(ms[-1][0]), int(ms[-1][1])) if ms else (0, 0)
        sts, ns, objs_s = last_part(os_)
        stf, nf, objs_f = last_part(of)
        b = before(os_)
        bf = before(of)
        if nf:
            nf = (nf[0] - bf[0], nf[1] - bf[1])
        def effects(e):
            # module-level settings that the configuration sets explicitly, as the parser echoes them ("# keyword = value")
            return sorted(l for l in (e or "").split("\n") if re.match(r"^colvars: # \w+ = ", l) and not l.rstrip().endswith("[default]"))
        eff_s, eff_f = effects(es), effects(ef)
        if sts == stf and eff_s != eff_f:
            run.violation("sequence:effect-depends-on-history", "the module-level settings made by the last configuration of a sequence (%s) are %s in a module that saw the earlier ones and %s in a fresh module" % (
                descr, eff_s, eff_f), rp)
        if "equal-length" in descr and sts == "ok":
            # layout: one more blank in the last configuration must not change verdict, settings or objects
            k = last.find(" ")
            last2 = last[:k] + " " + last[k:]
            L2 = head + ["confighex %s" % G.hx(c.encode()) for c in earlier] + ["echo LAST", "quiet 0", "confighex %s" % G.hx(last2.encode()), "quiet 1", "step"]
            rc2, o2, e2 = run_scn(unit, d, "seq2", "\n".join(L2) + "\n")
            st2, n2, objs2 = last_part(o2) if "STEP" in o2 else (None, None, None)
            if (st2, n2, objs2, effects(e2)) != (sts, ns, objs_s, eff_s):
                run.violation("layout:sequence:one-more-blank", "one more blank in the last configuration of a sequence (%s) changes the result: %s / %s instead of %s / %s" % (
                    descr, st2, effects(e2), sts, eff_s), dict(rp, scenario_with_blank="\n".join(L2) + "\n"))
        if sts != stf:
            run.violation("sequence:verdict-depends-on-history", "the last configuration of a sequence (%s) is %s by a module that saw the earlier ones and %s by a fresh module" % (
                descr, "accepted" if sts == "ok" else "refused (%s)" % sts, "accepted" if stf == "ok" else "refused (%s)" % stf), rp)
        elif ns and nf and (ns[0] - b[0], ns[1] - b[1]) != nf or objs_s != objs_f:
            run.violation("sequence:objects-depend-on-history", "the objects created by the last configuration of a sequence (%s) differ from those of a fresh module: %s/%s vs %s/%s" % (
                descr, ns, objs_s[:2], nf, objs_f[:2]), rp)
    # whole-module witnesses of the repaired defects
    open(os.path.join(d, "c09_good.ndx"), "w").write("[ g ]\n 1 2\n[ other ] 3 4\n")
    open(os.path.join(d, "c09_bad.ndx"), "w").write("[ g ] 1 2 x 3\n[ other ] 3 4\n")
    # the same configuration through a file (configfile) and as a string must give the same result
    for name, natoms, conf in TEMPLATES:
        pos = ["pos %d %d %d %d" % (i + 1, i, 2 * i, 3 * i + 1) for i in range(natoms)]
        open(os.path.join(d, "c09_conf.in"), "w").write(conf)
        rc1_, o1_, _ = run_scn(unit, d, "cfs", scenario(natoms, pos, conf.encode()))
        rc2_, o2_, _ = run_scn(unit, d, "cff", scenario(natoms, pos, conf.encode()).replace("confighex %s" % G.hx(conf.encode()), "configfile c09_conf.in"))
        run.count("configfile:" + name, True)
        rc3_, o3_, _ = run_scn(unit, d, "cfc", scenario(natoms, pos, conf.encode()).replace("confighex %s" % G.hx(conf.encode()), "script cv configfile c09_conf.in"))
        steps = lambda o: [l for l in o.split("\n") if l.split()[:1] and l.split()[0] in ("STEP", "ENERGY", "CV", "BIAS", "ATOMF")]
        if rc3_ != 0 or steps(o3_) != steps(o1_):
            run.violation("layout:module:script-configfile-differs", "the configuration %s read through the script command `cv configfile` gives another result than the same text as a string" % name,
                          {"kind": "module", "natoms": natoms, "positions": pos, "config": conf})
        if observables(o1_) != observables(o2_) or rc2_ != 0:
            run.violation("layout:module:configfile-differs", "the configuration %s read from a file (configfile) gives another result than the same text as a string" % name,
                          {"kind": "module", "natoms": natoms, "positions": pos, "config": conf})
    for sig, natoms, conf, must_accept, text in MODULE_WITNESSES:
        pos = ["pos %d %d %d %d" % (i + 1, i, 2 * i, 3 * i + 1) for i in range(natoms)]
        rc, o2, e2 = run_scn(unit, d, "wit", scenario(natoms, pos, conf.encode(), 1))
        s2 = conf_status(o2)
        run.count("witness:" + text, True)
        run.dist("module:witness")
        rp = {"kind": "module", "natoms": natoms, "positions": pos, "config": conf}
        if rc < 0 or rc == 124 or s2 is None:
            run.violation(sig if sig.startswith("crash") else "crash:module", "the parser %s on: %s" % ("timed out" if rc == 124 else "crashed (rc=%d)" % rc, text), rp)
        elif must_accept and s2 != "ok":
            run.mismatch("module:reference-configuration", {"config": conf}, s2, "ok")
        elif not must_accept and s2 == "ok":
            run.violation(sig, text, rp)
    # non-nested braces and other whole-string cases that must be refused by the module
    for txt in [b"smp }\ncolvar {\n", b"smp }\ncolvar {\n  colvarsTrajFrequency 5\n", b"}{\n", b"colvar }\n  name x\n{\n", b"}\ncolvar {\n name x\n", b"colvar {\n name x\n}\n}{\n", b"{\n}\n", b"{}\n"]:
        rc, o2, e2 = run_scn(unit, d, "nest", scenario(1, ["pos 1 0 0 0"], txt, 0))
        run.count("nest:" + txt.decode(), True)
        if conf_status(o2) == "ok":
            run.violation("strict:module:non-nested-braces-accepted", "the configuration %r is accepted" % txt, {"kind": "module", "natoms": 1, "positions": [], "config": txt.decode()})

    # ------------------------------------------------------------ 3. crash / hang exploration (not proof)
    nbytes = 60 if quick else 1500
    fz = []
    for k in range(nbytes):
        m = r.random()
        if m < 0.5:
            name, c = r.choice(tc) if tc else ("t", TEMPLATES[0][2].encode())
            fz.append(G.mutate_bytes(r, c, r.randint(1, 6)))
        elif m < 0.8:
            fz.append(G.mutate_bytes(r, r.choice(TEMPLATES)[2].encode(), r.randint(1, 8)))
        else:
            fz.append(G.gen_malformed(r, G.KEYWORDS, 400))
    exe = unit
    env = None
    if not quick:
        try:
            exe = V.build_prog("c09unit", UNIT["c09unit"], variant="asan")
            env = {"ASAN_OPTIONS": "detect_leaks=0:abort_on_error=1", "UBSAN_OPTIONS": "halt_on_error=1:print_stacktrace=1"}
            run.notes.append("crash exploration ran on the ASan/UBSan build")
        except V.InfraError as ex:
            run.notes.append("ASan build unavailable: %s" % str(ex)[:200])
            exe = unit
    npos = ["pos %d %s %s %s" % (i + 1, V.hexf(x), V.hexf(y), V.hexf(z)) for i, (x, y, z) in enumerate(xyz)] if xyz else []
    batch = 10
    head = ["natoms %d" % max(len(xyz), 4), "totalforces 1"] + npos
    nreported = 0
    for b0 in range(0, len(fz), batch):
        chunk = fz[b0:b0 + batch]
        L = list(head)
        for c in chunk:
            L += ["new", "confighex %s" % G.hx(c)]
        rc, o, e = run_scn(exe, d, "fz", "\n".join(L) + "\n", timeout=120, env=env)
        nconf = o.count("CONFIG ")
        for c in chunk:
            run.count("fz:" + G.hx(c)[:40], False)
        run.dist("explore:bytes", len(chunk))
        if "CONFIG err=exception" in o:
            k = [l.startswith("CONFIG err=exception") for l in o.split("\n") if l.startswith("CONFIG")].index(True)
            run.violation("crash:exception", "an exception escaped read_config_string", {"kind": "bytes", "confighex": G.hx(chunk[k]),
                          "config": chunk[k].decode("latin1")})
        if rc != 0 or nconf != len(chunk):
            # isolate: each configuration of the chunk alone, in its own process
            found = False
            for c in chunk[max(0, nconf - 1):]:
                one = "\n".join(head + ["new", "confighex %s" % G.hx(c)]) + "\n"
                rc1, o1, e1 = run_scn(exe, d, "fz1", one, timeout=60, env=env)
                if rc1 != 0 or "CONFIG " not in o1:
                    found = True
                    site = crash_site(exe, d, one, e1, env)
                    run.violation("crash:" + site, "read_config_string %s on a byte-mutated configuration (rc=%d) in %s" % (
                        "timed out (hang)" if rc1 == 124 else "crashed", rc1, site),
                        {"kind": "bytes", "confighex": G.hx(c), "config": c.decode("latin1"), "scenario": one, "stderr": (e1 or "")[-1500:]})
                    break
            if not found:
                run.violation("crash:sequence", "a sequence of configurations read into fresh modules %s (rc=%d); no single one does" % (
                    "timed out" if rc == 124 else "crashed", rc), {"kind": "bytes", "confighex": G.hx(chunk[min(nconf, len(chunk) - 1)]),
                    "scenario": "\n".join(L) + "\n", "stderr": (e or "")[-1500:]})
            nreported += 1
            if nreported >= 5:
                break
    run.cov["correspondence"]["explored_byte_strings"] = len(fz)


def replay(path):
    j = json.load(open(path))
    rp = j["replay"]
    print(json.dumps(j, indent=1)[:4000])
    unit = V.build_prog("c09unit", UNIT["c09unit"])
    if rp.get("kind") == "unit":
        model = V.extract_model("C09", EXTRACT, DRIVER, [])
        print("impl :", V.run_lines(unit, [rp["case"]])[1])
        print("model:", V.run_lines(model, [rp["case"]])[1])
    elif rp.get("kind") == "module":
        d = V.scratch("C09r")
        for f in glob.glob(os.path.join(V.REPO, "tests", "input_files", "*.*")):
            shutil.copy(f, d)
        print(run_scn(unit, d, "replay", scenario(rp["natoms"], rp["positions"], rp["config"].encode("latin1")))[1])
    elif rp.get("kind") == "sequence":
        d = V.scratch("C09r")
        print("--- one module instance:")
        print(run_scn(unit, d, "replay", rp["scenario"])[1])
        print("--- fresh module:")
        print(run_scn(unit, d, "replayf", rp["fresh_scenario"])[1])
    elif rp.get("kind") == "bytes":
        d = V.scratch("C09r")
        for f in glob.glob(os.path.join(V.REPO, "tests", "input_files", "*.*")):
            shutil.copy(f, d)
        print(run_scn(unit, d, "replay", rp.get("scenario") or "natoms 4\nnew\nquiet 0\nconfighex %s\n" % rp["confighex"]))
    return 0
