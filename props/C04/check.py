# C04: ABF stores the mean force per bin and applies its smoothed negative.
# Tie: engine-simulator scenarios (exact distanceZ variables, injected engine forces, harmonic
# restraints as "other biases", both force-timing conventions, run boundaries) run on the C++ built
# from VERIF_REPO and on the extracted Coq model; the internal ABF state is compared after every step.
# Oracle: exact (Fraction) re-computation of the attributed samples and of the applied force.
import os, sys, json, math, re
from fractions import Fraction as Fr
import vcommon as V

PROP = "coq/C04/Properties_C04.v"
EXTRACT = "coq/C04/Extract_C04.v"
DRIVER = "props/C04/driver.ml"
PROGS = {"c04unit": ["props/C04/unit.cpp"]}

WIDTHS = [1.0, 0.5, 0.25, 2.0]


def floor_fr(q):
    return q.numerator // q.denominator


def wrap(x, c, P):
    """colvar::cvc::wrap for a periodic distanceZ (exact on dyadic input)"""
    return x - math.floor((x - c) / P + 0.5) * P


def pdiff(d, P):
    return d - math.floor(d / P + 0.5) * P


# ------------------------------------------------------------------------------- generator
def gen_case(r, k, same=None):
    nd = r.choice([1, 1, 1, 2, 2, 3])
    if same is None:
        same = r.random() < 0.5
    vars_ = []
    for d in range(nd):
        v = {}
        v["periodic"] = r.random() < (0.5 if nd == 1 else 0.25)
        v["w"] = r.choice(WIDTHS)
        v["nx"] = r.randint(1, 5 if nd < 3 else 3)
        if v["periodic"]:
            v["nx"] = max(v["nx"], 2)
            v["P"] = v["w"] * v["nx"]
            v["c"] = V.dyadic(r, -3, 3, bits=2)
            v["lower"] = v["c"] - v["P"] / 2
        else:
            v["lower"] = V.dyadic(r, -4, 4, bits=3)
        v["upper"] = v["lower"] + v["w"] * v["nx"]
        v["sub"] = r.random() < 0.35
        # another bias on this variable: harmonic restraint, force = -k/w^2 (x - c0)
        v["hk"] = r.choice([0.5, 1.0, 2.0]) if r.random() < 0.5 else None
        v["hc"] = V.dyadic(r, -2, 2, bits=2) + v["lower"]
        vars_.append(v)
    full = r.randint(1, 6)
    mn = r.randint(0, full - 1) if full > 1 else 0
    c = {"id": k, "vars": vars_, "same": same, "full": full, "min": mn,
         "apply": r.random() < 0.85, "update": r.random() < 0.92,
         "cap": r.random() < 0.3, "maxf": [r.choice([0.0, 0.5, 1.0, 2.0, 8.0]) for _ in range(nd)],
         "szd": same and r.random() < 0.3, "hideJ": r.random() < 0.3,
         "abf_first": r.random() < 0.5}
    nsteps = r.randint(6, 26)
    steps = []
    prev = None
    for s in range(nsteps):
        boundary = s > 0 and r.random() < 0.12
        zs, es = [], []
        if prev is not None and (r.random() < 0.4 or (boundary and r.random() < 0.6)):
            zs = list(prev)    # stay where we were (same bins; repeated step of a run boundary)
        else:
            for v in vars_:
                m = r.random()
                span = v["w"] * v["nx"]
                if m < 0.3:      # exactly on a bin edge (including both boundaries)
                    z = v["lower"] + r.randint(-1, v["nx"] + 1) * v["w"]
                elif m < 0.88:   # inside the grid
                    z = v["lower"] + r.randint(0, v["nx"] * 8 - 1) * v["w"] / 8 + v["w"] / 16
                else:            # outside
                    z = v["lower"] + r.choice([-1, 1]) * (span + r.randint(1, 24) * v["w"] / 8) + (span if r.random() < .5 else 0)
                if v["periodic"] and r.random() < 0.4:
                    z += r.randint(-2, 2) * v["P"]
                zs.append(z)
        for d, v in enumerate(vars_):
            m = r.random()
            if m < 0.04 and v["hk"] is not None:
                # engine force that cancels the restraint force exactly: measured total force is zero
                # as long as the ABF force is zero (aims at the ft.norm2() > 0 guard of colvar.cpp)
                es.append(-harm_force(v, colvar_value(v, zs[d])))
            elif m < 0.2:
                es.append(0.0)
            else:
                es.append(V.dyadic(r, -8, 8, bits=3))
        steps.append({"z": zs, "e": es, "boundary": boundary})
        prev = zs
    c["steps"] = steps
    return c


def colvar_value(v, z):
    return wrap(z, v["c"], v["P"]) if v["periodic"] else z


def harm_force(v, x):
    if v["hk"] is None:
        return 0.0
    d = x - v["hc"]
    if v["periodic"]:
        d = pdiff(d, v["P"])
    return -0.5 * v["hk"] / (v["w"] * v["w"]) * (2.0 * d)


def other_forces(c, st):
    return [harm_force(v, colvar_value(v, z)) for v, z in zip(c["vars"], st["z"])]


def fmt(x):
    return repr(float(x))


def scenario(c):
    nd = len(c["vars"])
    L = ["echo CASE %s" % c["id"], "natoms %d" % nd, "samestep %d" % (1 if c["same"] else 0), "includecv 1", "new", "config EOF"]
    for d, v in enumerate(c["vars"]):
        L += ["colvar {", "  name v%d" % d, "  lowerBoundary %s" % fmt(v["lower"]), "  upperBoundary %s" % fmt(v["upper"]),
              "  width %s" % fmt(v["w"])]
        if v["sub"]:
            L += ["  subtractAppliedForce on"]
        L += ["  distanceZ {", "    main { atomNumbers %d }" % (d + 1), "    ref { dummyAtom (0,0,0) }", "    axis (0,0,1)",
              "    oneSiteTotalForce on"]
        if v["periodic"]:
            L += ["    period %s" % fmt(v["P"]), "    wrapAround %s" % fmt(v["c"])]
        L += ["  }", "}"]
    abf = ["abf {", "  name a", "  colvars " + " ".join("v%d" % d for d in range(nd)),
           "  fullSamples %d" % c["full"], "  minSamples %d" % c["min"],
           "  applyBias %s" % ("on" if c["apply"] else "off"), "  updateBias %s" % ("on" if c["update"] else "off")]
    if c["cap"]:
        abf += ["  maxForce " + " ".join(fmt(m) for m in c["maxf"])]
    if c["szd"]:
        abf += ["  stepZeroData on"]
    if c["hideJ"]:
        abf += ["  hideJacobian on"]
    abf += ["}"]
    harm = []
    hv = [d for d, v in enumerate(c["vars"]) if v["hk"] is not None]
    for d in hv:
        v = c["vars"][d]
        harm += ["harmonic {", "  name h%d" % d, "  colvars v%d" % d, "  centers %s" % fmt(v["hc"]),
                 "  forceConstant %s" % fmt(v["hk"]), "}"]
    L += (abf + harm) if c["abf_first"] else (harm + abf)
    L += ["EOF", "show cv 0 energy 0 bias 0 atomf 0"]
    for st in c["steps"]:
        for d in range(nd):
            L.append("pos %d 0 0 %s" % (d + 1, V.hexf(st["z"][d])))
            L.append("eforce %d 0 0 %s" % (d + 1, V.hexf(st["e"][d])))
        if st["boundary"]:
            L.append("runboundary")
        L.append("step")
        L.append("dumpabf a")
    return L


def model_case(c):
    nd = len(c["vars"])
    vs = c["vars"]
    parts = ["ABF", str(nd)]
    parts += [V.hexf(v["lower"]) for v in vs] + [V.hexf(v["w"]) for v in vs] + [str(v["nx"]) for v in vs]
    parts += ["1" if v["periodic"] else "0" for v in vs]
    parts += [str(c["full"]), str(c["min"]), str(int(c["apply"])), str(int(c["update"])), str(int(c["cap"]))]
    parts += [V.hexf(m) for m in c["maxf"]]
    parts += [str(int(c["szd"])), str(int(c["same"]))] + [str(int(v["sub"])) for v in vs]
    parts += [str(len(c["steps"]))]
    for st in c["steps"]:
        parts += [V.hexf(colvar_value(v, z)) for v, z in zip(vs, st["z"])]
        parts += [V.hexf(e) for e in st["e"]]
        parts += [V.hexf(o) for o in other_forces(c, st)]
        parts += [str(int(st["boundary"]))]
    return " ".join(parts)


# ------------------------------------------------------------------------------- parsing
KEYS = ("bin", "fbin", "cf", "tf", "af", "cnt", "sum", "per", "nx")


def parse_fields(tokens):
    """'bin 1 fbin 1 cf 0x.. ...' -> dict key -> list of numbers"""
    out = {}
    cur = None
    for t in tokens:
        if t in KEYS:
            cur = t
            out[cur] = []
        elif cur is not None:
            if cur in ("bin", "fbin", "cnt", "per", "nx"):
                out[cur].append(int(t))
            else:
                out[cur].append(float.fromhex(t))
    return out


def parse_impl(text):
    """output of c04unit for a batch -> {case id: {"config": str, "steps": [fields], "err": [..]}}"""
    res = {}
    cur = None
    for line in text.split("\n"):
        w = line.split()
        if not w:
            continue
        if w[0] == "echo" and len(w) >= 3 and w[1] == "CASE":
            cur = {"config": None, "steps": [], "errs": []}
            res[w[2]] = cur
        elif cur is None:
            continue
        elif w[0] == "CONFIG":
            cur["config"] = line
        elif w[0] == "STEP":
            cur["errs"].append(w[2] if len(w) > 2 else "")
        elif w[0] == "ABF":
            cur["steps"].append(parse_fields(w[1:]))
    return res


def parse_model(line):
    segs = [s.strip() for s in line.split(";")]
    steps, spec = [], None
    for s in segs:
        w = s.split()
        if not w:
            continue
        if w[0] == "SPEC":
            spec = parse_fields(w[1:])
        else:
            steps.append(parse_fields(w))
    return steps, spec


# ------------------------------------------------------------------------------- oracle
def clocks(c):
    out = []
    rel, started = 0, False
    for st in c["steps"]:
        if not started:
            cont = st["boundary"]
            started = True
        elif st["boundary"]:
            cont = True
        else:
            rel += 1
            cont = False
        out.append((rel, cont))
    return out


def bin_of(c, st):
    ix = []
    for v, z in zip(c["vars"], st["z"]):
        x = Fr(colvar_value(v, z))
        ix.append(floor_fr((x - Fr(v["lower"])) / Fr(v["w"])))
    return ix


def in_grid(c, ix):
    return all(0 <= i < v["nx"] for i, v in zip(ix, c["vars"]))


def address(c, ix):
    a = 0
    for i, v in zip(ix, c["vars"]):
        a = a * v["nx"] + i
    return a


def expected_samples(c):
    """The attributed samples of the property: (address of the bin occupied when the force was exerted,
    total force minus what Colvars itself applied [the ABF force; every Colvars force with
    subtractAppliedForce]) = engine force (+ other biases' forces when they are part of the measured
    total force and not subtracted).  Returns (list of (address, [Fraction]*nd, step), zero_total_steps)."""
    nd = len(c["vars"])
    clk = clocks(c)
    out = []
    n = len(c["steps"])
    for t, st in enumerate(c["steps"]):
        if not c["update"]:
            continue
        if c["same"]:
            rel, cont = clk[t]
            elig = (rel > 0 and not cont) or c["szd"]
        else:
            if t + 1 >= n:
                continue
            rel, cont = clk[t + 1]
            elig = rel > 0 and not cont
        if not elig:
            continue
        ix = bin_of(c, st)
        if not in_grid(c, ix):
            continue
        o = other_forces(c, st)
        F = []
        for d, v in enumerate(c["vars"]):
            f = Fr(st["e"][d])
            if not c["same"] and not v["sub"]:
                f += Fr(o[d])
            F.append(f)
        out.append((address(c, ix), F, t))
    return out


def ramp(c, N):
    if N < c["min"]:
        return Fr(0)
    if N < c["full"]:
        return Fr(N - c["min"], c["full"] - c["min"])
    return Fr(1)


def expected_abf_force(c, st, cnt, sm):
    """applied ABF force from the implementation's own arrays (exact)"""
    nd = len(c["vars"])
    ix = bin_of(c, st)
    if not c["apply"] or not in_grid(c, ix):
        return [Fr(0)] * nd
    a = address(c, ix)
    N = cnt[a]
    f = []
    for d in range(nd):
        mean = Fr(sm[a * nd + d]) / N if N > 0 else Fr(0)
        f.append(ramp(c, N) * mean)
    if nd == 1 and c["vars"][0]["periodic"]:
        nx = c["vars"][0]["nx"]
        avg = sum((Fr(sm[b]) / cnt[b] if cnt[b] > 0 else Fr(0)) for b in range(nx)) / nx
        f[0] -= avg
    if c["cap"]:
        for d in range(nd):
            m = Fr(c["maxf"][d])
            if abs(f[d]) > m:
                f[d] = m if f[d] > 0 else -m
    return f


def close(a, b, tol=1e-9):
    a, b = float(a), float(b)
    return abs(a - b) <= tol * max(1.0, abs(a), abs(b))


def zero_total_steps(c, impl_steps):
    """steps at which a variable with subtractAppliedForce had an exactly zero measured total force
    although Colvars was applying a non-zero force to it (lagged convention)"""
    hits = []
    if c["same"]:
        return hits
    for t, st in enumerate(c["steps"]):
        if t >= len(impl_steps):
            break
        af = impl_steps[t].get("af", [])
        for d, v in enumerate(c["vars"]):
            if v["sub"] and d < len(af) and af[d] != 0.0 and Fr(st["e"][d]) + Fr(af[d]) == 0:
                hits.append((t, d))
    return hits


def value_zero_steps(c, impl_steps):
    """steps (lagged convention) at which a variable had the value exactly 0 while Colvars applied a force to it"""
    hits = []
    if c["same"]:
        return hits
    for t, st in enumerate(c["steps"]):
        if t >= len(impl_steps):
            break
        af = impl_steps[t].get("af", [])
        for d, v in enumerate(c["vars"]):
            if colvar_value(v, st["z"][d]) == 0.0 and d < len(af) and af[d] != 0.0:
                hits.append((t, d))
    return hits


def oracle(c, impl_steps):
    """property oracle on the implementation's output alone; returns list of (signature, text)"""
    bad = []
    nd = len(c["vars"])
    nt = 1
    for v in c["vars"]:
        nt *= v["nx"]
    if len(impl_steps) != len(c["steps"]):
        return [("oracle:steps", "implementation reported %d steps of %d" % (len(impl_steps), len(c["steps"])))]
    # applied force at every step
    for t, (st, f) in enumerate(zip(c["steps"], impl_steps)):
        exp = expected_abf_force(c, st, f["cnt"], f["sum"])
        if not all(close(a, b) for a, b in zip(exp, f["cf"])):
            bad.append(("oracle:cf", "step %d: ABF force %s, but ramp(count)*mean(-force) [zero-mean, cap] of the stored arrays gives %s"
                        % (t, f["cf"], [float(x) for x in exp])))
            break
        o = other_forces(c, st)
        if not all(close(Fr(a) + Fr(b), g) for a, b, g in zip(f["cf"], o, f["af"])):
            bad.append(("oracle:af", "step %d: force applied to the variables %s is not ABF force %s + restraint force %s" % (t, f["af"], f["cf"], o)))
            break
    # final arrays = attributed samples
    smp = expected_samples(c)
    cnt = [0] * nt
    sm = [Fr(0)] * (nt * nd)
    for a, F, t in smp:
        cnt[a] += 1
        for d in range(nd):
            sm[a * nd + d] -= F[d]
    last = impl_steps[-1]
    if cnt != last["cnt"]:
        bad.append(("oracle:cnt", "stored counts %s differ from the number of attributed samples per bin %s" % (last["cnt"], cnt)))
    elif not all(close(a, b) for a, b in zip(sm, last["sum"])):
        zt = zero_total_steps(c, impl_steps)
        vz = value_zero_steps(c, impl_steps)
        sig = "sample:subtractAppliedForce-zero-total-force" if zt else ("sample:force-dropped-at-value-zero" if vz else "oracle:sum")
        k = [i for i, (a, b) in enumerate(zip(sm, last["sum"])) if not close(a, b)][0]
        bad.append((sig, "stored gradient sums differ from minus the summed attributed samples: element %d is %s, expected %s%s"
                    % (k, last["sum"][k], float(sm[k]), (" (measured total force exactly zero at (step,variable) %s)" % zt[:3]) if zt else ((" (value exactly 0 at (step,variable) %s)" % vz[:3]) if vz else ""))))
    return bad


# ------------------------------------------------------------------------------- witnesses of the _refuted theorems
def witness_zero_total():
    """C04_abf_state_is_sample_sum_refuted: subtractAppliedForce, lagged forces, restraint force +1 and
    engine force -1 at step 0: the measured total force is exactly 0, colvar.cpp skips ft -= f_old,
    and the sample recorded for step 0 is 0 instead of -1."""
    v = {"periodic": False, "w": 1.0, "nx": 2, "lower": 0.0, "upper": 2.0, "sub": True, "hk": 1.0, "hc": 1.5}
    return {"id": "W1", "vars": [v], "same": False, "full": 2, "min": 1, "apply": False, "update": True, "cap": False,
            "maxf": [0.0], "szd": False, "hideJ": False, "abf_first": True,
            "steps": [{"z": [0.5], "e": [-1.0], "boundary": False}, {"z": [0.5], "e": [2.0], "boundary": False},
                      {"z": [0.5], "e": [2.0], "boundary": False}]}


def witness_value_zero():
    """C04_abf_state_is_sample_sum_refuted_value_zero: lagged forces, value exactly 0 at step 0 while a restraint
    applies +1 and the engine force is 1: the attributed sample for bin 1 is (1+1) - 0 = 2, the implementation records 1."""
    v = {"periodic": False, "w": 1.0, "nx": 2, "lower": -1.0, "upper": 1.0, "sub": False, "hk": 1.0, "hc": 1.0}
    return {"id": "W2", "vars": [v], "same": False, "full": 2, "min": 1, "apply": False, "update": True, "cap": False,
            "maxf": [0.0], "szd": False, "hideJ": False, "abf_first": True,
            "steps": [{"z": [0.0], "e": [1.0], "boundary": False}, {"z": [0.5], "e": [0.0], "boundary": False}]}


def judge_value_zero(c, steps):
    got = steps[-1]["sum"][1]
    if steps[-1]["cnt"][1] == 1 and got != -2.0:
        return ("lagged total forces, variable value exactly 0 at step 0, engine force 1, harmonic restraint applying +1 (reported as applied force %s): "
                "the sample of step 0 is (1+1) - 0 = 2, so the stored sum of bin 1 must be -2; the implementation stores %s "
                "(colvar::communicate_forces multiplies the force by integer_power(value, 0), which is 0 for value == 0.0: the atoms never receive it)"
                % (steps[0]["af"][0], got))
    return None


def witness_zero_mean():
    """C04_zero_mean_periodic_refuted (W3): one periodic variable, 2 bins, minSamples 1, fullSamples 2; one sample of
    force 2 in bin 0 (count = minSamples: ramp 0).  Then the force in each bin is probed at repeated (boundary)
    steps, which add no sample."""
    v = {"periodic": True, "w": 1.0, "nx": 2, "P": 2.0, "c": 1.0, "lower": 0.0, "upper": 2.0, "sub": False, "hk": None, "hc": 0.0}
    return {"id": "W3", "vars": [v], "same": True, "full": 2, "min": 1, "apply": True, "update": True, "cap": False,
            "maxf": [0.0], "szd": False, "hideJ": False, "abf_first": True,
            "steps": [{"z": [0.5], "e": [0.0], "boundary": False}, {"z": [0.5], "e": [2.0], "boundary": False},
                      {"z": [0.5], "e": [0.0], "boundary": True}, {"z": [1.5], "e": [0.0], "boundary": True}]}


# ------------------------------------------------------------------------------- running
def run_batch(exe, cases, d, tag):
    lines = []
    for c in cases:
        lines += scenario(c)
    sc = os.path.join(d, "batch_%s.scn" % tag)
    with open(sc, "w") as f:
        f.write("\n".join(lines) + "\n")
    rc, o, e = V.sh([exe, sc], cwd=d, timeout=600)
    return rc, parse_impl(o), e


def compare_fields(a, b, keys=("bin", "fbin", "cnt", "sum", "tf", "cf", "af")):
    for k in keys:
        if a.get(k) != b.get(k):
            # -0.0 == 0.0 in python; NaN never equal
            return k
    return None


def setup():
    V.extract_model("C04", EXTRACT, DRIVER, ["ocaml/fops.ml"])
    for n, s in PROGS.items():
        V.build_prog(n, s)


def check(run):
    r = V.rng("C04")
    quick = run.tier == "quick"
    run.cov["rule"] = ("scenarios: 1-3 exact distanceZ variables (periodic grids spanning the period, or not), dyadic engine forces, "
                       "harmonic restraints as other biases, subtractAppliedForce per variable, both timing conventions, minSamples/fullSamples 0..6, "
                       "maxForce, applyBias/updateBias off, stepZeroData, hideJacobian, run boundaries, values on bin edges / inside / outside. "
                       "After every step bin, force_bin, ABF force, reported total force, applied force, samples and gradients arrays are compared "
                       "(bit-exact) with the extracted model. non-trivial = >=2 bins hit, >=1 step outside the grid or rejected, >=1 bin above minSamples")
    run.assumptions += [
        "theorems are about the R instance of the model; the tie runs the float instance, which mirrors the order of the C++ floating-point operations",
        "variables are distanceZ (zero Jacobian term): hideJacobian is switched on and off in the tie but the Jacobian force itself is not modelled",
        "other biases are represented by the force they apply at each step (input of the model); in the tie they are harmonic restraints whose force the generator computes",
        "engine conventions are those of harness/vsim.h: same-step total forces exclude Colvars forces; lagged total forces include them (includecv 1)",
    ]
    st = V.standard_start(run, PROP, EXTRACT, DRIVER, PROGS)
    if st is None:
        return
    model, exes = st
    unit = exes["c04unit"]
    d = V.scratch("C04")

    run_witnesses(run, unit, model, d)

    n = 240 if quick else 6000
    cases = []
    # corpus first
    cp = os.path.join(V.ROOT, "corpus", "C04_cases.txt")
    if os.path.exists(cp):
        for l in open(cp):
            l = l.strip()
            if l and not l.startswith("#"):
                cc = json.loads(l)
                cc["id"] = "K%d" % len(cases)
                cases.append(cc)
    for k in range(n):
        cases.append(gen_case(r, "G%d" % k))

    # batches are homogeneous in the timing convention (the feature tables of colvarbias are
    # static and depend on total_forces_same_step() at their first initialisation)
    impl = {}
    B = 40
    for same in (False, True):
        sel = [c for c in cases if c["same"] == same]
        for b0 in range(0, len(sel), B):
            rc, res, err = run_batch(unit, sel[b0:b0 + B], d, "%d_%d" % (int(same), b0))
            impl.update(res)
            if rc != 0:
                miss = [c for c in sel[b0:b0 + B] if c["id"] not in res or len(res[c["id"]]["steps"]) < len(c["steps"])]
                run.violation("impl:crash", "the implementation died (rc=%d) in a batch; first incomplete case %s: %s" % (rc, miss[0]["id"] if miss else "?", err[-300:]),
                              {"kind": "case", "case": miss[0] if miss else None})
    mlines = [model_case(c) for c in cases]
    rcm, mout, em = V.run_lines(model, mlines)
    for k, c in enumerate(cases):
        im = impl.get(c["id"])
        if im is None or im["config"] is None or "err=ok" not in im["config"]:
            run.mismatch("abf:config", {"case": c}, im["config"] if im else None, "accepted")
            continue
        steps_i = im["steps"]
        msteps, spec = parse_model(mout[k]) if k < len(mout) else ([], None)
        nd = len(c["vars"])
        # evidence
        visited = set()
        outside = 0
        for stp in c["steps"]:
            ix = bin_of(c, stp)
            if in_grid(c, ix):
                visited.add(tuple(ix))
            else:
                outside += 1
        above = steps_i and any(x > c["min"] for x in steps_i[-1].get("cnt", []))
        run.count(c["id"], len(visited) >= 2 and outside >= 1 and bool(above))
        run.dist("nd=%d" % nd)
        run.dist("same_step" if c["same"] else "lagged")
        run.dist("boundaries", sum(1 for s_ in c["steps"] if s_["boundary"]))
        run.dist("subtract_vars", sum(1 for v in c["vars"] if v["sub"]))
        run.dist("periodic_1d", 1 if nd == 1 and c["vars"][0]["periodic"] else 0)
        run.dist("restrained_vars", sum(1 for v in c["vars"] if v["hk"] is not None))
        # property oracle on the implementation alone
        for sig, text in oracle(c, steps_i):
            run.violation(sig, "case %s: %s" % (c["id"], text), {"kind": "case", "case": c})
        # tie: implementation vs model, step by step
        if len(msteps) != len(steps_i):
            run.mismatch("abf:steps", {"case": c}, len(steps_i), len(msteps))
            continue
        for t, (a, b) in enumerate(zip(steps_i, msteps)):
            bad = compare_fields(a, b)
            if bad:
                run.mismatch(bad, {"case": c, "step": t}, {k_: a.get(k_) for k_ in ("bin", "fbin", "cf", "tf", "af", "cnt", "sum")},
                             {k_: b.get(k_) for k_ in ("bin", "fbin", "cf", "tf", "af", "cnt", "sum")})
                break
        if k < 2:
            run.sample({"scenario": scenario(c)[:60], "final": steps_i[-1] if steps_i else None})
    run.cov["correspondence"].update({"scenarios": len(cases), "steps": sum(len(c["steps"]) for c in cases)})



def run_witnesses(run, unit, model, d):
    """witnesses of the _refuted theorems, replayed on the implementation (first, so that the minimal
    cases are the ones written to the replay files)"""
    for wf, sig, judge in ((witness_zero_total, "sample:subtractAppliedForce-zero-total-force", judge_zero_total),
                           (witness_value_zero, "sample:force-dropped-at-value-zero", judge_value_zero),
                           (witness_zero_mean, "force:periodic-zero-mean-during-ramp", judge_zero_mean)):
        c = wf()
        rc, res, err = run_batch(unit, [c], d, c["id"])
        im = res.get(c["id"])
        run.count(c["id"], True)
        if im is None or len(im["steps"]) != len(c["steps"]):
            run.mismatch("abf:witness", {"case": c}, None, "ran")
            continue
        text = judge(c, im["steps"])
        if text:
            run.violation(sig, text, {"kind": "case", "case": c})
        else:
            run.notes.append("witness %s no longer reproduces on the implementation: the _refuted theorem should be replaced by the full statement" % c["id"])
            # the model still has the behaviour: the tie must notice
            ml = V.run_lines(model, [model_case(c)])[1]
            ms, _ = parse_model(ml[0]) if ml else ([], None)
            for t, (a, b) in enumerate(zip(im["steps"], ms)):
                bad = compare_fields(a, b)
                if bad:
                    run.mismatch(bad, {"case": c, "step": t}, a, b)
                    break




def judge_zero_total(c, steps):
    got = steps[-1]["sum"][0]
    if steps[-1]["cnt"][0] == 2 and got != -1.0:
        return ("subtractAppliedForce on, lagged total forces, harmonic restraint applying +1 while the engine force is -1 at step 0: "
                "samples -1 and 2 belong to bin 0, so the stored sum must be -(−1+2) = -1; the implementation stores %s "
                "(the sample of step 0 was recorded as 0: colvar::calc_colvar_properties skips 'ft -= f_old' when ft.norm2() == 0)" % got)
    return None


def judge_zero_mean(c, steps):
    f0, f1 = steps[2]["cf"][0], steps[3]["cf"][0]
    if f0 + f1 != 0.0:
        return ("1-D periodic ABF, 2 bins, minSamples 1, fullSamples 2, one sample (force 2) in bin 0: the ABF force is %s in bin 0 and %s in bin 1 "
                "(sum %s, not zero-mean; bin 1 has no sample and bin 0 is below the ramp, yet both are biased): calc_biasing_force subtracts the "
                "average of the unsmoothed means from the ramped force" % (f0, f1, f0 + f1))
    return None


def replay(path):
    j = json.load(open(path))
    rp = j["replay"]
    print(json.dumps({k: v for k, v in j.items() if k != "replay"}, indent=1)[:3000])
    if rp.get("kind") == "case" or "case" in rp:
        c = rp["case"]
        unit = V.build_prog("c04unit", PROGS["c04unit"])
        model = V.extract_model("C04", EXTRACT, DRIVER, ["ocaml/fops.ml"])
        d = V.scratch("C04r")
        print("\n".join(scenario(c)))
        rc, res, err = run_batch(unit, [c], d, "replay")
        im = res.get(str(c["id"]), {"steps": []})
        ms, spec = parse_model(V.run_lines(model, [model_case(c)])[1][0])
        for t, a in enumerate(im["steps"]):
            print("step %d impl : %s" % (t, a))
            if t < len(ms):
                print("step %d model: %s" % (t, ms[t]))
        print("spec (attributed samples):", spec)
        print("oracle:", oracle(c, im["steps"]))
    return 0
