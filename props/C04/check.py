# C04: ABF stores the mean force per bin and applies its smoothed negative.
# Tie: engine-simulator scenarios (exact distanceZ variables, injected engine forces, harmonic
# restraints as "other biases", both force-timing conventions, run boundaries) run on the C++ built
# from VERIF_REPO and on the extracted Coq model; the internal ABF state is compared after every step.
# Oracle: exact (Fraction) re-computation of the attributed samples and of the applied force.
import os, sys, json, math, re
from fractions import Fraction as Fr
import vcommon as V

PROP = "coq/C04/Properties_C04.v"
EXTRACT = "coq/C04/Extract_C04.v"
DRIVER = "props/C04/driver.ml"
PROGS = {"c04unit": ["props/C04/unit.cpp"]}

WIDTHS = [1.0, 0.5, 0.25, 2.0]
KB = 0.001987191      # colvarproxy_system::boltzmann_ (kcal/mol/K), the default of the engine simulator


def floor_fr(q):
    return q.numerator // q.denominator


def wrap(x, c, P):
    """colvar::cvc::wrap for a periodic distanceZ (exact on dyadic input)"""
    return x - math.floor((x - c) / P + 0.5) * P


def pdiff(d, P):
    return d - math.floor(d / P + 0.5) * P


# ------------------------------------------------------------------------------- generator
def gen_case(r, k, same=None, long_=False):
    nd = r.choice([1, 1, 1, 2, 2, 3])
    if same is None:
        same = r.random() < 0.5
    vars_ = []
    for d in range(nd):
        v = {}
        # "dz": distanceZ of one atom (value = z exactly, Jacobian force 0);
        # "dist": distance of an atom on the z axis from an atom at the origin (value r = z, Jacobian force 2kT/r)
        # "lin2": a two-component variable c1*distanceZ(atom a) + c2*distanceZ(atom b) with coefficients (1,1) or (1,-1)
        #         (linear combination: total force = sum_i c_i f_i / sum_i c_i^2, applied force c_i f to component i); the
        #         generator puts atom b at z = +-1/4 and gives both atoms engine forces e and +-e, so that every
        #         floating-point operation of the combination is exact and the one-variable model still ties bit-exactly
        kk = r.random()
        v["kind"] = "dist" if kk < 0.3 else ("lin2" if kk < 0.45 else "dz")
        v["c2"] = r.choice([1.0, -1.0])
        v["onesite"] = r.random() < 0.5
        v["periodic"] = v["kind"] == "dz" and r.random() < (0.5 if nd == 1 else 0.25)
        v["w"] = r.choice(WIDTHS)
        v["nx"] = r.randint(1, 5 if nd < 3 else 3)
        if v["kind"] == "dist":
            v["lower"] = V.dyadic(r, 0, 3, bits=2) + 0.5
        elif v["periodic"]:
            v["nx"] = max(v["nx"], 2)
            v["P"] = v["w"] * v["nx"]
            v["c"] = V.dyadic(r, -3, 3, bits=2)
            v["lower"] = v["c"] - v["P"] / 2
        else:
            v["lower"] = V.dyadic(r, -4, 4, bits=3)
        v["upper"] = v["lower"] + v["w"] * v["nx"]
        v["sub"] = r.random() < 0.35
        # other biases on this variable.  At most one acting through colvar::fb (harmonic restraint, force -k/w^2 (x - c0);
        # linear, force -k/w; harmonicWalls with bypassExtendedLagrangian off) and at most one acting through
        # colvar::fb_actual (harmonicWalls with its default bypassExtendedLagrangian on), so that the floating-point sum
        # ((abf + fb) - fj) + fb_actual of the code is the one of the model
        kk = r.random()
        v["hk"] = r.choice([0.5, 1.0, 2.0]) if kk < 0.4 else None
        v["hc"] = V.dyadic(r, -2, 2, bits=2) + v["lower"]
        v["lk"] = r.choice([-2.0, -0.5, 1.0, 4.0]) if (0.4 <= kk < 0.5 and not v["periodic"]) else None      # linear refuses periodic variables
        wallsfb = 0.5 <= kk < 0.6 and not v["periodic"]
        wallsact = (not v["periodic"]) and r.random() < 0.3
        v["walls"] = None
        if wallsfb or wallsact:
            # walls INSIDE the grid (crossed by the values that visit the outer bins and beyond)
            span = v["w"] * v["nx"]
            lo = v["lower"] + r.choice([0.25, 0.5, 1.0]) * v["w"]
            hi = v["upper"] - r.choice([0.25, 0.5, 1.0]) * v["w"]
            if hi <= lo:      # the upper wall must be above the lower one (one-bin grids: walls around the middle)
                lo, hi = v["lower"] + 0.25 * v["w"], v["upper"] - 0.25 * v["w"]
            v["walls"] = {"k": r.choice([0.5, 1.0, 2.0]), "lo": lo, "hi": hi, "bypass": not wallsfb}
        vars_.append(v)
    full = r.randint(1, 6)
    mn = r.randint(0, full - 1) if full > 1 else 0
    c = {"id": k, "vars": vars_, "same": same, "full": full, "min": mn,
         "apply": r.random() < 0.85, "update": r.random() < 0.92,
         "cap": r.random() < (0.6 if (nd == 1 and vars_[0]["periodic"]) else 0.3),
         "maxf": [r.choice([0.0, 0.5, 1.0, 2.0, 8.0]) for _ in range(nd)],
         "szd": same and r.random() < 0.3, "hideJ": r.random() < 0.4,
         "T": r.choice([0.0, 250.0, 1000.0, 4000.0]),
         "abf_first": r.random() < 0.5}
    # scaledBiasingForce: a factor per bin of a grid with the geometry of the ABF grid
    nt = 1
    for v in vars_:
        nt *= v["nx"]
    c["scaled"] = r.random() < 0.25
    c["sfac"] = [r.choice([0.0, 0.25, 0.5, 0.5, 1.0, 2.0, -1.0]) for _ in range(nt)] if c["scaled"] else []
    # inputPrefix: counts and gradients read from .count/.grad files before the first step
    if r.random() < 0.25:
        c["input"] = []       # one data set per prefix of the inputPrefix list
        for _ in range(r.choice([1, 1, 2, 3])):
            icnt = [r.choice([0, 0, 1, 2, 3, 5, 8]) for _ in range(nt)]
            c["input"].append({"cnt": icnt, "grad": [(V.dyadic(r, -4, 4, bits=2) if icnt[a] > 0 else 0.0) for a in range(nt) for _ in range(nd)]})
    # applyBias switched at run time (cv bias a set apply_force 0|1) before some steps
    # colvarbias_abf::init: fullSamples <= 1 means fullSamples 1 and minSamples 0, whatever minSamples says
    if full == 1 and r.random() < 0.5:
        c["full_cfg"], c["min_cfg"] = r.choice([0, 1]), r.choice([0, 2, 7])      # (negative values: size_t parsing, C10)
    # stepZeroData written in the configuration of a bias with lagged total forces: the feature is excluded by
    # f_cvb_get_total_force there (colvarbias.cpp) and has no effect: the model runs with c_szd = false (wf_cfg)
    c["szd_cfg"] = c["szd"] or ((not same) and r.random() < 0.2)
    c["toggle"] = r.random() < 0.2
    # timeStepFactor k > 1 on the bias and its variables (only allowed with same-step total forces): they are
    # awake at the steps that are multiples of k (model: abf_mstep).  No restraint (its own timeStepFactor would be 1)
    # and no run-time switching.
    c["tsf"] = r.choice([2, 3, 3, 5, 6, 7, 12]) if (same and r.random() < 0.14) else 1
    # the engine's step number at the start of the job (`setstep`): small, or beyond the range of int / of a double's integers
    c["step0"] = r.choice([0, 0, 0, 1, 17, 2 ** 31 - 2, 2 ** 32 + 5, 2 ** 53 - 3, 2 ** 61 + 7])
    if c["tsf"] > 1:
        c["toggle"] = False
        for v in vars_:
            v["hk"] = v["lk"] = v["walls"] = None
    # state-file events: before some steps the state is saved (text or binary) and loaded again, into a new instance
    # with the same configuration (restart) or into the running instance (reload); more often for 1-D periodic grids,
    # whose zero-mean term must be that of the grids that were read
    per1 = nd == 1 and vars_[0]["periodic"]
    c["events"] = (not c["toggle"]) and c["tsf"] == 1 and r.random() < (0.7 if per1 else 0.3)
    # the abf bias defined while the simulation is running: 1..3 steps are made before its `config`
    c["late"] = (not c["toggle"]) and (not c["events"]) and c["tsf"] == 1 and r.random() < 0.15
    # eABF: every variable is an extended-Lagrangian distanceZ (the bias bins the extended coordinate, its samples are the
    # spring force on it one step late); lagged convention, no hideJacobian (excluded), other bias: harmonic on the extended coordinate
    c["eabf"] = (not same) and (not c["toggle"]) and (not c["events"]) and (not c["late"]) and c["tsf"] == 1 and r.random() < 0.12
    if c["eabf"]:
        c["hideJ"] = False
        c["T"] = r.choice([250.0, 1000.0])
        c["scaled"] = False
        c["sfac"] = []
        c.pop("input", None)
        for v in vars_:
            v["sub"] = False      # (with subtractAppliedForce the code reports the spring force directly, the lagged model computes
                                  #  (e + f) - f: equal in R, not bit for bit)
            v["kind"], v["periodic"], v["lk"], v["walls"] = "dz", False, None, None
            v.pop("P", None)
            v["lower"] = V.dyadic(r, -4, 4, bits=3)
            v["upper"] = v["lower"] + v["w"] * v["nx"]
            v["ext"] = {"sigma": v["w"] * r.choice([0.5, 1.0, 2.0]), "tau": r.choice([10.0, 40.0])}
    nsteps = r.randint(60, 160) if long_ else r.randint(6, 26)
    steps = []
    prev = None
    for s in range(nsteps):
        boundary = s > 0 and r.random() < 0.12
        zs, es = [], []
        if prev is not None and (r.random() < 0.4 or (boundary and r.random() < 0.6)):
            zs = list(prev)    # stay where we were (same bins; repeated step of a run boundary)
        else:
            for v in vars_:
                m = r.random()
                span = v["w"] * v["nx"]
                if m < 0.3:      # exactly on a bin edge (including both boundaries)
                    z = v["lower"] + r.randint(-1, v["nx"] + 1) * v["w"]
                elif m < 0.88:   # inside the grid
                    z = v["lower"] + r.randint(0, v["nx"] * 8 - 1) * v["w"] / 8 + v["w"] / 16
                elif m < 0.92:   # just outside a boundary, by less than one bin (down to 1/1024 of a bin)
                    dz = v["w"] / r.choice([2, 16, 1024])
                    z = (v["lower"] - dz) if r.random() < 0.5 else (v["upper"] + dz)
                else:            # far outside
                    z = v["lower"] + r.choice([-1, 1]) * (span + r.randint(1, 24) * v["w"] / 8) + (span if r.random() < .5 else 0)
                if v["periodic"] and r.random() < 0.4:
                    z += r.randint(-2, 2) * v["P"]
                if v["kind"] == "dist" and z <= 0.0:
                    z = 0.125     # a distance stays positive
                zs.append(z)
        for d, v in enumerate(vars_):
            m = r.random()
            if m < 0.04 and v["hk"] is not None:
                # engine force that cancels the restraint force exactly: measured total force is zero
                # as long as the ABF force is zero (aims at the ft.norm2() > 0 guard of colvar.cpp)
                es.append(-harm_force(v, colvar_value(v, zs[d])))
            elif m < 0.2:
                es.append(0.0)
            else:
                es.append(V.dyadic(r, -8, 8, bits=3))
        steps.append({"z": zs, "e": es, "boundary": boundary})
        prev = zs
    if c["events"]:
        for _ in range(r.choice([1, 1, 2, 3])):
            t = r.randint(2, nsteps - 1)
            # fmt: the state goes through a text file, a binary file, a string (formatted) or a memory buffer (unformatted)
            steps[t]["event"] = {"kind": "restart" if r.random() < 0.65 else "reload", "fmt": r.choice(["text", "binary", "str", "buf"])}
            # the first step after a load re-executes the configuration that was saved (Colvars refuses a value that
            # differs from the saved one by more than half a bin width)
            steps[t]["z"] = list(steps[t - 1]["z"])
            if steps[t]["event"]["kind"] == "restart":
                steps[t]["boundary"] = steps[t]["boundary"] and r.random() < 0.3
                if r.random() < 0.4:
                    # the job that loads the state has a configuration that legally differs: the grids are those of the
                    # file, the ramp, the cap and applyBias those of the NEW configuration
                    nf = r.randint(1, 6)
                    steps[t]["event"]["newcfg"] = {"full": nf, "min": (r.randint(0, nf - 1) if nf > 1 else 0), "cap": r.random() < 0.5,
                                                   "maxf": [r.choice([0.0, 0.5, 1.0, 2.0, 8.0]) for _ in range(nd)], "apply": r.random() < 0.85}
    for t in range(1, nsteps):
        if steps[t].get("event"):
            steps[t]["z"] = list(steps[t - 1]["z"])
    # scale of the data: every length of the case (boundaries, widths, wall positions, restraint centres, values) multiplied by a
    # power of two around 1e-8 or 1e8 (exact), the forces staying of order one
    # (scales around 1e-8 are refused by the grid code itself: absolute tolerances 1e-10 on boundaries and widths, C15/C16)
    c["scale"] = r.choice([1.0, 1.0, 1.0, 2.0 ** -10, 2.0 ** 27])
    if c.get("eabf"):
        c["scale"] = 1.0
    if c["scale"] != 1.0:
        S = c["scale"]
        for d, v in enumerate(vars_):
            if v["kind"] == "lin2":
                continue          # (its second atom sits at a fixed offset)
            for k_ in ("lower", "upper", "w", "hc", "c", "P"):
                if k_ in v:
                    v[k_] *= S
            if v.get("walls"):
                v["walls"]["lo"] *= S
                v["walls"]["hi"] *= S
            for st in steps:
                st["z"][d] *= S
    # a configuration that must be refused, given in the middle of the session (a second abf with minSamples >= fullSamples, or an
    # abf on a variable that does not exist): the running bias must be unaffected
    if r.random() < 0.2:
        steps[r.randint(1, nsteps - 1)]["badconfig"] = r.choice(["minfull", "novar"])
    # the abf block without a name: the bias gets the default name abf1
    c["unnamed"] = r.random() < 0.2
    if c["late"]:
        npre = r.randint(1, 3)
        c["pre"] = [{"z": st["z"], "e": st["e"]} for st in steps[:npre]]
        steps = steps[npre:]
        steps[0]["boundary"] = False
    if c["toggle"]:
        cur = c["apply"]
        for st in steps[1:]:
            if r.random() < 0.25:
                cur = not cur
            st["apply"] = cur
    c["steps"] = steps
    return c


def eff_cfg(c, t):
    """the configuration of the job that executes step t: that of the case, with the changes of the last restart before or at t"""
    out = c
    for u in range(t + 1):
        nc = c["steps"][u].get("event", {}).get("newcfg") if u < len(c["steps"]) else None
        if nc:
            out = dict(c)
            out.update(nc)
    return out


def apply_at(c, st):
    """applyBias at a step: the configured value (of the job that executes the step), or what the last `cv bias a set apply_force` left"""
    if "apply" in st:
        return st["apply"]
    if any(s_.get("event", {}).get("newcfg") for s_ in c["steps"]):
        for t, s_ in enumerate(c["steps"]):
            if s_ is st:
                return eff_cfg(c, t)["apply"]
    return c["apply"]


def cv_applies(c, st, d):
    """f_cv_apply_force of variable d at a step: some bias applies forces to it"""
    return apply_at(c, st) or has_other(c["vars"][d])


def inputs_of(c):
    i = c.get("input")
    return [] if not i else ([i] if isinstance(i, dict) else i)


def input_grid_files(c, ds):
    """<prefix>.count and <prefix>.grad in the multicolumn format (inputPrefix) of one data set"""
    vs, nd = c["vars"], len(c["vars"])
    hdr = ["# %d" % nd] + ["# %s %s %d %d" % (fmt(v["lower"]), fmt(v["w"]), v["nx"], 1 if v["periodic"] else 0) for v in vs] + [""]
    lc, lg = list(hdr), list(hdr)
    ix = [0] * nd
    for a in range(len(ds["cnt"])):
        rem = a
        for d in range(nd - 1, -1, -1):
            ix[d] = rem % vs[d]["nx"]
            rem //= vs[d]["nx"]
        xs = " ".join(fmt(v["lower"] + (i + 0.5) * v["w"]) for v, i in zip(vs, ix))
        lc.append(xs + " %d" % ds["cnt"][a])
        lg.append(xs + " " + " ".join(fmt(g) for g in ds["grad"][a * nd:(a + 1) * nd]))
    return "\n".join(lc) + "\n", "\n".join(lg) + "\n"


def colvar_value(v, z):
    return wrap(z, v["c"], v["P"]) if v["periodic"] else z


def kind(v):
    return v.get("kind", "dz")


def jac_force(c, v, z):
    """colvar::fj = Jacobian derivative * kT, with the floating-point operations of the code:
    distance: jd = 2.0 / x; fj = jd * 1.0 / 1.0; fj *= boltzmann * temperature.  distanceZ: jd = 0"""
    if kind(v) != "dist":
        return 0.0
    x = colvar_value(v, z)
    jd = (2.0 / x) if x != 0.0 else 0.0
    return jd * (KB * c.get("T", 0.0))


def jac_forces(c, st):
    return [jac_force(c, v, z) for v, z in zip(c["vars"], st["z"])]


def atom_map(c):
    """1-based atom numbers of each variable: (main, None) for distanceZ, (moving atom, atom at the origin) for distance"""
    out, n = [], 0
    for v in c["vars"]:
        if kind(v) in ("dist", "lin2"):
            out.append((n + 2, n + 1))
            n += 2
        else:
            out.append((n + 1, None))
            n += 1
    return out, n


def harm_force(v, x):
    if v["hk"] is None:
        return 0.0
    d = x - v["hc"]
    if v["periodic"]:
        d = pdiff(d, v["P"])
    return -0.5 * v["hk"] / (v["w"] * v["w"]) * (2.0 * d)


def walls_force(v, x):
    """colvarbias_restraint_harmonic_walls::restraint_force: -k * scale / w^2 * dist, dist = x - wall beyond a wall, 0 between"""
    wl = v.get("walls")
    if not wl:
        return 0.0
    dist = (x - wl["lo"]) if x < wl["lo"] else ((x - wl["hi"]) if x > wl["hi"] else 0.0)
    return -wl["k"] * 1.0 / (v["w"] * v["w"]) * dist


def has_other(v):
    """a bias other than the abf applies forces to the variable (f_cv_apply_force)"""
    return v["hk"] is not None or v.get("lk") is not None or bool(v.get("walls"))


def other_forces(c, st):
    """forces applied through colvar::fb by the other biases: harmonic, linear (-1.0 * k / w), walls without bypass"""
    out = []
    for v, z in zip(c["vars"], st["z"]):
        x = colvar_value(v, z)
        if v["hk"] is not None:
            out.append(harm_force(v, x))
        elif v.get("lk") is not None:
            out.append(-1.0 * v["lk"] / v["w"] * 1.0)
        elif v.get("walls") and not v["walls"]["bypass"]:
            out.append(walls_force(v, x))
        else:
            out.append(0.0)
    return out


def bypass_forces(c, st):
    """forces applied through colvar::fb_actual (biases that bypass the extended Lagrangian: harmonicWalls by default)"""
    return [(walls_force(v, colvar_value(v, z)) if v.get("walls") and v["walls"]["bypass"] else 0.0) for v, z in zip(c["vars"], st["z"])]


def fmt(x):
    return repr(float(x))


def scaling_grid_file(c):
    """scaledBiasingForceFactorsGrid in the multicolumn format of colvar_grid::read_multicol"""
    vs = c["vars"]
    L = ["# %d" % len(vs)]
    for v in vs:
        L.append("# %s %s %d %d" % (fmt(v["lower"]), fmt(v["w"]), v["nx"], 1 if v["periodic"] else 0))
    L.append("")
    ix = [0] * len(vs)
    for a in range(len(c["sfac"])):
        rem = a
        for d in range(len(vs) - 1, -1, -1):
            ix[d] = rem % vs[d]["nx"]
            rem //= vs[d]["nx"]
        L.append(" ".join(fmt(v["lower"] + (i + 0.5) * v["w"]) for v, i in zip(vs, ix)) + " " + fmt(c["sfac"][a]))
    return "\n".join(L) + "\n"


def scale_factor(c, st):
    """factor applied to the ABF force at a step (colvarbias::communicate_forces)"""
    if not c.get("scaled"):
        return Fr(1)
    ix = bin_of(c, st)
    return Fr(c["sfac"][address(c, ix)]) if in_grid(c, ix) else Fr(1)


def config_lines(c, part="all"):
    """the configuration given to a new instance (first start and every restart); part = "noabf": everything but the abf
    block, "abf": the abf block alone (a bias defined while the simulation is running)"""
    nd = len(c["vars"])
    amap, natoms = atom_map(c)
    L = ["config EOF"]
    for d, v in enumerate(c["vars"]):
        L += ["colvar {", "  name v%d" % d, "  lowerBoundary %s" % fmt(v["lower"]), "  upperBoundary %s" % fmt(v["upper"]),
              "  width %s" % fmt(v["w"])]
        if c.get("tsf", 1) > 1:
            L += ["  timeStepFactor %d" % c["tsf"]]
        if v["sub"]:
            L += ["  subtractAppliedForce on"]
        if v.get("ext"):
            L += ["  extendedLagrangian on", "  extendedFluctuation %s" % fmt(v["ext"]["sigma"]), "  extendedTimeConstant %s" % fmt(v["ext"]["tau"])]
        if kind(v) == "dist":
            L += ["  distance {", "    group1 { atomNumbers %d }" % amap[d][1], "    group2 { atomNumbers %d }" % amap[d][0]]
            if v.get("onesite"):
                L += ["    oneSiteTotalForce on"]
        elif kind(v) == "lin2":
            L += ["  distanceZ {", "    main { atomNumbers %d }" % amap[d][0], "    ref { dummyAtom (0,0,0) }", "    axis (0,0,1)",
                  "    oneSiteTotalForce on", "  }",
                  "  distanceZ {", "    componentCoeff %s" % fmt(v["c2"]), "    main { atomNumbers %d }" % amap[d][1],
                  "    ref { dummyAtom (0,0,0) }", "    axis (0,0,1)", "    oneSiteTotalForce on"]
        else:
            L += ["  distanceZ {", "    main { atomNumbers %d }" % amap[d][0], "    ref { dummyAtom (0,0,0) }", "    axis (0,0,1)",
                  "    oneSiteTotalForce on"]
        if v["periodic"]:
            L += ["    period %s" % fmt(v["P"]), "    wrapAround %s" % fmt(v["c"])]
        L += ["  }", "}"]
    abf = ["abf {"] + ([] if c.get("unnamed") else ["  name a"]) + ["  colvars " + " ".join("v%d" % d for d in range(nd)),
           "  fullSamples %d" % c.get("full_cfg", c["full"]), "  minSamples %d" % c.get("min_cfg", c["min"]),
           "  applyBias %s" % ("on" if c["apply"] else "off"), "  updateBias %s" % ("on" if c["update"] else "off")]
    if c["cap"]:
        abf += ["  maxForce " + " ".join(fmt(m) for m in c["maxf"])]
    if c.get("szd_cfg", c["szd"]):
        abf += ["  stepZeroData on"]
    if c.get("tsf", 1) > 1:
        abf += ["  timeStepFactor %d" % c["tsf"]]
    if c["hideJ"]:
        abf += ["  hideJacobian on"]
    if c.get("scaled"):
        abf += ["  scaledBiasingForce on", "  scaledBiasingForceFactorsGrid %s.sf" % c["id"]]
    if inputs_of(c):
        abf += ["  inputPrefix " + " ".join("%s_in%d" % (c["id"], n) for n in range(len(inputs_of(c))))]
    abf += ["}"]
    harm = []
    hv = [d for d, v in enumerate(c["vars"]) if v["hk"] is not None]
    for d in hv:
        v = c["vars"][d]
        harm += ["harmonic {", "  name h%d" % d, "  colvars v%d" % d, "  centers %s" % fmt(v["hc"]),
                 "  forceConstant %s" % fmt(v["hk"]), "}"]
    for d, v in enumerate(c["vars"]):
        if v.get("lk") is not None:
            harm += ["linear {", "  name l%d" % d, "  colvars v%d" % d, "  centers %s" % fmt(v["lower"]),
                     "  forceConstant %s" % fmt(v["lk"]), "}"]
        if v.get("walls"):
            wl = v["walls"]
            harm += ["harmonicWalls {", "  name w%d" % d, "  colvars v%d" % d, "  lowerWalls %s" % fmt(wl["lo"]), "  upperWalls %s" % fmt(wl["hi"]),
                     "  forceConstant %s" % fmt(wl["k"]), "  bypassExtendedLagrangian %s" % ("on" if wl["bypass"] else "off"), "}"]
    if part == "abf":
        return ["config EOF"] + abf + ["EOF"]
    if part == "noabf":
        return L + harm + ["EOF"]
    L += (abf + harm) if c["abf_first"] else (harm + abf)
    L += ["EOF"]
    return L


def emit_inputs(c, st, amap):
    """positions and engine forces of one step"""
    L = []
    for d in range(len(c["vars"])):
        a, a0 = amap[d]
        L.append("pos %d 0 0 %s" % (a, V.hexf(st["z"][d])))
        L.append("eforce %d 0 0 %s" % (a, V.hexf(st["e"][d])))
        if a0 is not None and kind(c["vars"][d]) == "lin2":
            # value = z_a + c2 * z_b with z_b = c2/4: z_a = value - 1/4; both components feel the variable force e
            c2 = c["vars"][d]["c2"]
            L[-2] = "pos %d 0 0 %s" % (a, V.hexf(st["z"][d] - 0.25))
            L.append("pos %d 0 0 %s" % (a0, V.hexf(0.25 * c2)))
            L.append("eforce %d 0 0 %s" % (a0, V.hexf(c2 * st["e"][d])))
        elif a0 is not None:     # the partner atom of a distance stays at the origin and feels the opposite force
            L.append("pos %d 0 0 0" % a0)
            L.append("eforce %d 0 0 %s" % (a0, V.hexf(-st["e"][d])))
    return L


def bname(c):
    """name of the abf bias: given, or the default name of the first abf"""
    return "abf1" if c.get("unnamed") else "a"


def state_name(c, n):
    return "%s_r%d" % (c["id"], n)


def scenario(c):
    nd = len(c["vars"])
    amap, natoms = atom_map(c)
    L = ["echo CASE %s" % c["id"], "natoms %d" % natoms, "samestep %d" % (1 if c["same"] else 0), "includecv 1",
         "temperature %s" % fmt(c.get("T", 0.0)), "prefix %s" % c["id"], "new"]
    if c.get("step0"):
        L.append("setstep %d" % c["step0"])
    if c.get("pre"):
        # the abf bias is defined after the engine has made some steps with the variables and the other biases
        L += config_lines(c, "noabf")
        L += ["show cv 0 energy 0 bias 0 atomf 0"]
        for st in c["pre"]:
            L += emit_inputs(c, st, amap) + ["step"]
        L += config_lines(c, "abf")
    else:
        L += config_lines(c)
        L += ["show cv 0 energy 0 bias 0 atomf 0"]
    cur_apply = c["apply"]
    nev = 0
    for st in c["steps"]:
        ev = st.get("event")
        if ev:
            # state file event before this step: save, (new instance with the same configuration,) load, dump
            L.append("save %s %s.colvars.state" % ("text" if ev["fmt"] in ("text", "str") else "binary", state_name(c, nev)))
            if ev["kind"] == "restart":
                L.append("new")
                cnew = dict(c)
                cnew.update(ev.get("newcfg", {}))
                for k_ in ("full_cfg", "min_cfg"):
                    if ev.get("newcfg"):
                        cnew.pop(k_, None)
                c = cnew           # later restarts start from this configuration
                L += config_lines(c)
                cur_apply = c["apply"]
            if ev["fmt"] in ("str", "buf"):
                L += ["load%s %s.colvars.state" % (ev["fmt"], state_name(c, nev)), "echo LOADED", "dumpabf %s" % bname(c)]
            else:
                L += ["load %s" % state_name(c, nev), "echo LOADED", "dumpabf %s" % bname(c)]
            nev += 1
        L += st.get("script", [])      # script commands given before this step (regression scenarios)
        if st.get("badconfig"):
            L += ["echo BADCONFIG", "config EOF", "abf {", "  name bad",
                  "  colvars %s" % ("v0" if st["badconfig"] == "minfull" else "nosuchvariable"),
                  "  fullSamples 2", "  minSamples %d" % (5 if st["badconfig"] == "minfull" else 0), "}", "EOF"]
        L += emit_inputs(c, st, amap)
        if apply_at(c, st) != cur_apply:
            cur_apply = apply_at(c, st)
            L.append("script cv bias %s set apply_force %d" % (bname(c), 1 if cur_apply else 0))
        if st["boundary"]:
            L.append("runboundary")
        L.append("step")
        L.append("dumpabf %s" % bname(c))
    # second observation channel: the ABF block of the saved state (samples / gradient = value_output)
    L.append("save text %s.state" % c["id"])
    # third channel: the <prefix>.count / <prefix>.grad files written at the end of the run
    L.append("postrun")
    return L


def event_dataset(c, im, t, n):
    """(counts, gradients) that the state file written before step t contained: text -> the decimal values of the file,
    binary -> value_output = sum / count of the arrays dumped after step t-1 (the doubles written)"""
    nd = len(c["vars"])
    prev = im["steps"][t - 1]
    cnt = list(prev["cnt"])
    ev = c["steps"][t]["event"]
    if ev["fmt"] in ("text", "str"):
        st = im.get("rstates", {}).get(n)
        if st is None:
            return None
        return st
    grad = [(prev["sum"][i] / cnt[i // nd] if cnt[i // nd] > 0 else 0.0) for i in range(len(prev["sum"]))]
    return cnt, grad


def model_case(c, im=None):
    nd = len(c["vars"])
    vs = c["vars"]
    parts = ["ABF", str(nd)]
    parts += [V.hexf(v["lower"]) for v in vs] + [V.hexf(v["w"]) for v in vs] + [str(v["nx"]) for v in vs]
    parts += ["1" if v["periodic"] else "0" for v in vs]
    parts += [str(c["full"]), str(c["min"]), str(int(c["update"])), str(int(c["cap"]))]
    parts += [V.hexf(m) for m in c["maxf"]]
    parts += [str(int(c["szd"])), str(int(c["same"]))] + [str(int(v["sub"])) for v in vs]
    parts += [str(int(c["hideJ"]))]
    parts += [str(int(has_other(v))) for v in vs]
    nt = 1
    for v in vs:
        nt *= v["nx"]
    parts += [str(int(bool(c.get("scaled"))))] + [V.hexf(x) for x in (c["sfac"] if c.get("scaled") else [1.0] * nt)]
    parts += [str(c.get("tsf", 1)), str(c.get("step0", 0) if c.get("tsf", 1) > 1 else 0), str(len(c.get("pre", [])))]
    parts += [str(len(inputs_of(c)))]
    for ds in inputs_of(c):
        parts += [str(x) for x in ds["cnt"]] + [V.hexf(g) for g in ds["grad"]]
    nev = sum(1 for st in c["steps"] if st.get("event"))
    parts += [str(len(c["steps"]) + nev)]
    n = 0
    for t, st in enumerate(c["steps"]):
        ev = st.get("event")
        if ev:
            ds = event_dataset(c, im, t, n) if im is not None and t - 1 < len(im["steps"]) else None
            if ds is None:
                ds = ([0] * nt, [0.0] * (nt * nd))
            parts += ["1" if ev["kind"] == "restart" else "2"] + [str(x) for x in ds[0]] + [V.hexf(g) for g in ds[1]]
            if ev["kind"] == "restart":
                nc = ev.get("newcfg")
                parts += (["1", str(nc["full"]), str(nc["min"]), str(int(nc["cap"]))] + [V.hexf(m_) for m_ in nc["maxf"]]) if nc else ["0"]
            n += 1
        parts += ["0"]
        parts += [V.hexf(colvar_value(v, z)) for v, z in zip(vs, st["z"])]
        parts += [V.hexf(e) for e in st["e"]]
        parts += [V.hexf(o) for o in other_forces(c, st)]
        parts += [V.hexf(j) for j in jac_forces(c, st)]
        parts += [str(int(st["boundary"])), str(int(apply_at(c, st)))]
        parts += [V.hexf(w_) for w_ in bypass_forces(c, st)]
    return " ".join(parts)


# ------------------------------------------------------------------------------- parsing
KEYS = ("bin", "fbin", "cf", "tf", "af", "cnt", "sum", "go", "scr", "xv", "zc", "zs", "per", "nx")


def parse_fields(tokens):
    """'bin 1 fbin 1 cf 0x.. ...' -> dict key -> list of numbers"""
    out = {}
    cur = None
    for t in tokens:
        if t in KEYS:
            cur = t
            out[cur] = []
        elif cur is not None:
            # a token cut short by a crash of the implementation (or garbage) never compares equal
            try:
                if cur in ("bin", "fbin", "cnt", "per", "nx", "scr", "zc"):
                    out[cur].append(int(t))
                else:
                    out[cur].append(float.fromhex(t))
            except ValueError:
                out[cur].append(float("nan"))
    return out


nextload = False


def parse_impl(text):
    global nextload
    nextbad = False
    """output of c04unit for a batch -> {case id: {"config": str, "steps": [fields], "err": [..]}}"""
    res = {}
    cur = None
    for line in text.split("\n"):
        w = line.split()
        if not w:
            continue
        if w[0] == "echo" and len(w) >= 3 and w[1] == "CASE":
            cur = {"config": None, "steps": [], "errs": [], "loads": [], "loaderr": []}
            nextload = False
            nextbad = False
            res[w[2]] = cur
        elif cur is None:
            continue
        elif w[0] == "echo" and len(w) >= 2 and w[1] == "LOADED":
            nextload = True
        elif w[0] == "LOAD":
            cur["loaderr"].append(w[1] if len(w) > 1 else "")
        elif w[0] == "echo" and len(w) >= 2 and w[1] == "BADCONFIG":
            nextbad = True
        elif w[0] == "CONFIG":
            if nextbad:
                cur.setdefault("badcfg", []).append(line)
                nextbad = False
            elif cur["config"] is None or "err=ok" in cur["config"]:
                cur["config"] = line
        elif w[0] == "STEP":
            cur["errs"].append(w[2] if len(w) > 2 else "")
        elif w[0] == "ABF":
            if nextload:
                cur["loads"].append(parse_fields(w[1:]))
                nextload = False
            else:
                cur["steps"].append(parse_fields(w[1:]))
    return res


def parse_model(line):
    segs = [s.strip() for s in line.split(";")]
    steps, spec = [], None
    for s in segs:
        w = s.split()
        if not w:
            continue
        if w[0] == "SPEC":
            spec = parse_fields(w[1:])
        else:
            steps.append(parse_fields(w))
    return steps, spec


# ------------------------------------------------------------------------------- oracle
def clocks(c):
    out = []
    rel, started = 0, False
    if c.get("pre"):
        rel, started = len(c["pre"]) - 1, True
    for st in c["steps"]:
        ev = st.get("event")
        if ev:
            rel = 0        # it_restart := it
            if ev["kind"] == "restart":
                started = False
        if not started:
            cont = st["boundary"]
            started = True
        elif st["boundary"]:
            cont = True
        else:
            rel += 1
            cont = False
        out.append((rel, cont))
    return out


def bin_of(c, st):
    ix = []
    for v, z in zip(c["vars"], st["z"]):
        x = Fr(colvar_value(v, z))
        ix.append(floor_fr((x - Fr(v["lower"])) / Fr(v["w"])))
    return ix


def in_grid(c, ix):
    return all(0 <= i < v["nx"] for i, v in zip(ix, c["vars"]))


def address(c, ix):
    a = 0
    for i, v in zip(ix, c["vars"]):
        a = a * v["nx"] + i
    return a


def expected_samples(c):
    """The attributed samples of the property: (address of the bin occupied when the force was exerted,
    total force minus what Colvars itself applied [the ABF force; every Colvars force with
    subtractAppliedForce]) = engine force (+ other biases' forces when they are part of the measured
    total force and not subtracted) (+ the Jacobian force 2kT/r of a distance, unless hideJacobian).  Returns (list of (address, [Fraction]*nd, step), zero_total_steps)."""
    nd = len(c["vars"])
    clk = clocks(c)
    out = []
    n = len(c["steps"])
    for t, st in enumerate(c["steps"]):
        if not c["update"]:
            continue
        if c["same"]:
            rel, cont = clk[t]
            elig = ((rel > 0 and not cont) or c["szd"]) and (c.get("step0", 0) + rel) % c.get("tsf", 1) == 0
        else:
            if t + 1 >= n:
                continue
            ev1 = c["steps"][t + 1].get("event")
            if ev1:
                # the force of the last step before a state is read belongs to the replaced history: a new instance never
                # receives it, and after a load into the running instance the variables collect no total force at the next step
                continue
            rel, cont = clk[t + 1]
            elig = rel > 0 and not cont
        if not elig:
            continue
        ix = bin_of(c, st)
        if not in_grid(c, ix):
            continue
        o = other_forces(c, st)
        wb = bypass_forces(c, st)
        j = jac_forces(c, st)
        F = []
        for d, v in enumerate(c["vars"]):
            f = Fr(st["e"][d])
            if not c["same"] and not v["sub"]:
                f += Fr(o[d]) + Fr(wb[d])     # the forces of the other biases of both kinds stay in the sample
            if not c["hideJ"]:
                f += Fr(j[d])       # the Jacobian term is part of the total force unless hideJacobian
            F.append(f)
        out.append((address(c, ix), F, t if c["same"] else t + 1))     # (bin, force, step at which it is delivered)
    return out


def ramp(c, N):
    if N < c["min"]:
        return Fr(0)
    if N < c["full"]:
        return Fr(N - c["min"], c["full"] - c["min"])
    return Fr(1)


def expected_abf_force(c, st, cnt, sm):
    """applied ABF force from the implementation's own arrays (exact)"""
    nd = len(c["vars"])
    ix = bin_of(c, st)
    if not apply_at(c, st) or not in_grid(c, ix):
        return [Fr(0)] * nd
    a = address(c, ix)
    N = cnt[a]
    f = []
    for d in range(nd):
        mean = Fr(sm[a * nd + d]) / N if N > 0 else Fr(0)
        f.append(ramp(c, N) * mean)
    if nd == 1 and c["vars"][0]["periodic"]:
        nx = c["vars"][0]["nx"]
        # zero mean: the grid average of the SAME ramped estimates
        avg = sum((ramp(c, cnt[b]) * Fr(sm[b]) / cnt[b] if cnt[b] > 0 else Fr(0)) for b in range(nx)) / nx
        f[0] -= avg
    if c["cap"]:
        for d in range(nd):
            m = Fr(c["maxf"][d])
            if abs(f[d]) > m:
                f[d] = m if f[d] > 0 else -m
    return f


def close(a, b, tol=1e-9):
    a, b = float(a), float(b)
    return abs(a - b) <= tol * max(1.0, abs(a), abs(b))


def zero_total_steps(c, impl_steps):
    """steps at which a variable with subtractAppliedForce had an exactly zero measured total force
    although Colvars was applying a non-zero force to it (lagged convention)"""
    hits = []
    if c["same"]:
        return hits
    for t, st in enumerate(c["steps"]):
        if t >= len(impl_steps):
            break
        af = impl_steps[t].get("af", [])
        for d, v in enumerate(c["vars"]):
            if v["sub"] and d < len(af) and af[d] != 0.0 and Fr(st["e"][d]) + Fr(af[d]) == 0:
                hits.append((t, d))
    return hits


def value_zero_steps(c, impl_steps):
    """steps (lagged convention) at which a variable had the value exactly 0 while Colvars applied a force to it"""
    hits = []
    if c["same"]:
        return hits
    for t, st in enumerate(c["steps"]):
        if t >= len(impl_steps):
            break
        af = impl_steps[t].get("af", [])
        for d, v in enumerate(c["vars"]):
            if colvar_value(v, st["z"][d]) == 0.0 and d < len(af) and af[d] != 0.0:
                hits.append((t, d))
    return hits


def parse_state(path):
    """ABF block of a text state file -> (counts, gradients) as printed (value_output, 14 digits)"""
    try:
        txt = open(path, errors="replace").read()      # a binary state has no text block: None
    except OSError:
        return None
    m = re.search(r"abf\s*\{.*?\nsamples\s*\n(.*?)\n\s*\ngradient\s*\n(.*?)\n(?:\s*\n|\})", txt, flags=re.S)
    if not m:
        return None
    try:
        return [int(x) for x in m.group(1).split()], [float(x) for x in m.group(2).split()]
    except ValueError:
        return None


def parse_multicol(path, nd, mult):
    """values of a multicolumn grid file (colvar_grid::write_multicol): per line nd coordinates then mult values"""
    try:
        out = []
        for l in open(path):
            w = l.split()
            if not w or w[0].startswith("#"):
                continue
            out += [float(x) for x in w[nd:nd + mult]]
        return out
    except (OSError, ValueError):
        return None


def eabf_effective(c, impl_steps):
    """eABF: the history the bias sees.  Value of each variable = its extended coordinate (taken from the implementation: its
    integrator is C17's subject), system force = the spring force on the extended coordinate f = (-0.5 k) * (2 (x_ext - x)),
    k = kB T / sigma^2, computed here from the positions given to the engine"""
    import copy
    ce = copy.deepcopy(c)
    ce["eabf_actual"] = [list(st["z"]) for st in c["steps"]]
    for t, st in enumerate(ce["steps"]):
        if t >= len(impl_steps) or "xv" not in impl_steps[t]:
            return None
        xe = impl_steps[t]["xv"]
        if any(not (abs(x_) < 1e6) for x_ in xe):
            return "diverged"      # the extended coordinate ran away (bin numbers beyond int): skipped, not a C04 matter
        for d, v in enumerate(c["vars"]):
            k = KB * c["T"] / (v["ext"]["sigma"] * v["ext"]["sigma"])
            st["e"][d] = (-0.5 * k) * (2.0 * (xe[d] - c["steps"][t]["z"][d]))
            st["z"][d] = xe[d]
    for v in ce["vars"]:
        v.pop("ext", None)
    ce["eabf"] = False
    return ce


def czar_oracle(c, ce, impl_steps):
    """z_samples / z_gradients as colvarbias_abf::update fills them: at every step at which the bias accumulates, the sample
    (force of the previous step) is added to the bin of the ACTUAL value of the current step"""
    nd = len(c["vars"])
    nt = 1
    for v in c["vars"]:
        nt *= v["nx"]
    clk = clocks(ce)
    zc, zs = [0] * nt, [Fr(0)] * (nt * nd)
    for t in range(1, len(ce["steps"])):
        rel, cont = clk[t]
        if not (ce["update"] and rel > 0 and not cont):
            continue
        ix = bin_of(c, c["steps"][t])
        if not in_grid(c, ix):
            continue
        st = ce["steps"][t - 1]
        o = other_forces(ce, st)
        a = address(c, ix)
        zc[a] += 1
        for d, v in enumerate(ce["vars"]):
            zs[a * nd + d] -= Fr(st["e"][d]) + (Fr(0) if v["sub"] else Fr(o[d]))
    last = impl_steps[-1]
    if last.get("zc") != zc:
        return [("czar:z-samples", "z_samples %s differ from the number of accumulation steps per bin of the actual value %s" % (last.get("zc"), zc))]
    if "zs" not in last or not all(close(a_, b_) for a_, b_ in zip(zs, last["zs"])):
        return [("czar:z-gradients", "z_gradients %s differ from minus the summed samples per bin of the actual value %s" % (last.get("zs"), [float(x) for x in zs]))]
    return []


def oracle(c, impl_steps, state=None, files=None, loads=None):
    """property oracle on the implementation's output alone; returns list of (signature, text)"""
    bad = []
    nd = len(c["vars"])
    nt = 1
    for v in c["vars"]:
        nt *= v["nx"]
    if len(impl_steps) != len(c["steps"]):
        return [("oracle:steps", "implementation reported %d steps of %d" % (len(impl_steps), len(c["steps"])))]
    # applied force at every step
    tsf = c.get("tsf", 1)
    clk_ = clocks(c)
    per1 = nd == 1 and c["vars"][0]["periodic"]
    for t, (st, f) in enumerate(zip(c["steps"], impl_steps)):
        if (c.get("step0", 0) + clk_[t][0]) % tsf != 0:
            # bias and variables asleep: nothing is computed and nothing may be applied
            if any(x != 0.0 for x in f["af"]):
                bad.append(("oracle:af", "step %d: timeStepFactor %d, the variables are asleep but apply the force %s" % (t, tsf, f["af"])))
                break
            continue
        ce = eff_cfg(c, t)
        exp = expected_abf_force(ce, st, f["cnt"], f["sum"])
        if not all(close(a, b) for a, b in zip(exp, f["cf"])):
            evs = [(u, c["steps"][u]["event"]["kind"], c["steps"][u]["event"]["fmt"]) for u in range(t + 1) if c["steps"][u].get("event")]
            over = ce["cap"] and any(abs(Fr(x)) > Fr(m) and not close(abs(x), m) for x, m in zip(f["cf"], ce["maxf"]))
            # the same formula without the cap: is the cap what is wrong?
            c_nocap = dict(ce)
            c_nocap["cap"] = False
            unc = expected_abf_force(c_nocap, st, f["cnt"], f["sum"])
            cap_active = ce["cap"] and any(abs(u_) > Fr(m) for u_, m in zip(unc, ce["maxf"]))
            if over or cap_active:
                bad.append(("force:cap", "step %d: maxForce %s: the ABF force is %s%s; ramp(count)*mean%s of the arrays at this step (counts %s, sums %s) is %s before the cap, "
                            "so the capped force must be %s (the cap is the last operation: it applies to the zero-mean force)"
                            % (t, ce["maxf"], f["cf"], " (LARGER in magnitude than maxForce)" if over else "",
                               " minus the mean over all bins of the ramped means" if per1 else "", f["cnt"], f["sum"],
                               [float(x) for x in unc], [float(x) for x in exp])))
            elif per1:
                bad.append(("force:periodic-zero-mean", "step %d: the ABF force on the periodic variable is %s, but the ramped mean of the current bin minus the mean over "
                            "all bins of the ramped means, computed from the samples/gradients arrays at this step (counts %s, sums %s), is %s%s"
                            % (t, f["cf"], f["cnt"], f["sum"], [float(x) for x in exp],
                               ("; state-file events (step, kind, format) before this step: %s" % evs) if evs else "")))
            else:
                bad.append(("oracle:cf", "step %d: ABF force %s, but ramp(count)*mean(-force) [cap] of the stored arrays gives %s%s"
                            % (t, f["cf"], [float(x) for x in exp], ("; state-file events before this step: %s" % evs) if evs else "")))
            break
        o = other_forces(c, st)
        # the hidden Jacobian force is compensated only by a variable that applies forces
        jj = [(j if c["hideJ"] and cv_applies(c, st, d) else 0.0) for d, j in enumerate(jac_forces(c, st))]
        sf = scale_factor(c, st)
        # impulse multiple time stepping: the force applied at an awake step is multiplied by timeStepFactor
        wb = bypass_forces(c, st)
        o = [Fr(a_) + Fr(b_) for a_, b_ in zip(o, wb)]      # every other bias, through fb or fb_actual
        if not all(close(Fr(a) * sf * tsf + Fr(b) - Fr(j) * tsf, g) for a, b, j, g in zip(f["cf"], o, jj, f["af"])):
            bad.append(("oracle:af", "step %d: force applied to the variables %s is not (ABF force %s * scaling factor %s - hidden Jacobian force %s) * timeStepFactor %d + restraint force %s" % (t, f["af"], f["cf"], float(sf), jj, tsf, o)))
            break
    # final arrays = attributed samples
    smp = expected_samples(c)
    cnt = [0] * nt
    sm = [Fr(0)] * (nt * nd)
    for ds in inputs_of(c):
        # inputPrefix: counts read, and gradient read * count read, of every data set
        for a in range(nt):
            cnt[a] += ds["cnt"][a]
        for i in range(nt * nd):
            sm[i] += Fr(ds["grad"][i]) * ds["cnt"][i // nd]
    # state-file events: the grids that were loaded must be the grids that were saved, and the final arrays are the
    # grids of the last load plus the samples delivered after it
    evsteps = [t for t, st in enumerate(c["steps"]) if st.get("event")]
    since = 0
    if evsteps:
        if loads is None or len(loads) != len(evsteps):
            bad.append(("oracle:restart-grids", "%d state-file events but %s dumps after a load" % (len(evsteps), None if loads is None else len(loads))))
            return bad
        for n, t in enumerate(evsteps):
            pre, ld = impl_steps[t - 1], loads[n]
            if ld.get("cnt") != pre["cnt"] or len(ld.get("sum", [])) != len(pre["sum"]) or not all(close(a, b, 1e-12) for a, b in zip(pre["sum"], ld["sum"])):
                bad.append(("oracle:restart-grids", "state saved (%s) before step %d and loaded (%s): counts/sums %s / %s were saved, %s / %s are in the grids after the load"
                            % (c["steps"][t]["event"]["fmt"], t, c["steps"][t]["event"]["kind"], pre["cnt"], pre["sum"], ld.get("cnt"), ld.get("sum"))))
                return bad
        since = evsteps[-1]
        cnt = list(loads[-1]["cnt"])
        sm = [Fr(x) for x in loads[-1]["sum"]]
    for a, F, tdel in smp:
        if tdel < since:
            continue
        cnt[a] += 1
        for d in range(nd):
            sm[a * nd + d] -= F[d]
    last = impl_steps[-1]
    if cnt != last["cnt"]:
        bad.append(("oracle:cnt", "stored counts %s differ from the number of attributed samples per bin %s" % (last["cnt"], cnt)))
    elif not all(close(a, b) for a, b in zip(sm, last["sum"])):
        badk = [i for i, (a, b) in enumerate(zip(sm, last["sum"])) if not close(a, b)]
        dbad = set(i % nd for i in badk)          # the variables whose sums are wrong
        zt = [h for h in zero_total_steps(c, impl_steps) if h[1] in dbad]
        vz = [h for h in value_zero_steps(c, impl_steps) if h[1] in dbad]
        jvar = [d for d in dbad if kind(c["vars"][d]) == "dist" and c.get("T", 0.0) != 0.0 and c["hideJ"]]
        # hideJacobian with same-step forces: fj added although no compensating force is in the total force
        hj = [d for d in jvar if c["same"] and not c["vars"][d]["sub"]]
        # hideJacobian, lagged forces, no bias applies a force to the variable (applyBias off, no restraint): the
        # compensating force -fj never reaches the atoms but fj is added to / f_old subtracted from the measured force
        hn = [d for d in jvar if not c["same"] and not c["apply"] and not c.get("toggle") and not has_other(c["vars"][d])]
        # hideJacobian, lagged forces, applyBias switched at run time on a distance variable without another bias:
        # collect_cvc_total_forces looks at f_cv_apply_force of the current step for the force of the previous one
        hs = [d for d in jvar if not c["same"] and c.get("toggle") and not has_other(c["vars"][d])]
        if zt:
            sig, why = "sample:subtractAppliedForce-zero-total-force", " (measured total force exactly zero at (step,variable) %s)" % zt[:3]
        elif vz:
            sig, why = "sample:force-dropped-at-value-zero", " (value exactly 0 at (step,variable) %s)" % vz[:3]
        elif hj and len(hj) == len(dbad):
            sig, why = "sample:hideJacobian-same-step-adds-jacobian", " (hideJacobian, same-step forces, distance variable(s) %s)" % hj
        elif hn and len(hn) == len(dbad):
            sig, why = "sample:hideJacobian-without-applied-force", " (hideJacobian, lagged forces, no bias applies a force to distance variable(s) %s)" % hn
        elif hs and len(hs) == len(dbad):
            sig, why = "sample:hideJacobian-applyBias-switched", " (hideJacobian, lagged forces, applyBias switched at run time, distance variable(s) %s)" % hs
        elif not c["same"] and any(st.get("event", {}).get("kind") == "reload" for st in c["steps"]):
            sig, why = "sample:reload-stale-total-force", " (lagged forces, state loaded into the running instance)"
        elif c.get("toggle") and not c["same"] and all(not c["vars"][d]["sub"] for d in dbad):
            sig, why = "sample:applyBias-switched-stale-applied-force", " (applyBias switched at run time, lagged forces)"
        elif c.get("scaled") and not c["same"] and c["apply"] and all(not c["vars"][d]["sub"] for d in dbad):
            sig, why = "sample:scaledBiasingForce-unscaled-force-subtracted", " (scaledBiasingForce on, lagged forces)"
        else:
            sig, why = "oracle:sum", ""
        k = badk[0]
        bad.append((sig, "stored gradient sums differ from minus the summed attributed samples: element %d is %s, expected %s%s"
                    % (k, last["sum"][k], float(sm[k]), why)))
    else:
        # the property as worded: the stored gradient (value_output, what the state file contains) is minus the
        # arithmetic mean of the attributed samples, 0 in an empty bin -- through the accessor and the saved state
        mean = [(sm[a * nd + d] / cnt[a] if cnt[a] > 0 else Fr(0)) for a in range(nt) for d in range(nd)]
        go = last.get("go")
        if go is None or len(go) != len(mean) or not all(close(a, b) for a, b in zip(mean, go)):
            bad.append(("oracle:gradient", "stored gradient (value_output) %s is not minus the mean of the attributed samples %s" % (go, [float(x) for x in mean])))
        if state is not None:
            scnt, sgrad = state
            if scnt != cnt:
                bad.append(("oracle:state-samples", "'samples' of the saved state %s differ from the number of attributed samples per bin %s" % (scnt, cnt)))
            elif len(sgrad) != len(mean) or not all(close(a, b, 1e-12 if c.get("scale", 1.0) == 1.0 else 1e-9) for a, b in zip(mean, sgrad)):
                bad.append(("oracle:state-gradient", "'gradient' of the saved state %s is not minus the mean of the attributed samples %s" % (sgrad, [float(x) for x in mean])))
        if files is not None:
            fcnt, fgrad = files
            if fcnt is None or [int(x) for x in fcnt] != cnt:
                bad.append(("oracle:file-count", "the .count file written at the end of the run %s differs from the number of attributed samples per bin %s" % (fcnt, cnt)))
            elif fgrad is None or len(fgrad) != len(mean) or not all(close(a, b, 1e-9) for a, b in zip(mean, fgrad)):
                bad.append(("oracle:file-gradient", "the .grad file written at the end of the run %s is not minus the mean of the attributed samples %s" % (fgrad, [float(x) for x in mean])))
    return bad


# ------------------------------------------------------------------------------- regression inputs of repaired defects
# The minimal inputs on which the tree violated C04 before the fix commits (they were the witnesses of the
# `_refuted` theorems of the first version of this slice, now Examples E1..E4 of Properties_C04.v).  They are
# replayed on the implementation at every run, first, so that a regression is reported with the minimal input.
def _v1(**kw):
    v = {"kind": "dz", "periodic": False, "w": 1.0, "nx": 2, "lower": 0.0, "upper": 2.0, "sub": False, "hk": None, "hc": 0.0, "lk": None, "walls": None}
    v.update(kw)
    return v


def _c1(cid, v, steps, **kw):
    c = {"id": cid, "vars": [v], "same": False, "full": 2, "min": 1, "apply": False, "update": True, "cap": False,
         "maxf": [0.0], "szd": False, "hideJ": False, "T": 0.0, "abf_first": True,
         "steps": [{"z": [z], "e": [e], "boundary": b} for (z, e, b) in steps]}
    c.update(kw)
    return c


def witness_zero_total():
    """E1: subtractAppliedForce, lagged forces, restraint force +1 and engine force -1 at step 0: the measured
    total force is exactly 0; the sample of step 0 is (-1 + 1) - 1 = -1."""
    return _c1("W1", _v1(sub=True, hk=1.0, hc=1.5), [(0.5, -1.0, False), (0.5, 2.0, False), (0.5, 2.0, False)])


def judge_zero_total(c, steps):
    got = steps[-1]["sum"][0]
    if steps[-1]["cnt"][0] != 2 or got != -1.0:
        return ("subtractAppliedForce on, lagged total forces, harmonic restraint applying +1 while the engine force is -1 at step 0: "
                "samples -1 and 2 belong to bin 0, so the stored sum must be -(-1+2) = -1 with count 2; the implementation stores %s with count %s "
                "(the sample of step 0 recorded as 0: colvar::calc_colvar_properties skipped 'ft -= f_old' because ft.norm2() == 0)" % (got, steps[-1]["cnt"][0]))
    return None


def witness_zero_total_abf():
    """E2: the ABF force itself cancels the engine force (minSamples 0, fullSamples 1, applyBias on,
    subtractAppliedForce, lagged): engine force 2 at every step; from step 2 on the ABF force is -2 and the
    measured total force exactly 0; every sample is 0 - (-2) = 2."""
    return _c1("W1b", _v1(sub=True), [(0.5, 2.0, False)] * 4, full=1, min=0, apply=True)


def judge_zero_total_abf(c, steps):
    got = steps[-1]["sum"][0]
    if steps[-1]["cnt"][0] != 3 or got != -6.0:
        return ("subtractAppliedForce on, lagged total forces, engine force 2 at every step, ABF force -2 from step 1 on "
                "(measured total force exactly 0): three samples of 2 belong to bin 0, stored sum must be -6; the implementation "
                "stores %s with count %s: the sample is the total force WITHOUT the ABF force subtracted" % (got, steps[-1]["cnt"][0]))
    return None


def witness_value_zero():
    """lagged forces, value exactly 0 at step 0 while a restraint applies +1 and the engine force is 1:
    the attributed sample for bin 1 is (1+1) - 0 = 2 (fixed in /repo: integer_power(0, 0))."""
    return _c1("W2", _v1(lower=-1.0, upper=1.0, hk=1.0, hc=1.0), [(0.0, 1.0, False), (0.5, 0.0, False)])


def judge_value_zero(c, steps):
    got = steps[-1]["sum"][1]
    if steps[-1]["cnt"][1] != 1 or got != -2.0:
        return ("lagged total forces, variable value exactly 0 at step 0, engine force 1, harmonic restraint applying +1 (reported as applied force %s): "
                "the sample of step 0 is (1+1) - 0 = 2, so the stored sum of bin 1 must be -2; the implementation stores %s "
                "(colvar::communicate_forces multiplies the force by integer_power(value, 0), which was 0 for value == 0.0)"
                % (steps[0]["af"][0], got))
    return None


def witness_zero_mean():
    """E3: one periodic variable, 2 bins, minSamples 1, fullSamples 2; one sample of force 2 in bin 0
    (count = minSamples: ramp 0).  Then the force in each bin is probed at repeated (boundary) steps, which add
    no sample."""
    v = _v1(periodic=True, P=2.0, c=1.0)
    return _c1("W3", v, [(0.5, 0.0, False), (0.5, 2.0, False), (0.5, 0.0, True), (1.5, 0.0, True)], same=True, apply=True)


def judge_zero_mean(c, steps):
    f0, f1 = steps[2]["cf"][0], steps[3]["cf"][0]
    if f0 + f1 != 0.0 or f0 != 0.0:
        return ("1-D periodic ABF, 2 bins, minSamples 1, fullSamples 2, one sample (force 2) in bin 0: the ABF force is %s in bin 0 and %s in bin 1 "
                "(sum %s; bin 1 has no sample and bin 0 is at minSamples: both must be 0): calc_biasing_force subtracts the "
                "average of the unsmoothed means from the ramped force" % (f0, f1, f0 + f1))
    return None


def witness_zero_mean_ramp():
    """E3b: the same grid during the ramp (fullSamples 4, minSamples 0): 4 samples (2,2,4,4) in bin 0, 2 samples (1,1)
    in bin 1: ramped estimates -3 and -1/2, forces -5/4 and +5/4."""
    v = _v1(periodic=True, P=2.0, c=1.0)
    st = [(0.5, 0.0, False), (0.5, 2.0, False), (0.5, 2.0, False), (0.5, 4.0, False), (0.5, 4.0, False),
          (1.5, 1.0, False), (1.5, 1.0, False), (0.5, 0.0, True), (1.5, 0.0, True)]
    return _c1("W3b", v, st, same=True, apply=True, full=4, min=0)


def judge_zero_mean_ramp(c, steps):
    f0, f1 = steps[7]["cf"][0], steps[8]["cf"][0]
    if f0 != -1.25 or f1 != 1.25:
        return ("1-D periodic ABF, 2 bins, minSamples 0, fullSamples 4, samples (2,2,4,4) in bin 0 and (1,1) in bin 1: ramped estimates are -3 and -1/2, "
                "so the zero-mean forces are -5/4 and +5/4; the implementation applies %s and %s (sum %s)" % (f0, f1, f0 + f1))
    return None


def witness_hidej_same():
    """E4: hideJacobian, same-step total forces, a distance variable (Jacobian force 2kT/r): engine force 1 at
    every step; the samples must be 1 (the Jacobian term is hidden) and the variable must receive
    ABF force - fj (the compensation applied once)."""
    v = _v1(kind="dist", onesite=False, lower=1.0, upper=3.0)
    return _c1("W4", v, [(1.5, 1.0, False)] * 3, same=True, apply=True, hideJ=True, T=1000.0)


def judge_hidej_same(c, steps):
    got, n = steps[-1]["sum"][0], steps[-1]["cnt"][0]
    fj = jac_force(c, c["vars"][0], 1.5)
    if n != 2 or not close(got, -2.0):
        return ("hideJacobian on, same-step total forces, distance r = 1.5 at T = 1000 K (Jacobian force fj = 2kT/r = %s), engine force 1: the two samples "
                "must be 1 (Jacobian hidden; this is what the lagged convention records), stored sum -2; the implementation stores %s with count %s and applies %s "
                "to the variable (ABF force %s and -fj): colvar::collect_cvc_total_forces adds fj to the total force although no compensating "
                "force -fj is contained in same-step total forces, the Jacobian force is compensated twice" % (fj, got, n, steps[-1]["af"][0], steps[-1]["cf"][0]))
    return None


def witness_hidej_noforce():
    """W5 (repaired in fix-C04-2): hideJacobian, lagged forces, applyBias off, no other bias, distance variable: the samples must be
    the engine force 1 (Jacobian hidden); the implementation records 1 + fj."""
    v = _v1(kind="dist", onesite=False, lower=1.0, upper=3.0)
    return _c1("W5", v, [(1.5, 1.0, False)] * 3, same=False, apply=False, hideJ=True, T=1000.0)


def judge_hidej_noforce(c, steps):
    got, n = steps[-1]["sum"][0], steps[-1]["cnt"][0]
    fj = jac_force(c, c["vars"][0], 1.5)
    if n != 2 or not close(got, -2.0):
        return ("hideJacobian on, applyBias off, no other bias, lagged total forces, distance r = 1.5 at T = 1000 K (fj = 2kT/r = %s), engine force 1: the two samples "
                "must be 1 (Jacobian hidden), stored sum -2; the implementation stores %s with count %s: the variable reports the applied force %s = -fj but has no "
                "f_cv_apply_force, so nothing reaches the atoms, while collect_cvc_total_forces adds fj to the measured force" % (fj, got, n, steps[-1]["af"][0]))
    return None


def witness_scaled():
    """E6: scaledBiasingForce with the factor 1/2 in both bins, lagged forces, minSamples 0, fullSamples 1, engine force 2 at
    every step: ABF force -2, applied -1, measured 1, every sample 1 - (-1) = 2."""
    return _c1("W6", _v1(), [(0.5, 2.0, False)] * 4, full=1, min=0, apply=True, scaled=True, sfac=[0.5, 0.5])


def judge_scaled(c, steps):
    got, n = steps[-1]["sum"][0], steps[-1]["cnt"][0]
    if n != 3 or got != -6.0:
        return ("scaledBiasingForce on with the factor 0.5, lagged total forces, engine force 2 at every step: the ABF force is -2, the variable receives -1 "
                "(applied force %s), the measured force is 1 and every sample must be 1 - (-1) = 2: stored sum -6 with count 3; the implementation stores %s with count %s "
                "(update_system_force subtracts the unscaled colvar_forces)" % (steps[-1]["af"][0], got, n))
    return None


def witness_toggle():
    """E7: applyBias switched off before step 2 and on again before step 4, lagged forces, minSamples 0, fullSamples 1, engine
    force 2 at every step: five samples of 2 (a stale previous_colvar_forces would be subtracted at step 3)."""
    c = _c1("W8", _v1(), [(0.5, 2.0, False)] * 6, full=1, min=0, apply=True, toggle=True)
    for t, a in enumerate([True, True, False, False, True, True]):
        c["steps"][t]["apply"] = a
    return c


def judge_toggle(c, steps):
    got, n = steps[-1]["sum"][0], steps[-1]["cnt"][0]
    if n != 5 or got != -10.0:
        return ("applyBias on, switched off before step 2 (cv bias a set apply_force 0) and on again before step 4, lagged total forces, engine force 2 at every "
                "step: five samples of 2, stored sum -10; the implementation stores %s with count %s (after the switch the bias keeps subtracting the last "
                "force it applied: previous_colvar_forces is not reset)" % (got, n))
    return None


def witness_hidej_switched():
    """W7 (repaired in fix-C04-3): hideJacobian, lagged forces, distance variable, applyBias on at step 0 and switched off before step 1."""
    v = _v1(kind="dist", onesite=False, lower=1.0, upper=3.0)
    c = _c1("W7", v, [(1.5, 1.0, False)] * 3, same=False, apply=True, hideJ=True, T=1000.0, toggle=True)
    for t, a in enumerate([True, False, False]):
        c["steps"][t]["apply"] = a
    return c


def judge_hidej_switched(c, steps):
    got, n = steps[-1]["sum"][0], steps[-1]["cnt"][0]
    fj = jac_force(c, c["vars"][0], 1.5)
    if n != 2 or not close(got, -2.0):
        return ("hideJacobian on, lagged total forces, distance r = 1.5 at T = 1000 K (fj = %s), engine force 1, applyBias on at step 0 and switched off before "
                "step 1: the force measured for step 0 contains the compensation -fj, the two samples must be 1 (stored sum -2); the implementation stores %s with "
                "count %s: collect_cvc_total_forces decides from f_cv_apply_force at step 1 whether -fj is contained in the force of step 0" % (fj, got, n))
    return None


def witness_input():
    """inputPrefix with two prefixes: counts (3, 0) with gradients (-1.5, 0) and counts (1, 2) with gradients (0.5, 1), then two
    samples of 2 in bin 0 and one of 1 in bin 1 (same-step)."""
    return _c1("W9", _v1(), [(0.5, 0.0, False), (0.5, 2.0, False), (0.5, 2.0, False), (1.5, 1.0, False)], same=True, apply=True,
               full=4, min=0, input=[{"cnt": [3, 0], "grad": [-1.5, 0.0]}, {"cnt": [1, 2], "grad": [0.5, 1.0]}])


def judge_input(c, steps):
    last = steps[-1]
    if last["cnt"] != [6, 3] or last["sum"] != [-8.0, 1.0]:
        return ("inputPrefix with two prefixes, counts (3, 0) / gradients (-1.5, 0) and counts (1, 2) / gradients (0.5, 1), then samples 2, 2 in bin 0 and 1 "
                "in bin 1: counts must be (6, 3) and sums (-1.5*3 + 0.5*1 - 4, 1*2 - 1) = (-8, 1); the implementation has counts %s and sums %s" % (last["cnt"], last["sum"]))
    return None


def witness_restart_zero_mean():
    """W10: one periodic variable, 2 bins, minSamples 0, fullSamples 1, same-step forces: one sample 2 in bin 0 and one sample 4 in
    bin 1 (estimates -2 and -4, mean -3); the state is saved (text), a new instance loads it and re-executes the step; the force
    must be -4 - (-3) = -1 in bin 1 and -2 - (-3) = +1 in bin 0 (probed at repeated steps, which add no sample)."""
    v = _v1(periodic=True, P=2.0, c=1.0)
    c = _c1("W10", v, [(0.5, 0.0, False), (0.5, 2.0, False), (1.5, 4.0, False), (1.5, 0.0, False), (0.5, 0.0, True), (1.5, 0.0, True)],
            same=True, apply=True, full=1, min=0)
    c["steps"][3]["event"] = {"kind": "restart", "fmt": "text"}
    return c


def judge_restart_zero_mean(c, steps):
    f1, f0, f1b = steps[3]["cf"][0], steps[4]["cf"][0], steps[5]["cf"][0]
    if f1 != -1.0 or f0 != 1.0 or f1b != -1.0:
        return ("1-D periodic ABF, 2 bins, samples 2 in bin 0 and 4 in bin 1 (estimates -2, -4, mean over the bins -3), state saved and loaded by a new instance: "
                "the force must be -4 + 3 = -1 in bin 1 and -2 + 3 = +1 in bin 0; after the restart the implementation applies %s in bin 1, %s in bin 0, %s in bin 1 "
                "(sum over the period %s): the zero-mean term is not the mean of the grids that were read" % (f1, f0, f1b, f0 + f1b))
    return None


def witness_late():
    """W11: the abf bias is defined after two engine steps (lagged forces), variable in bin 1, engine force 3: nothing may enter bin 0."""
    c = _c1("W11", _v1(), [(1.5, 3.0, False)] * 3, full=2, min=0, apply=True)
    c["pre"] = [{"z": [1.5], "e": [3.0]}, {"z": [1.5], "e": [3.0]}]
    return c


def witness_late_sub():
    """W11b: the same with subtractAppliedForce (the variable already measures total forces when the bias is defined)."""
    c = _c1("W11b", _v1(sub=True), [(1.5, 3.0, False)] * 3, full=2, min=0, apply=True)
    c["pre"] = [{"z": [1.5], "e": [3.0]}, {"z": [1.5], "e": [3.0]}]
    return c


def judge_late(c, steps):
    last = steps[-1]
    if last["cnt"] != [0, 2] or last["sum"] != [0.0, -6.0]:
        return ("abf bias defined by a second `config` after two engine steps, lagged total forces, variable at 1.5 (bin 1), engine force 3: after three steps "
                "of the bias the counts must be (0, 2) and the sums (0, -6): bin 0 was never visited; the implementation has counts %s and sums %s "
                "(the first update files a sample in force_bin, which was initialised to bin 0)" % (last["cnt"], last["sum"]))
    return None


def witness_reload_stale():
    """W12: lagged forces, applyBias off, variable in bin 0, engine forces 1, 2, 4, 8, 16, 0; the state is saved and loaded into the
    running instance before step 3 (which re-executes the configuration).  Samples: 1 and 2 before the load; the force 4 of the last
    step before the load is dropped; 8 and 16 after it: count 4, sum -27."""
    c = _c1("W12", _v1(), [(0.5, 1.0, False), (0.5, 2.0, False), (0.5, 4.0, False), (0.5, 8.0, False), (0.5, 16.0, False), (0.5, 0.0, False)],
            full=2, min=0, apply=False)
    c["steps"][3]["event"] = {"kind": "reload", "fmt": "text"}
    return c


def judge_reload_stale(c, steps):
    last = steps[-1]
    if last["cnt"][0] != 4 or last["sum"][0] != -27.0:
        return ("lagged total forces, engine forces 1, 2, 4, 8, 16, 0 in bin 0, state saved and loaded into the running instance before step 3: the samples are "
                "1, 2 (before the load) and 8, 16 (after it; the force 4 exerted at the last step before the load is not collected by the variable), count 4 and "
                "sum -27; the implementation has count %s and sum %s, total force reported at step 3: %s (the value collected at step 2, recorded a second time)"
                % (last["cnt"][0], last["sum"][0], steps[3]["tf"][0]))
    return None


def witness_cap_order():
    """W13: 1-D periodic ABF, 2 bins, minSamples 0, fullSamples 1, same-step forces, maxForce 0.5: samples 4 in bin 0 and 2 in bin 1
    (estimates -4 and -2, grid mean -3): zero-mean forces -1 and +1, capped to -0.5 and +0.5 (probed at repeated steps)."""
    v = _v1(periodic=True, P=2.0, c=1.0)
    return _c1("W13", v, [(0.5, 0.0, False), (0.5, 4.0, False), (1.5, 2.0, False), (0.5, 0.0, True), (1.5, 0.0, True)],
               same=True, apply=True, full=1, min=0, cap=True, maxf=[0.5])


def judge_cap_order(c, steps):
    f0, f1 = steps[3]["cf"][0], steps[4]["cf"][0]
    if f0 != -0.5 or f1 != 0.5:
        return ("1-D periodic ABF with maxForce 0.5, estimates -4 (bin 0) and -2 (bin 1), mean over the bins -3: the zero-mean forces -1 and +1 must be capped to "
                "-0.5 and +0.5; the implementation applies %s in bin 0 and %s in bin 1%s" % (f0, f1,
                " (larger than maxForce: the cap was applied before the zero-mean term)" if max(abs(f0), abs(f1)) > 0.5 else ""))
    return None


def witness_walls_subtract():
    """W14: subtractAppliedForce, lagged forces, harmonicWalls (bypassExtendedLagrangian on, the default) with the upper wall at 1.25
    inside the grid [0,2): the variable sits at 1.5 (bin 1, beyond the wall: wall force -1 * 0.25 = -0.25) with engine force 2 at every
    step: every sample is the system force 2 (count 3, sum -6): the wall force is part of what Colvars applied and is subtracted."""
    v = _v1(sub=True, walls={"k": 1.0, "lo": 0.25, "hi": 1.25, "bypass": True})
    return _c1("W14", v, [(1.5, 2.0, False)] * 4, full=2, min=0, apply=True)


def judge_walls_subtract(c, steps):
    last = steps[-1]
    if last["cnt"] != [0, 3] or last["sum"][1] != -6.0:
        return ("subtractAppliedForce on, lagged total forces, harmonicWalls (bypassing the extended Lagrangian: force through fb_actual) with the upper wall at 1.25, "
                "variable at 1.5 (wall force -0.25), engine force 2: the three samples are the system force 2, counts (0, 3), sum of bin 1 = -6; the implementation has "
                "counts %s and sums %s (applied force reported %s): the wall force is not in f_old and stays in the sample" % (last["cnt"], last["sum"], steps[-1]["af"][0]))
    return None


def witness_subtract_switched():
    """W15 (known): subtractAppliedForce switched on at run time (`cv colvar v0 set subtract_applied_force_from_total_force 1`) before
    step 3; lagged forces, minSamples 0, fullSamples 1, applyBias on, engine force 2 at every step: every sample is 2."""
    c = _c1("W15", _v1(), [(0.5, 2.0, False)] * 6, full=1, min=0, apply=True)
    c["steps"][3]["script"] = ["script cv colvar v0 set subtract_applied_force_from_total_force 1"]
    return c


def judge_subtract_switched(c, steps):
    last = steps[-1]
    if last["cnt"][0] != 5 or last["sum"][0] != -10.0:
        return ("lagged total forces, engine force 2 at every step, abf applying -2 from step 1 on, subtractAppliedForce switched on by script before step 3: "
                "five samples of 2 (sum -10); the implementation has count %s and sum %s, total force reported at step 3: %s: at the step after the switch "
                "neither the variable (f_old was not recorded while the option was off) nor the bias (which now trusts the variable) removes the ABF force of step 2"
                % (last["cnt"][0], last["sum"][0], steps[3]["tf"][0]))
    return None


WITNESSES = ((witness_zero_total, "sample:subtractAppliedForce-zero-total-force", judge_zero_total),
             (witness_zero_total_abf, "sample:subtractAppliedForce-zero-total-force", judge_zero_total_abf),
             (witness_value_zero, "sample:force-dropped-at-value-zero", judge_value_zero),
             (witness_zero_mean, "force:periodic-zero-mean-during-ramp", judge_zero_mean),
             (witness_zero_mean_ramp, "force:periodic-zero-mean-during-ramp", judge_zero_mean_ramp),
             (witness_hidej_same, "sample:hideJacobian-same-step-adds-jacobian", judge_hidej_same),
             (witness_hidej_noforce, "sample:hideJacobian-without-applied-force", judge_hidej_noforce),
             (witness_scaled, "sample:scaledBiasingForce-unscaled-force-subtracted", judge_scaled),
             (witness_toggle, "sample:applyBias-switched-stale-applied-force", judge_toggle),
             (witness_hidej_switched, "sample:hideJacobian-applyBias-switched", judge_hidej_switched),
             (witness_input, "sample:inputPrefix-data", judge_input),
             (witness_restart_zero_mean, "force:periodic-zero-mean", judge_restart_zero_mean),
             (witness_walls_subtract, "sample:subtractAppliedForce-bypassing-bias-not-subtracted", judge_walls_subtract),
             (witness_subtract_switched, "sample:subtractAppliedForce-switched-on-at-run-time", judge_subtract_switched),
             (witness_cap_order, "force:cap", judge_cap_order),
             (witness_reload_stale, "sample:reload-stale-total-force", judge_reload_stale),
             (witness_late, "sample:bias-defined-at-run-time-bin0", judge_late),
             (witness_late_sub, "sample:bias-defined-at-run-time-bin0", judge_late))


# ------------------------------------------------------------------------------- running
def run_batch(exe, cases, d, tag):
    lines = []
    for c in cases:
        lines += scenario(c)
        if c.get("scaled"):
            with open(os.path.join(d, "%s.sf" % c["id"]), "w") as f:
                f.write(scaling_grid_file(c))
        for n, ds in enumerate(inputs_of(c)):
            tc, tg = input_grid_files(c, ds)
            with open(os.path.join(d, "%s_in%d.count" % (c["id"], n)), "w") as f:
                f.write(tc)
            with open(os.path.join(d, "%s_in%d.grad" % (c["id"], n)), "w") as f:
                f.write(tg)
    sc = os.path.join(d, "batch_%s.scn" % tag)
    with open(sc, "w") as f:
        f.write("\n".join(lines) + "\n")
    rc, o, e = V.sh([exe, sc], cwd=d, timeout=600)
    res = parse_impl(o)
    for c in cases:
        if str(c["id"]) in res:
            res[str(c["id"])]["state"] = parse_state(os.path.join(d, "%s.state" % c["id"]))
            nev = sum(1 for st in c["steps"] if st.get("event"))
            res[str(c["id"])]["rstates"] = {n: parse_state(os.path.join(d, "%s.colvars.state" % state_name(c, n))) for n in range(nev)}
            nd_ = len(c["vars"])
            res[str(c["id"])]["files"] = (parse_multicol(os.path.join(d, "%s.count" % c["id"]), nd_, 1),
                                          parse_multicol(os.path.join(d, "%s.grad" % c["id"]), nd_, nd_))
    return rc, res, e


def compare_fields(a, b, keys=("bin", "fbin", "cnt", "sum", "tf", "cf", "af", "go", "scr")):
    for k in keys:
        if a.get(k) != b.get(k):
            # -0.0 == 0.0 in python; NaN never equal
            return k
    return None


def setup():
    V.extract_model("C04", EXTRACT, DRIVER, ["ocaml/fops.ml"])
    for n, s in PROGS.items():
        V.build_prog(n, s)


SHOWN = ("bin", "fbin", "cf", "tf", "af", "cnt", "sum", "go", "scr")


def tie_case(run, c, im, mline):
    """implementation vs model, step by step, every field bit-exact"""
    # timeStepFactor > 1: the driver runs abf_mstep (awake / asleep steps)
    if any(s_.get("script") for s_ in c["steps"]):
        return      # variable-level options switched by script are constants of the model: judged by the oracle alone
    steps_i = im["steps"]
    msteps, spec = parse_model(mline) if mline is not None else ([], None)
    if len(msteps) != len(steps_i):
        run.mismatch("abf:steps", {"case": c}, len(steps_i), len(msteps))
        return
    for t, (a, b) in enumerate(zip(steps_i, msteps)):
        if c.get("eabf_actual"):
            # eABF: the reported total force is dumped after update_extended_Lagrangian has replaced it by this step's; the script
            # entry points look at the actual value
            bad = compare_fields(a, b, keys=("bin", "fbin", "cnt", "sum", "cf", "af", "go"))
        elif t == 0 and c.get("pre"):
            # first update of a bias defined at run time: the reported total force of a variable that was already measuring
            # total forces (subtractAppliedForce) is that of the last step before the definition, which the model of the
            # bias does not contain; everything else is compared
            bad = compare_fields(a, b, keys=("bin", "fbin", "cnt", "sum", "cf", "af", "go", "scr"))
        else:
            bad = compare_fields(a, b)
        if bad:
            # component names share their first token with the oracle signatures of the same family
            comp = {"cf": "force:cf", "af": "force:af", "go": "sample:gradient", "tf": "sample:sum:tf"}.get(bad, "sample:" + bad)
            run.mismatch(comp, {"case": c, "step": t}, {k_: a.get(k_) for k_ in SHOWN}, {k_: b.get(k_) for k_ in SHOWN})
            return


def check(run):
    r = V.rng("C04")
    quick = run.tier == "quick"
    run.cov["rule"] = ("scenarios: 1-3 variables, each an exact distanceZ (periodic grids spanning the period, or not) or a distance along z "
                       "(Jacobian force 2kT/r, T in {0,250,1000,4000} K, one-site or two-site total force), dyadic engine forces, "
                       "harmonic restraints as other biases, subtractAppliedForce per variable, both timing conventions, minSamples/fullSamples 0..6, "
                       "maxForce, applyBias/updateBias off, stepZeroData, hideJacobian, scaledBiasingForce (dyadic factor per bin), run boundaries, values on bin edges / inside / outside. "
                       "After every step bin, force_bin, ABF force, reported total force, applied force, samples and gradients arrays and the stored "
                       "gradient (value_output) are compared (bit-exact) with the extracted model; the saved state's samples/gradient blocks are checked "
                       "against the exact mean of the attributed samples. non-trivial = >=2 bins hit, >=1 step outside the grid or rejected, >=1 bin above minSamples")
    run.assumptions += [
        "theorems are about the R instance of the model; the tie runs the float instance, which mirrors the order of the C++ floating-point operations",
        "the Jacobian force of each variable at each step is an input of the model (0 for distanceZ, (2/r)*(kB*T) for distance, computed by the generator with the operations of the code)",
        "other biases are represented by the force they apply at each step (input of the model); in the tie they are harmonic restraints whose force the generator computes",
        "engine conventions are those of harness/vsim.h: same-step total forces exclude Colvars forces; lagged total forces include them (includecv 1)",
        "the model describes the tree with the fix commits of branch fix-C04 (subtractAppliedForce at zero total force, zero mean of the ramped estimates, hideJacobian with same-step forces)",
    ]
    st = V.standard_start(run, PROP, EXTRACT, DRIVER, PROGS)
    if st is None:
        return
    model, exes = st
    unit = exes["c04unit"]
    d = V.scratch("C04")

    run_witnesses(run, unit, model, d)
    run_rejections(run, unit, d)

    n = 320 if quick else 20000
    cases = []
    # corpus first
    cp = os.path.join(V.ROOT, "corpus", "C04_cases.txt")
    if os.path.exists(cp):
        for l in open(cp):
            l = l.strip()
            if l and not l.startswith("#"):
                cc = json.loads(l)
                cc["id"] = "K%d" % len(cases)
                cases.append(cc)
    for k in range(n):
        # thorough tier: one case in eight is a long history (every bin passes minSamples and fullSamples,
        # several run boundaries, many returns to the same bins)
        cases.append(gen_case(r, "G%d" % k, long_=(not quick and k % 8 == 7)))

    # batches are homogeneous in the timing convention (the feature tables of colvarbias are
    # static and depend on total_forces_same_step() at their first initialisation)
    impl = {}
    B = 40
    for same in (False, True):
        sel = [c for c in cases if c["same"] == same]
        for b0 in range(0, len(sel), B):
            rc, res, err = run_batch(unit, sel[b0:b0 + B], d, "%d_%d" % (int(same), b0))
            impl.update(res)
            if rc != 0:
                miss = [c for c in sel[b0:b0 + B] if c["id"] not in res or len(res[c["id"]]["steps"]) < len(c["steps"])]
                run.violation("impl:crash", "the implementation died (rc=%d) in a batch; first incomplete case %s: %s" % (rc, miss[0]["id"] if miss else "?", err[-300:]),
                              {"kind": "case", "case": miss[0] if miss else None})
    mlines = [model_case(c, impl.get(c["id"])) for c in cases]
    rcm, mout, em = V.run_lines(model, mlines)
    nstate = 0
    for k, c in enumerate(cases):
        im = impl.get(c["id"])
        if im is None or im["config"] is None or "err=ok" not in im["config"]:
            run.mismatch("abf:config", {"case": c}, im["config"] if im else None, "accepted")
            continue
        steps_i = im["steps"]
        nd = len(c["vars"])
        if c.get("eabf"):
            run.dist("eABF_cases")
            ce = eabf_effective(c, steps_i)
            if ce == "diverged":
                run.dist("eABF_cases_skipped_extended_coordinate_diverged")
                continue
            if ce is None:
                run.mismatch("abf:eabf-dump", {"case": c}, None, "extended coordinate dumped at every step")
                continue
            for sig, text in czar_oracle(c, ce, steps_i):
                run.violation(sig, "case %s: %s" % (c["id"], text), {"kind": "case", "case": c})
            c_orig, c = c, ce
            mline = V.run_lines(model, [model_case(ce, im)])[1]
            mout[k] = mline[0] if mline else None
        # evidence
        visited = set()
        outside = 0
        for stp in c["steps"]:
            ix = bin_of(c, stp)
            if in_grid(c, ix):
                visited.add(tuple(ix))
            else:
                outside += 1
        above = steps_i and any(x > c["min"] for x in steps_i[-1].get("cnt", []))
        run.count(c["id"], len(visited) >= 2 and outside >= 1 and bool(above))
        run.dist("nd=%d" % nd)
        run.dist("same_step" if c["same"] else "lagged")
        run.dist("boundaries", sum(1 for s_ in c["steps"] if s_["boundary"]))
        run.dist("subtract_vars", sum(1 for v in c["vars"] if v["sub"]))
        run.dist("periodic_1d", 1 if nd == 1 and c["vars"][0]["periodic"] else 0)
        run.dist("restrained_vars", sum(1 for v in c["vars"] if v["hk"] is not None))
        run.dist("linear_bias_vars", sum(1 for v in c["vars"] if v.get("lk") is not None))
        run.dist("harmonicWalls_bypass_vars", sum(1 for v in c["vars"] if v.get("walls") and v["walls"]["bypass"]))
        run.dist("harmonicWalls_nobypass_vars", sum(1 for v in c["vars"] if v.get("walls") and not v["walls"]["bypass"]))
        run.dist("distance_vars_with_jacobian", sum(1 for v in c["vars"] if kind(v) == "dist" and c.get("T", 0.0) != 0.0))
        run.dist("hideJacobian", 1 if c["hideJ"] else 0)
        run.dist("two_component_vars", sum(1 for v in c["vars"] if kind(v) == "lin2"))
        run.dist("scaledBiasingForce", 1 if c.get("scaled") else 0)
        run.dist("inputPrefix_datasets", len(inputs_of(c)))
        run.dist("applyBias_switched_at_run_time", 1 if c.get("toggle") else 0)
        run.dist("abf_defined_at_run_time", 1 if c.get("pre") else 0)
        run.dist("unnamed_abf", 1 if c.get("unnamed") else 0)
        run.dist("scale_%g" % c.get("scale", 1.0))
        run.dist("restart_with_new_configuration", sum(1 for s_ in c["steps"] if s_.get("event", {}).get("newcfg")))
        run.dist("job_starts_at_huge_step", 1 if c.get("step0", 0) >= 2 ** 31 - 2 else 0)
        for stp in c["steps"]:
            if stp.get("event"):
                run.dist("state_%s_%s" % (stp["event"]["kind"], stp["event"]["fmt"]))
        run.dist("timeStepFactor>1", 1 if c.get("tsf", 1) > 1 else 0)
        if im.get("state") is not None:
            nstate += 1
        # property oracle on the implementation alone
        for sig, text in oracle(c, steps_i, im.get("state"), im.get("files"), im.get("loads")):
            run.violation(sig, "case %s: %s" % (c["id"], text), {"kind": "case", "case": c})
        if im.get("state") is None:
            run.mismatch("abf:state-file", {"case": c}, None, "a text state with an abf block")
        nbad = sum(1 for s_ in c["steps"] if s_.get("badconfig"))
        if nbad:
            run.dist("rejected_configuration_mid_session", nbad)
            got = im.get("badcfg", [])
            if len(got) != nbad or any("err=ok" in l_ for l_ in got):
                run.violation("config:accepted-mid-session", "case %s: a configuration that must be refused (abf with minSamples >= fullSamples / on an unknown variable) given between two steps was answered %s"
                              % (c["id"], got), {"kind": "case", "case": c})
        # tie: implementation vs model, step by step
        tie_case(run, c, im, mout[k] if k < len(mout) else None)
        if k < 2:
            run.sample({"scenario": scenario(c)[:60], "final": steps_i[-1] if steps_i else None, "state": im.get("state")})
    run.cov["correspondence"].update({"scenarios": len(cases), "steps": sum(len(c["steps"]) for c in cases), "state_files_checked": nstate})


def run_rejections(run, unit, d):
    """configurations that colvarbias_abf::init must refuse (malformed stream): minSamples >= fullSamples, an abf without
    variables, stepZeroData with lagged total forces"""
    base = _c1("R", _v1(), [(0.5, 1.0, False)], full=2, min=1, apply=True)
    bad = []
    for name, kw, repl in (("min-ge-full", {"full": 3, "min": 3}, None), ("min-gt-full", {"full": 2, "min": 5}, None),
                           ("no-colvars", {}, ("  colvars v0", "  colvars"))):
        c = dict(base)
        c.update(kw)
        c["id"] = "R_" + name
        L = scenario(c)
        if repl:
            L = [(repl[1] if l == repl[0] else l) for l in L]
        sc = os.path.join(d, "rej_%s.scn" % name)
        with open(sc, "w") as f:
            f.write("\n".join(L) + "\n")
        rc, o, e = V.sh([unit, sc], cwd=d, timeout=120)
        cfg = [l for l in o.split("\n") if l.startswith("CONFIG")]
        run.count(c["id"], True)
        run.dist("rejected_configurations")
        if rc != 0 or not cfg or "err=ok" in cfg[0]:
            run.violation("config:accepted-" + name, "abf configuration %s must be refused by colvarbias_abf::init, the implementation answered %s (rc=%d)"
                          % (name, cfg[:1], rc), {"kind": "scenario", "lines": L})


def run_witnesses(run, unit, model, d):
    """regression inputs of the repaired defects, replayed on the implementation and on the model"""
    for wf, sig, judge in WITNESSES:
        c = wf()
        rc, res, err = run_batch(unit, [c], d, c["id"])
        im = res.get(c["id"])
        run.count(c["id"], True)
        if im is None or len(im["steps"]) != len(c["steps"]):
            run.mismatch("abf:witness", {"case": c}, None, "ran")
            continue
        text = judge(c, im["steps"])
        if text:
            run.violation(sig, "scenario %s (minimal input of an earlier defect; the cause given in parentheses is the one found then): %s" % (c["id"], text),
                          {"kind": "case", "case": c})
        for s_, t_ in oracle(c, im["steps"], im.get("state"), im.get("files"), im.get("loads")):
            run.violation(s_, "case %s: %s" % (c["id"], t_), {"kind": "case", "case": c})
        ml = V.run_lines(model, [model_case(c, im)])[1]
        tie_case(run, c, im, ml[0] if ml else None)


def replay(path):
    j = json.load(open(path))
    rp = j["replay"]
    print(json.dumps({k: v for k, v in j.items() if k != "replay"}, indent=1)[:3000])
    c = rp.get("case")
    if isinstance(c, dict) and "case" in c and "vars" not in c:
        c = c["case"]
    if c is None and rp.get("first"):
        c = rp["first"][0]["case"]["case"]
    if c is not None:
        unit = V.build_prog("c04unit", PROGS["c04unit"])
        model = V.extract_model("C04", EXTRACT, DRIVER, ["ocaml/fops.ml"])
        d = V.scratch("C04r")
        print("\n".join(scenario(c)))
        rc, res, err = run_batch(unit, [c], d, "replay")
        im = res.get(str(c["id"]), {"steps": []})
        ms, spec = parse_model(V.run_lines(model, [model_case(c, im)])[1][0])
        for t, a in enumerate(im["steps"]):
            print("step %d impl : %s" % (t, a))
            if t < len(ms):
                print("step %d model: %s" % (t, ms[t]))
        print("state file:", im.get("state"))
        print("spec (attributed samples):", spec)
        print("oracle:", oracle(c, im["steps"], im.get("state"), im.get("files"), im.get("loads")))
        for wf, sig, judge in WITNESSES:
            if wf()["id"] == c["id"] and len(im["steps"]) == len(c["steps"]):
                print("judge:", judge(c, im["steps"]))
    return 0
