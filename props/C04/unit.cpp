// C04 driver: the engine simulator plus a `dumpabf <bias>` command that prints the internal ABF
// state (bin, force_bin, colvar_forces, samples->data, gradients->data) in exact form.
#include <cstdio>
#include <cstdlib>
#include <cstring>
#include <cmath>
#include <iostream>
#include <fstream>
#include <sstream>
#include <string>
#include <vector>
#include <map>
#include <algorithm>
#include <functional>
#include <thread>
#include <mutex>
#include <memory>
#include <list>
#define private public
#define protected public
#include "colvarmodule.h"
#include "colvar.h"
#include "colvarbias.h"
#include "colvarbias_abf.h"
#include "colvargrid.h"
#undef private
#undef protected
#include "vsim.h"

struct c04_session : public vsim_session {
  c04_session(std::ostream *o) : vsim_session(o) {}
  bool exec_extra(std::string const &cmd, std::vector<std::string> const &a, std::istream &) override
  {
    std::ostream &o = *out;
    if (cmd == "dumpabf") {
      colvarbias *b = cvm::main()->bias_by_name(a[0]);
      colvarbias_abf *abf = dynamic_cast<colvarbias_abf *>(b);
      if (!abf) { o << "ABF none\n"; return true; }
      o << "ABF bin";
      for (size_t i = 0; i < abf->bin.size(); i++) o << " " << abf->bin[i];
      o << " fbin";
      for (size_t i = 0; i < abf->force_bin.size(); i++) o << " " << abf->force_bin[i];
      o << " cf";
      for (size_t i = 0; i < abf->colvar_forces.size(); i++) o << " " << vs_hex(abf->colvar_forces[i].real_value);
      o << " tf";
      for (size_t i = 0; i < abf->colvars.size(); i++) o << " " << vs_hex(abf->colvars[i]->total_force().real_value);
      o << " af";
      for (size_t i = 0; i < abf->colvars.size(); i++) o << " " << vs_hex(abf->colvars[i]->applied_force().real_value);
      o << " cnt";
      for (size_t k = 0; k < abf->samples->data.size(); k++) o << " " << abf->samples->data[k];
      o << " sum";
      for (size_t k = 0; k < abf->gradients->data.size(); k++) o << " " << vs_hex(abf->gradients->data[k]);
      // the stored free-energy gradient as written to the state / .grad files (value_output = data / count)
      o << " go";
      for (std::vector<int> ix = abf->gradients->new_index(); abf->gradients->index_ok(ix); abf->gradients->incr(ix))
        for (size_t k = 0; k < abf->colvars.size(); k++) o << " " << vs_hex(abf->gradients->value_output(ix, k));
      // script entry points: cv bias <name> bin / bincount <bin> / binnum, local_sample_count 0
      {
        int const sb = abf->current_bin();
        o << " scr " << sb << " " << abf->bin_count(sb) << " " << abf->bin_num() << " " << abf->local_sample_count(0);
      }
      // eABF: the value the bias bins (the extended coordinate) and the CZAR grids z_samples / z_gradients
      o << " xv";
      for (size_t i = 0; i < abf->colvars.size(); i++) o << " " << vs_hex(abf->colvars[i]->value().real_value);
      if (abf->z_gradients) {
        o << " zc";
        for (size_t k = 0; k < abf->z_samples->data.size(); k++) o << " " << abf->z_samples->data[k];
        o << " zs";
        for (size_t k = 0; k < abf->z_gradients->data.size(); k++) o << " " << vs_hex(abf->z_gradients->data[k]);
      }
      o << " per";
      for (size_t i = 0; i < abf->gradients->periodic.size(); i++) o << " " << (abf->gradients->periodic[i] ? 1 : 0);
      o << " nx";
      for (size_t i = 0; i < abf->gradients->nx.size(); i++) o << " " << abf->gradients->nx[i];
      o << "\n";
      return true;
    }
    return false;
  }
};

int main(int argc, char **argv)
{
  c04_session s(&std::cout);
  if (argc > 1 && std::string(argv[1]) != "-") {
    std::ifstream f(argv[1]);
    if (!f) { std::cerr << "cannot open " << argv[1] << "\n"; return 2; }
    s.run(f);
  } else {
    s.run(std::cin);
  }
  std::cout.flush();
  return 0;
}
