(* C04 model driver: evaluates the extracted ABFModel at floats on case lines from stdin.
   Case:  ABF nd lower*nd width*nd nx*nd periodic*nd full min update cap maxf*nd szd same sub*nd hidej other*nd scaled sfac*(prod nx)
              tsf step0 late ndata (cnt0*(prod nx) grad0*(prod nx * nd))*ndata nevents event*nevents
          late = number of steps the engine made before the bias was defined (0: defined at the start)
          event = 0 x*nd e*nd o*nd j*nd boundary apply w*nd (a step; w = forces of the biases bypassing the extended Lagrangian)
                | 1 cnt*(prod nx) grad*(prod nx * nd) newcfg [full min cap maxf*nd]
                                                             (restart: state file loaded into a new instance, whose
                                                              configuration may differ in fullSamples/minSamples/maxForce)
                | 2 cnt*(prod nx) grad*(prod nx * nd)       (reload: state file loaded into the running instance)
   Output (one line): per step "bin .. fbin .. cf .. tf .. af .. cnt .. sum .. go .." joined by " ; ",
   then " ; SPEC cnt .. sum .." = the per-bin count and minus the summed forces of the attributed samples
   computed by the specification function [attributed] on the trace. *)
open Model
open X_fops
let rec nat_of_int (n : int) : nat = if n <= 0 then O else S (nat_of_int (n - 1))

let rec all_indices (nx : int list) : int list list =
  match nx with
  | [] -> [[]]
  | n :: rest ->
    let tails = all_indices rest in
    List.concat (List.init (max n 0) (fun i -> List.map (fun t -> i :: t) tails))

let () =
  try
    while true do
      let line = input_line stdin in
      let w = Array.of_list (words line) in
      if Array.length w > 0 then begin
        let p = ref 1 in
        let next () = let s = w.(!p) in Stdlib.incr p; s in
        let nf () = fl (next ()) in
        let ni () = int_of_string (next ()) in
        let nb () = ni () <> 0 in
        let nflist n = List.init n (fun _ -> nf ()) in
        (match w.(0) with
         | "ABF" ->
           let nd = ni () in
           let lower = nflist nd in let width = nflist nd in
           let nx = List.init nd (fun _ -> ni ()) in
           let periodic = List.init nd (fun _ -> nb ()) in
           let full = ni () in let mn = ni () in
           let update = nb () in let cap = nb () in
           let maxf = nflist nd in
           let szd = nb () in let same = nb () in
           let sub = List.init nd (fun _ -> nb ()) in
           let hidej = nb () in
           let other = List.init nd (fun _ -> nb ()) in
           let scaled = nb () in
           let nt = List.fold_left (fun a n -> a * (max n 0)) 1 nx in
           let sfarr = Array.init nt (fun _ -> nf ()) in
           let sfac (ix : z list) : float =
             let rec addr a ixs nxs = match ixs, nxs with
               | i :: ir, n :: nr -> let i = int_of_z i in if i < 0 || i >= n then (-1) else (if a < 0 then a else addr (a * n + i) ir nr)
               | _, _ -> a in
             let a = addr 0 ix nx in
             if a >= 0 && a < nt then sfarr.(a) else 1.0 in
           let c = { c_nd = nat_of_int nd; c_lower = lower; c_width = width; c_nx = List.map z_of_int nx;
                     c_periodic = periodic; c_full = z_of_int full; c_min = z_of_int mn;
                     c_update = update; c_cap = cap; c_maxf = maxf; c_szd = szd; c_same_step = same;
                     c_subtract = sub; c_hidej = hidej; c_other = other; c_scaled = scaled; c_sfac = sfac } in
           (* data read through inputPrefix *)
           let tsf = ni () in
           let step0 = ni () in      (* absolute number of the first step of the job (setstep) *)
           let kk = (z_of_int tsf, z_of_int step0) in
           let late = ni () in
           let ndata = ni () in
           let addr_of (ix : z list) : int =
             let rec addr a ixs nxs = match ixs, nxs with
               | i :: ir, n :: nr -> let i = int_of_z i in if i < 0 || i >= n then (-1) else (if a < 0 then a else addr (a * n + i) ir nr)
               | _, _ -> a in
             addr 0 ix nx in
           let read_dataset () =
               let cnt0arr = Array.init nt (fun _ -> ni ()) in
               let grad0arr = Array.init (nt * nd) (fun _ -> nf ()) in
               let cnt0 ix = let a = addr_of ix in if a >= 0 && a < nt then z_of_int cnt0arr.(a) else z_of_int 0 in
               let grad0 ix = let a = addr_of ix in
                 List.init nd (fun k -> if a >= 0 && a < nt then grad0arr.(a * nd + k) else 0.0) in
               (cnt0, grad0) in
           let datasets = List.init ndata (fun _ -> read_dataset ()) in
           let newcfgs = ref [] in
           let nevents = ni () in
           let events = List.init nevents (fun _ ->
               match ni () with
               | 0 ->
                 let x = nflist nd in let e = nflist nd in let o = nflist nd in let j = nflist nd in let b = nb () in
                 let a = nb () in
                 let w = nflist nd in
                 EvStep { i_x = x; i_e = e; i_o = o; i_j = j; i_boundary = b; i_apply = a; i_w = w }
               | 1 ->
                 let d = read_dataset () in
                 let nc = if nb () then begin
                     let f = ni () in let m = ni () in let cp = nb () in let mf = nflist nd in Some (f, m, cp, mf) end else None in
                 newcfgs := nc :: !newcfgs;
                 EvRestart d
               | _ -> EvReload (read_dataset ())) in
           let newcfgs = ref (List.rev !newcfgs) in
           let ixs = all_indices nx in
           let zs l = String.concat " " (List.map (fun z -> string_of_int (int_of_z z)) l) in
           let fs l = String.concat " " (List.map hex l) in
           let grid0 cnt sum =
             Printf.sprintf "cnt %s sum %s"
               (String.concat " " (List.map (fun ix -> string_of_int (int_of_z (cnt (List.map z_of_int ix)))) ixs))
               (String.concat " " (List.map (fun ix ->
                    let v = sum (List.map z_of_int ix) in
                    fs (List.init nd (fun k -> vget fops v (nat_of_int k)))) ixs)) in
           let grid cnt sum =
             Printf.sprintf "%s go %s" (grid0 cnt sum)
               (String.concat " " (List.map (fun ix ->
                    fs (List.init nd (fun k -> grad_out fops cnt sum (List.map z_of_int ix) (nat_of_int k)))) ixs)) in
           let buf = Buffer.create 4096 in
           let cr = ref c in
           let start = if late > 0 then abf_init_late fops c (z_of_int (late - 1)) else abf_init fops c in
           let s0 = ref (List.fold_left (abf_add_data fops c) start datasets) in
           let s = ref !s0 in
           let outs = ref [] in
           let seg = ref [] in
           let xcur = ref [] in       (* values last computed by the variables (they are not recomputed while asleep) *)
           List.iter (fun ev -> match ev with
             | EvRestart _ | EvReload _ ->
               (match ev with
                | EvRestart _ ->
                  (match !newcfgs with
                   | Some (f, m, cp, mf) :: rest ->
                     cr := { !cr with c_full = z_of_int f; c_min = z_of_int m; c_cap = cp; c_maxf = mf }; newcfgs := rest
                   | None :: rest -> newcfgs := rest
                   | [] -> ())
                | _ -> ());
               let c = !cr in
               s := abf_event_apply fops c !s ev; s0 := !s; outs := []; seg := []
             | EvStep i ->
               let c = !cr in
               seg := i :: !seg;
               if tsf <= 1 || awake kk (st_clk !s i) then xcur := i.i_x;
               let (s1, o) = if tsf > 1 then abf_mstep fops c kk !s i else abf_step fops c !s i in
               (* The grids of the model are functions idx -> value, each step wrapping the previous one in a
                  closure: evaluate them once on the bins of the grid and continue with table look-ups
                  (same function on every index: outside the table the original closure answers). *)
               let zixs = List.map (fun ix -> List.map z_of_int ix) ixs in
               let tc = Hashtbl.create 64 and ts = Hashtbl.create 64 in
               List.iter2 (fun ix zix -> Hashtbl.replace tc ix (s1.s_cnt zix); Hashtbl.replace ts ix (s1.s_sum zix)) ixs zixs;
               let key zix = List.map int_of_z zix in
               let s1 = { s1 with
                          s_cnt = (fun zix -> match Hashtbl.find_opt tc (key zix) with Some v -> v | None -> s1.s_cnt zix);
                          s_sum = (fun zix -> match Hashtbl.find_opt ts (key zix) with Some v -> v | None -> s1.s_sum zix) } in
               s := s1; outs := o :: !outs;
               Buffer.add_string buf (Printf.sprintf "bin %s fbin %s cf %s tf %s af %s %s scr %d %d %d %d ; "
                                        (zs s1.s_bin) (zs s1.s_fbin) (fs o.o_fabf) (fs o.o_tf) (fs o.o_f)
                                        (grid s1.s_cnt s1.s_sum)
                                        (int_of_z (abf_current_bin fops c !xcur)) (int_of_z (abf_count_current fops c s1 !xcur))
                                        (int_of_z (abf_bin_num c)) (int_of_z (abf_count_current fops c s1 !xcur)))) events;
           (* the specification evaluated on the trace since the last state-file event (informational) *)
           let s0 = !s0 in
           let tr = List.combine (List.rev !seg) (List.rev !outs) in
           let c = !cr in
           let att = attributed fops c tr in
           let scnt ix = z_of_int (int_of_z (s0.s_cnt ix) + List.length (samples_in ix att)) in
           let ssum ix = List.init nd (fun k ->
               vget fops (s0.s_sum ix) (nat_of_int k)
               -. (List.fold_left (fun acc v -> acc +. vget fops v (nat_of_int k)) 0.0 (samples_in ix att))) in
           Buffer.add_string buf ("SPEC " ^ grid0 scnt ssum);
           print_string (Buffer.contents buf); print_newline ()
         | _ -> Printf.printf "?\n")
      end
    done
  with End_of_file -> ()
