// C12 harness: the engine simulator (harness/vsim.h: schedules `smp serial|omp|perm [nthreads]`, `perm ..`,
// `assign ..`, `forcescript ..`, `show items 1`) plus
//   cvcvals   print, for every variable, every component: index, active flag, current value (hex)
//             (a component that was not evaluated at this step keeps the value of its last evaluation)
//   errbits c0 c1 ..   one std::thread per code calls cvm::set_error_bits(code) repeatedly; prints the resulting error word
//   footprints   derive, without instrumentation, the footprint of every work item of the two parallel loops and of the
//             collection phase from the live objects: an item is run alone from a restored snapshot of all model locations
//             (writes = locations whose content changed), and re-run after perturbing one location at a time
//             (reads = locations whose perturbation changes what the item writes).  Uses the positions set by the
//             preceding `pos` commands (they must differ from those of the last step).  Last command of a case.
//   sharefreq   print type and replica_share_freq() of every bias
//   setupoutput   colvarmodule::setup_output() (as an engine calls it after the configuration)
//   endcase   print ENDCASE, destroy the module and the proxy (several scenarios in one process)
// Reads scenarios from stdin or argv[1].
#include <cstdio>
#include <cstdlib>
#include <cstring>
#include <cmath>
#include <iostream>
#include <fstream>
#include <sstream>
#include <string>
#include <vector>
#include <map>
#include <algorithm>
#include <functional>
#include <thread>
#include <mutex>
#include <list>
#include <set>
#include <memory>
#include <iomanip>
#include <unordered_map>
#define private public
#define protected public
#include "vsim.h"
#include "colvarcomp.h"
#include "colvars_memstream.h"

struct c12_loc {
  std::string name;
  std::function<std::vector<double>()> get;
  std::function<void(std::vector<double> const &)> set;
  bool readonly;             // observed (writes, dependences) but never perturbed
  c12_loc(std::string const &n, std::function<std::vector<double>()> const &g, std::function<void(std::vector<double> const &)> const &st, bool ro = false)
    : name(n), get(g), set(st), readonly(ro) {}
};

struct c12_session : public vsim_session {
  c12_session(std::ostream *o) : vsim_session(o) {}

  std::vector<c12_loc> locations()
  {
    std::vector<c12_loc> L;
    colvarmodule *cv = proxy->colvars;
    vsim_proxy *px = proxy;
    std::vector<colvar *> &vars = *(cv->variables());
    for (size_t v = 0; v < vars.size(); v++) {
      colvar *c = vars[v];
      for (size_t k = 0; k < c->cvcs.size(); k++) {
        colvar::cvc *q = c->cvcs[k].get();
        std::string id = std::to_string(v) + ":" + std::to_string(k);
        L.push_back({"LIn:" + id,
          [q, px]() { std::vector<double> r;
            for (cvm::atom_group *g : q->atom_groups) for (size_t a = 0; a < g->atoms.size(); a++) {
              cvm::rvector const &p = px->atoms_positions[g->atoms[a].index]; r.push_back(p.x); r.push_back(p.y); r.push_back(p.z);
              cvm::rvector const &f = px->atoms_total_forces[g->atoms[a].index]; r.push_back(f.x); r.push_back(f.y); r.push_back(f.z); }
            return r; },
          [q, px](std::vector<double> const &r) { size_t n = 0;
            for (cvm::atom_group *g : q->atom_groups) for (size_t a = 0; a < g->atoms.size(); a++) {
              px->atoms_positions[g->atoms[a].index] = cvm::rvector(r[n], r[n + 1], r[n + 2]);
              px->atoms_total_forces[g->atoms[a].index] = cvm::rvector(r[n + 3], r[n + 4], r[n + 5]); n += 6; } }});
        // outside the model's vocabulary: cached centres and the fitted rotation of the component's atom groups
        L.push_back({"XGrp:" + id,
          [q]() { std::vector<double> r;
            for (cvm::atom_group *g : q->atom_groups) { r.push_back(g->com.x); r.push_back(g->com.y); r.push_back(g->com.z);
              r.push_back(g->cog.x); r.push_back(g->cog.y); r.push_back(g->cog.z);
              r.push_back(g->rot.q.q0); r.push_back(g->rot.q.q1); r.push_back(g->rot.q.q2); r.push_back(g->rot.q.q3); }
            return r; },
          [q](std::vector<double> const &r) { size_t n = 0;
            for (cvm::atom_group *g : q->atom_groups) { g->com = cvm::rvector(r[n], r[n + 1], r[n + 2]); g->cog = cvm::rvector(r[n + 3], r[n + 4], r[n + 5]);
              g->rot.q = cvm::quaternion(r[n + 6], r[n + 7], r[n + 8], r[n + 9]); n += 10; } }});
        L.push_back({"LCvc:" + id,
          [q]() { std::vector<double> r; r.push_back(q->x.real_value); r.push_back(q->ft.real_value); r.push_back(q->jd.real_value);
            for (cvm::atom_group *g : q->atom_groups) for (size_t a = 0; a < g->atoms.size(); a++) {
              cvm::atom &t = g->atoms[a]; r.push_back(t.pos.x); r.push_back(t.pos.y); r.push_back(t.pos.z);
              r.push_back(t.grad.x); r.push_back(t.grad.y); r.push_back(t.grad.z); }
            return r; },
          [q](std::vector<double> const &r) { size_t n = 0; q->x.real_value = r[n++]; q->ft.real_value = r[n++]; q->jd.real_value = r[n++];
            for (cvm::atom_group *g : q->atom_groups) for (size_t a = 0; a < g->atoms.size(); a++) {
              cvm::atom &t = g->atoms[a]; t.pos = cvm::rvector(r[n], r[n + 1], r[n + 2]); t.grad = cvm::rvector(r[n + 3], r[n + 4], r[n + 5]); n += 6; } }});
      }
      std::string id = std::to_string(v);
      L.push_back({"LX:" + id,
        [c]() { return std::vector<double>{c->x.real_value, c->ft.real_value, c->fj.real_value, c->x_reported.real_value}; },
        [c](std::vector<double> const &r) { c->x.real_value = r[0]; c->ft.real_value = r[1]; c->fj.real_value = r[2]; c->x_reported.real_value = r[3]; }});
      // outside the model's vocabulary (names start with X): further members of the variable
      L.push_back({"XVar:" + id,
        [c]() { std::vector<double> r{c->x_old.real_value, c->v_fdiff.real_value, c->v_reported.real_value, c->ft_reported.real_value, c->f_old.real_value};
          for (auto &g : c->atomic_gradients) { r.push_back(g.x); r.push_back(g.y); r.push_back(g.z); } return r; },
        [c](std::vector<double> const &r) { c->x_old.real_value = r[0]; c->v_fdiff.real_value = r[1]; c->v_reported.real_value = r[2]; c->ft_reported.real_value = r[3]; c->f_old.real_value = r[4];
          size_t n = 5; for (auto &g : c->atomic_gradients) { g = cvm::rvector(r[n], r[n + 1], r[n + 2]); n += 3; } }});
      L.push_back({"LFb:" + id, [c]() { return std::vector<double>{c->fb.real_value}; }, [c](std::vector<double> const &r) { c->fb.real_value = r[0]; }});
      L.push_back({"LF:" + id, [c]() { return std::vector<double>{c->f.real_value}; }, [c](std::vector<double> const &r) { c->f.real_value = r[0]; }});
    }
    for (size_t b = 0; b < cv->biases.size(); b++) {
      colvarbias *q = cv->biases[b];
      std::string id = std::to_string(b);
      // outside the model's probe vocabulary: the bias' whole private state (hills, kernels, samples ...) as the bytes of its binary state;
      // observed only (it is put back by the probe before every run), so that a dependence that shows up in what the bias DEPOSITS is seen
      {
        c12_loc st("XState:" + id,
          [q]() { cvm::memory_stream os; q->write_state(os); std::vector<double> r; unsigned char const *p = os.output_buffer();
                  for (size_t k = 0; k < os.length(); k++) r.push_back((double) p[k]); return r; },
          [](std::vector<double> const &) {});
        st.readonly = true;
        L.push_back(st);
      }
      L.push_back({"LBiasE:" + id, [q]() { return std::vector<double>{q->bias_energy}; }, [q](std::vector<double> const &r) { q->bias_energy = r[0]; }});
      for (size_t i = 0; i < q->colvar_forces.size(); i++) {
        L.push_back({"LBiasF:" + id + ":" + std::to_string(i),
          [q, i]() { return std::vector<double>{q->colvar_forces[i].real_value}; },
          [q, i](std::vector<double> const &r) { q->colvar_forces[i].real_value = r[0]; }});
      }
    }
    // outside the model's vocabulary: module statics and proxy arrays
    L.push_back({"XErr", []() { return std::vector<double>{(double) cvm::errorCode}; }, [](std::vector<double> const &r) { cvm::errorCode = (int) r[0]; }});
    L.push_back({"XDepth", [cv]() { std::vector<double> r{(double) cv->depth_s}; for (size_t d : cv->depth_v) r.push_back((double) d); return r; },
                 [cv](std::vector<double> const &r) { cv->depth_s = (size_t) r[0]; for (size_t k = 0; k < cv->depth_v.size(); k++) cv->depth_v[k] = (size_t) r[k + 1]; }});
    L.push_back({"XAtomF", [px]() { std::vector<double> r; for (auto &f : px->atoms_new_colvar_forces) { r.push_back(f.x); r.push_back(f.y); r.push_back(f.z); } return r; },
                 [px](std::vector<double> const &r) { size_t n = 0; for (auto &f : px->atoms_new_colvar_forces) { f = cvm::rvector(r[n], r[n + 1], r[n + 2]); n += 3; } }});
    L.push_back({"LEnergy", [cv]() { return std::vector<double>{cv->total_bias_energy}; }, [cv](std::vector<double> const &r) { cv->total_bias_energy = r[0]; }});
    return L;
  }

  typedef std::vector<std::vector<double> > snap_t;
  static snap_t getall(std::vector<c12_loc> &L) { snap_t s; for (auto &l : L) s.push_back(l.get()); return s; }
  static void setall(std::vector<c12_loc> &L, snap_t const &s) { for (size_t i = 0; i < L.size(); i++) L[i].set(s[i]); }

  void probe(std::string const &label, std::vector<c12_loc> &L, snap_t const &S0, std::function<void()> const &run_item_only,
             std::function<void()> const &restore_private = std::function<void()>())
  {
    std::ostream &o = *out;
    // private state of the item outside the locations (kernels, hills, samples, moving centres) is put back before every run
    // from a binary state buffer, so that runs from the same snapshot repeat themselves
    std::function<void()> run_item = [&]() { if (restore_private) restore_private(); run_item_only(); };
    setall(L, S0);
    run_item();
    snap_t S1 = getall(L);
    std::vector<size_t> W;
    for (size_t i = 0; i < L.size(); i++) if (S1[i] != S0[i]) W.push_back(i);
    // control: an item with private state outside the locations (hills, samples, moving centres, extended coordinates)
    // does not repeat itself; its read set cannot be derived by perturbation
    bool repeatable = true;
    for (int rep = 0; rep < 3 && repeatable; rep++) {     // (state such as sample counts may change the outcome only after a few updates)
      setall(L, S0);
      run_item();
      repeatable = (getall(L) == S1);
    }
    std::vector<size_t> R, Wsame;
    for (size_t j = 0; repeatable && j < L.size(); j++) {
      if (S0[j].empty() || L[j].readonly) continue;
      setall(L, S0);
      std::vector<double> pv(S0[j]);
      for (double &x : pv) x += 1.0;
      L[j].set(pv);
      run_item();
      snap_t S2 = getall(L);
      // a location that does not keep the perturbation was written, even when the item writes back the value it had
      if (std::find(W.begin(), W.end(), j) == W.end()) {
        for (size_t e = 0; e < pv.size(); e++) if (S2[j][e] != pv[e]) { Wsame.push_back(j); break; }
      }
      // only what the item really wrote counts (entries it left alone keep the perturbation of their own location)
      bool dep = false;
      for (size_t w : W) {
        if (L[w].readonly) { if (S2[w] != S1[w]) dep = true; continue; }
        for (size_t e = 0; e < S1[w].size(); e++) if (S1[w][e] != S0[w][e] && S2[w][e] != S1[w][e]) dep = true;
      }
      if (dep) R.push_back(j);
    }
    o << "FP " << label << (repeatable ? (restore_private ? " RESTORED" : "") : " NOTREPEATABLE") << " W=";
    for (size_t k = 0; k < W.size(); k++) o << (k ? "," : "") << L[W[k]].name;
    o << " R=";
    for (size_t k = 0; k < R.size(); k++) o << (k ? "," : "") << L[R[k]].name;
    o << " WS=";   // written with the value it already had
    for (size_t k = 0; k < Wsame.size(); k++) o << (k ? "," : "") << L[Wsame[k]].name;
    o << "\n";
    setall(L, S0);
  }

  void footprints()
  {
    colvarmodule *cv = proxy->colvars;
    std::vector<colvar *> &vars = *(cv->variables());
    // the engine's new positions
    for (size_t i = 0; i < proxy->atoms_ids.size(); i++) proxy->atoms_positions[i] = eng.pos[proxy->atoms_ids[i]];
    std::vector<c12_loc> L = locations();
    auto vindex = [&](colvar *c) { for (size_t v = 0; v < vars.size(); v++) if (vars[v] == c) return (int) v; return -1; };
    // phase 1: the items of the component loop, as built by calc_colvars at the last step
    snap_t S0 = getall(L);
    int const n = cv->variables_active_smp()->size();
    for (int i = 0; i < n; i++) {
      probe("comp " + std::to_string(vindex((*(cv->variables_active_smp()))[i])) + ":" + std::to_string((*(cv->variables_active_smp_items()))[i]),
            L, S0, [cv, i]() { cv->calc_component_smp(i); });
    }
    setall(L, S0);
    for (int i = 0; i < n; i++) cv->calc_component_smp(i);
    // phase 2: collection of every active variable
    snap_t S1 = getall(L);
    for (colvar *c : *(cv->variables_active())) probe("collect " + std::to_string(vindex(c)), L, S1, [c]() { c->collect_cvc_data(); });
    setall(L, S1);
    for (colvar *c : *(cv->variables_active())) c->collect_cvc_data();
    for (colvar *c : vars) c->reset_bias_force();
    cv->total_bias_energy = 0.0;
    // phase 3: the items of the bias loop
    snap_t S2 = getall(L);
    // the private state of EVERY bias, saved once in binary form (exact) and read back before every run of the probe
    std::shared_ptr<std::vector<std::shared_ptr<cvm::memory_stream> > > bufs(new std::vector<std::shared_ptr<cvm::memory_stream> >());
    for (colvarbias *q : cv->biases) { bufs->push_back(std::shared_ptr<cvm::memory_stream>(new cvm::memory_stream())); q->write_state(*(bufs->back())); }
    std::function<void()> restore_all = [cv, bufs]() {
      int const ec = cvm::errorCode;
      for (size_t k = 0; k < cv->biases.size(); k++) {
        cvm::memory_stream is((*bufs)[k]->length(), (*bufs)[k]->output_buffer()); cv->biases[k]->read_state(is); }
      cvm::errorCode = ec; };
    bool const quiet_save = proxy->quiet;
    std::ostream *logos_save = proxy->logos;
    proxy->quiet = true; proxy->logos = NULL;     // reading a state logs a few lines every time
    for (colvarbias *b : *(cv->biases_active())) {
      int bi = -1;
      for (size_t k = 0; k < cv->biases.size(); k++) if (cv->biases[k] == b) bi = k;
      probe("bias " + std::to_string(bi), L, S2, [b]() { b->update(); }, restore_all);
    }
    if (cv->use_scripted_forces && !cv->scripting_after_biases) probe("script", L, S2, [cv]() { cv->calc_scripted_forces(); }, restore_all);
    proxy->quiet = quiet_save; proxy->logos = logos_save;
    *out << "FPEND\n";
  }

  bool exec_extra(std::string const &cmd, std::vector<std::string> const &a, std::istream &) override
  {
    std::ostream &o = *out;
    if (cmd == "cvcvals") {
      for (colvar *c : *(proxy->colvars->variables())) {
        for (size_t i = 0; i < c->cvcs.size(); i++) {
          o << "CVC " << c->name << " " << i << " " << (c->cvcs[i]->is_enabled() ? 1 : 0) << " "
            << vs_hex(c->cvcs[i]->value()) << "\n";
        }
      }
      return true;
    }
    if (cmd == "footprints") { footprints(); return true; }
    if (cmd == "sharefreq") {    // per bias: type, replica_share_freq() (what makes calc_biases keep the loop on the main thread)
      for (colvarbias *b : proxy->colvars->biases)
        o << "SHAREFREQ " << b->name << " " << b->bias_type << " " << b->replica_share_freq() << "\n";
      return true;
    }
    if (cmd == "setupoutput") {   // what an engine does after the configuration was read (replica files of metadynamics are opened there)
      cvm::clear_error();
      int err = proxy->colvars->setup_output();
      // the module forwards to the biases only when the prefix changed; the simulator sets it before the module exists
      for (colvarbias *b : proxy->colvars->biases) err |= b->setup_output();
      o << "SETUPOUTPUT err=" << vs_errclass(err | cvm::get_error()) << "\n";
      cvm::clear_error();
      return true;
    }
    if (cmd == "errbits") {
      cvm::clear_error();
      std::vector<int> codes;
      for (auto &w : a) codes.push_back(atoi(w.c_str()));
      std::vector<std::thread> ths;
      for (size_t t = 0; t < codes.size(); t++) {
        ths.emplace_back([&, t]() {
          vsim_proxy::my_thread_id = (int) t;
          for (int rep = 0; rep < 50; rep++) cvm::set_error_bits(codes[t]);
        });
      }
      for (auto &th : ths) th.join();
      o << "ERRBITS " << cvm::get_error() << "\n";
      cvm::clear_error();
      return true;
    }
    if (cmd == "endcase") {
      o << "ENDCASE" << (a.size() ? " " + a[0] : "") << "\n";
      if (proxy) { delete proxy; proxy = NULL; }
      eng.perm.clear(); eng.assign.clear(); eng.script_forces.clear(); eng.gauss.clear(); eng.gauss_pos = 0;
      eng.smp = "serial"; eng.nthreads = 1; eng.prefix = ""; eng.has_cell = false; eng.restart_freq = 0;
      return true;
    }
    return false;
  }
};

int main(int argc, char **argv)
{
  c12_session s(&std::cout);
  if (argc > 1 && std::string(argv[1]) != "-") {
    std::ifstream f(argv[1]);
    if (!f) { std::cerr << "cannot open " << argv[1] << "\n"; return 2; }
    s.run(f);
  } else {
    s.run(std::cin);
  }
  std::cout.flush();
  return 0;
}
