// C12 harness: the engine simulator (harness/vsim.h: schedules `smp serial|omp|perm [nthreads]`, `perm ..`,
// `assign ..`, `forcescript ..`, `show items 1`) plus
//   cvcvals   print, for every variable, every component: index, active flag, current value (hex)
//             (a component that was not evaluated at this step keeps the value of its last evaluation)
//   errbits c0 c1 ..   one std::thread per code calls cvm::set_error_bits(code) repeatedly; prints the resulting error word
//   endcase   print ENDCASE, destroy the module and the proxy (several scenarios in one process)
// Reads scenarios from stdin or argv[1].
#include <cstdio>
#include <cstdlib>
#include <cstring>
#include <cmath>
#include <iostream>
#include <fstream>
#include <sstream>
#include <string>
#include <vector>
#include <map>
#include <algorithm>
#include <functional>
#include <thread>
#include <mutex>
#include <list>
#include <set>
#include <memory>
#include <iomanip>
#include <unordered_map>
#define private public
#define protected public
#include "vsim.h"
#include "colvarcomp.h"

struct c12_session : public vsim_session {
  c12_session(std::ostream *o) : vsim_session(o) {}

  bool exec_extra(std::string const &cmd, std::vector<std::string> const &a, std::istream &) override
  {
    std::ostream &o = *out;
    if (cmd == "cvcvals") {
      for (colvar *c : *(proxy->colvars->variables())) {
        for (size_t i = 0; i < c->cvcs.size(); i++) {
          o << "CVC " << c->name << " " << i << " " << (c->cvcs[i]->is_enabled() ? 1 : 0) << " "
            << vs_hex(c->cvcs[i]->value()) << "\n";
        }
      }
      return true;
    }
    if (cmd == "errbits") {
      cvm::clear_error();
      std::vector<int> codes;
      for (auto &w : a) codes.push_back(atoi(w.c_str()));
      std::vector<std::thread> ths;
      for (size_t t = 0; t < codes.size(); t++) {
        ths.emplace_back([&, t]() {
          vsim_proxy::my_thread_id = (int) t;
          for (int rep = 0; rep < 50; rep++) cvm::set_error_bits(codes[t]);
        });
      }
      for (auto &th : ths) th.join();
      o << "ERRBITS " << cvm::get_error() << "\n";
      cvm::clear_error();
      return true;
    }
    if (cmd == "endcase") {
      o << "ENDCASE" << (a.size() ? " " + a[0] : "") << "\n";
      if (proxy) { delete proxy; proxy = NULL; }
      eng.perm.clear(); eng.assign.clear(); eng.script_forces.clear(); eng.gauss.clear(); eng.gauss_pos = 0;
      eng.smp = "serial"; eng.nthreads = 1; eng.prefix = ""; eng.has_cell = false;
      return true;
    }
    return false;
  }
};

int main(int argc, char **argv)
{
  c12_session s(&std::cout);
  if (argc > 1 && std::string(argv[1]) != "-") {
    std::ifstream f(argv[1]);
    if (!f) { std::cerr << "cannot open " << argv[1] << "\n"; return 2; }
    s.run(f);
  } else {
    s.run(std::cin);
  }
  std::cout.flush();
  return 0;
}
