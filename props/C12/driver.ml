(* C12 model driver: runs the extracted SmpModel on case lines from stdin, one output line per case.
   CASE mode nv {tsf nc coeff*nc exp*nc scripted}*nv  nb {tsf nbv v*nbv k c*nbv}*nb  use_script script_after nsc {v f}*nsc  nsteps
        { nfs {v n f*n}*nfs   z*(all components of all variables)   np p*np }*nsteps
   mode = serial | smp | unfixed (unfixed: only the evaluated components are computed with the pre-repair meaning of an item)
   p* = a permutation of 0..np-1 (np >= number of items); the executed order of a loop with n items is its entries < n *)
open Model

let rec pos_of_int (n : int) : positive =
  if n <= 1 then XH else if n land 1 = 0 then XO (pos_of_int (n lsr 1)) else XI (pos_of_int (n lsr 1))
let z_of_int (n : int) : z = if n = 0 then Z0 else if n > 0 then Zpos (pos_of_int n) else Zneg (pos_of_int (- n))
let rec int_of_pos (p : positive) : int = match p with XH -> 1 | XO q -> 2 * int_of_pos q | XI q -> 2 * int_of_pos q + 1
let int_of_z (x : z) : int = match x with Z0 -> 0 | Zpos p -> int_of_pos p | Zneg p -> - (int_of_pos p)
let rec nat_of_int n = if n <= 0 then O else S (nat_of_int (n - 1))
let rec int_of_nat n = match n with O -> 0 | S m -> 1 + int_of_nat m
let words (s : string) : string list = List.filter (fun w -> w <> "") (String.split_on_char ' ' (String.trim s))

let pairs l = String.concat "," (List.map (fun (a, b) -> Printf.sprintf "%d:%d" (int_of_nat a) (int_of_nat b)) l)

let () =
  try
    while true do
      let line = input_line stdin in
      let w = Array.of_list (words line) in
      if Array.length w > 0 && w.(0) = "ERRBITS" then begin
        (* set_error_bits(code): errorCode |= code | COLVARS_ERROR, from one thread per code *)
        let codes = List.map (fun s -> Z.coq_lor (z_of_int (int_of_string s)) (z_of_int 1)) (List.tl (Array.to_list w)) in
        Printf.printf "ERRBITS %d\n" (int_of_z (or_codes codes))
      end else if Array.length w > 0 && w.(0) = "OMPSTATIC" then begin
        (* OMPSTATIC n nt : the OpenMP thread of every item under the static schedule *)
        let n = int_of_string w.(1) and nt = int_of_string w.(2) in
        print_string "ITHREADS";
        for i = 0 to n - 1 do Printf.printf " %d" (int_of_nat (omp_thread_of (nat_of_int n) (nat_of_int nt) (nat_of_int i))) done;
        print_newline ()
      end else if Array.length w > 0 && w.(0) = "FOOT" then begin
        (* FOOT t nv {tsf nc flag*nc coeff*nc exp*nc scripted}*nv nb {tsf nbv v*nbv k c*nbv}*nb use after nsc {v f}*nsc : the model's footprint table *)
        let p = ref 1 in
        let next () = let s = w.(!p) in Stdlib.incr p; s in
        let ni () = int_of_string (next ()) in
        let nb () = ni () <> 0 in
        let t = ni () in
        let nv = ni () in
        let vars = List.init nv (fun _ ->
            let tsf = ni () in let nc = ni () in
            let fl = List.init nc (fun _ -> nb ()) in
            let coeff = List.init nc (fun _ -> z_of_int (ni ())) in
            let ex = List.init nc (fun _ -> nat_of_int (ni ())) in
            let scr = nb () in
            { v_tsf = nat_of_int tsf; v_flags = fl; v_pending = []; v_coeff = coeff; v_exp = ex; v_scripted = scr }) in
        let nbias = ni () in
        let biases = List.init nbias (fun _ ->
            let tsf = ni () in let nbv = ni () in
            let vs = List.init nbv (fun _ -> nat_of_int (ni ())) in
            let k = z_of_int (ni ()) in
            let cs = List.init nbv (fun _ -> z_of_int (ni ())) in
            { b_tsf = nat_of_int tsf; b_vars = vs; b_k = k; b_centers = cs }) in
        let use_script = nb () in let after = nb () in
        let nsc = ni () in
        let script = List.init nsc (fun _ -> let v = ni () in let f = ni () in (nat_of_int v, z_of_int f)) in
        let c = { c_vars = vars; c_biases = biases; c_use_script = use_script; c_script_after = after; c_script = script } in
        let i = int_of_nat in
        let loc l = match l with
          | LIn (v, k) -> Printf.sprintf "LIn:%d:%d" (i v) (i k) | LCvc (v, k) -> Printf.sprintf "LCvc:%d:%d" (i v) (i k)
          | LX v -> Printf.sprintf "LX:%d" (i v) | LFb v -> Printf.sprintf "LFb:%d" (i v) | LF v -> Printf.sprintf "LF:%d" (i v)
          | LBiasE b -> Printf.sprintf "LBiasE:%d" (i b) | LBiasF (b, k) -> Printf.sprintf "LBiasF:%d:%d" (i b) (i k) | LBiasState b -> Printf.sprintf "LBiasState:%d" (i b) | LEnergy -> "LEnergy" in
        let fps l = String.concat " | " (List.map (fun (r, wr) -> "R=" ^ String.concat "," (List.map loc r) ^ " W=" ^ String.concat "," (List.map loc wr)) l) in
        let tn = nat_of_int t in
        Printf.printf "COMP %s ; COLLECT %s ; BIAS %s\n" (fps (model_comp_fps c tn)) (fps (model_collect_fps c tn)) (fps (model_bias_fps c tn))
      end else if Array.length w > 0 then begin
        let p = ref 1 in
        let next () = let s = w.(!p) in Stdlib.incr p; s in
        let ni () = int_of_string (next ()) in
        let nb () = ni () <> 0 in
        let mode = next () in
        let nv = ni () in
        let vars = List.init nv (fun _ ->
            let tsf = ni () in let nc = ni () in
            let coeff = List.init nc (fun _ -> z_of_int (ni ())) in
            let ex = List.init nc (fun _ -> nat_of_int (ni ())) in
            let scr = nb () in
            { v_tsf = nat_of_int tsf; v_flags = List.init nc (fun _ -> true); v_pending = []; v_coeff = coeff; v_exp = ex; v_scripted = scr }) in
        let nbias = ni () in
        let biases = List.init nbias (fun _ ->
            let tsf = ni () in let nbv = ni () in
            let vs = List.init nbv (fun _ -> nat_of_int (ni ())) in
            let k = z_of_int (ni ()) in
            let cs = List.init nbv (fun _ -> z_of_int (ni ())) in
            { b_tsf = nat_of_int tsf; b_vars = vs; b_k = k; b_centers = cs }) in
        let use_script = nb () in let after = nb () in
        let nsc = ni () in
        let script = List.init nsc (fun _ -> let v = ni () in let f = ni () in (nat_of_int v, z_of_int f)) in
        let nsteps = ni () in
        let cfg = ref { c_vars = vars; c_biases = biases; c_use_script = use_script; c_script_after = after; c_script = script } in
        let ncomp = List.map (fun v -> List.length v.v_flags) vars in
        (* the store, materialised after every step *)
        let tbl : (loc, z) Hashtbl.t ref = ref (Hashtbl.create 64) in
        let out = Buffer.create 256 in
        let stop = ref false in
        let items_state : (nat * nat) list ref = ref [] in    (* colvars_smp / colvars_smp_items: survive between steps *)
        for t = 0 to nsteps - 1 do
          let nfs = ni () in
          for _ = 1 to nfs do
            let v = ni () in let n = ni () in
            let fl = List.init n (fun _ -> nb ()) in
            if not !stop then
              cfg := { !cfg with c_vars = List.mapi (fun i x -> if i = v then set_flags x fl else x) !cfg.c_vars }
          done;
          let zin = List.map (fun nc -> List.init nc (fun _ -> z_of_int (ni ()))) ncomp in
          let np = ni () in
          let perm = List.init np (fun _ -> ni ()) in
          if not !stop then begin
            let tn = nat_of_int t in
            let cur = !tbl in
            let s0 : loc -> z = fun l ->
              match l with
              | LIn (v, c) -> List.nth (List.nth zin (int_of_nat v)) (int_of_nat c)
              | _ -> (try Hashtbl.find cur l with Not_found -> Z0) in
            let err = step_error !cfg tn in
            let vs' = prep_vars tn !cfg.c_vars in
            let avs = active_vars tn vs' in
            let items = rebuild_items !items_state !cfg tn in
            items_state := items;
            let ev = if mode = "unfixed" then List.concat_map (item_evaluates_unfixed vs') items
                     else if mode = "serial" then List.concat_map serial_evaluates avs
                     else List.concat_map (item_evaluates vs') items in
            let nci = int_of_nat (n_cvc_items !cfg tn) and nbi = int_of_nat (n_bias_items !cfg tn) in
            let oc = List.map nat_of_int (List.filter (fun k -> k < nci) perm) in
            let ob = List.map nat_of_int (List.filter (fun k -> k < nbi) perm) in
            let s1 = if mode = "serial" then step_serial !cfg tn s0 else step_smp !cfg tn oc ob s0 in
            (* small-step self-check of the extracted model: the component items under an interleaved read/write-phase trace
               (two items in flight at a time, committed in reverse order) against their atomic serial execution *)
            let citems = Model.concat (smp_cvc_work vs' tn) in
            let nit = List.length citems in
            let ord = List.filter (fun k -> k < nit) perm in
            let rec mk l = match l with
              | a :: b :: r -> Rd (nat_of_int a) :: Rd (nat_of_int b) :: Wr (nat_of_int b) :: Wr (nat_of_int a) :: mk r
              | [a] -> [Rd (nat_of_int a); Wr (nat_of_int a)]
              | [] -> [] in
            let sa = mrun loc_eqb citems (mk ord) s0 [] and sb = run loc_eqb citems s0 in
            let ss_ok = List.for_all (fun x -> x) (List.concat (List.mapi (fun v nc -> List.init nc (fun c ->
                          let l = LCvc (nat_of_int v, nat_of_int c) in sa l = sb l)) ncomp)) in
            (* materialise *)
            let nt = Hashtbl.create 64 in
            let put l = Hashtbl.replace nt l (s1 l) in
            List.iteri (fun v nc -> for c = 0 to nc - 1 do put (LCvc (nat_of_int v, nat_of_int c)) done;
                         put (LX (nat_of_int v)); put (LFb (nat_of_int v)); put (LF (nat_of_int v))) ncomp;
            List.iteri (fun b bs -> put (LBiasE (nat_of_int b));
                         List.iteri (fun i _ -> put (LBiasF (nat_of_int b, nat_of_int i))) bs.b_vars) biases;
            put LEnergy;
            tbl := nt;
            let get l = int_of_z (Hashtbl.find nt l) in
            let bitems = (List.map (fun (b, _) -> string_of_int (int_of_nat b)) (active_biases tn !cfg.c_biases))
                         @ (if use_script && not after then ["s"] else []) in
            Buffer.add_string out (Printf.sprintf "t=%d err=%d ITEMS=%s BITEMS=%s EV=%s" t (if err then 1 else 0)
                                     (pairs items) (String.concat "," bitems) (pairs ev));
            if err then begin
              (* the error step: component/collection part under the two paths (serial returns at the failing variable) *)
              let s2 = run loc_eqb (if mode = "serial" then serial_cvc_items_err !cfg tn else smp_cvc_items_err !cfg tn) s0 in
              Buffer.add_string out " XERR=";
              List.iteri (fun v _ -> Buffer.add_string out (Printf.sprintf "%d," (int_of_z (s2 (LX (nat_of_int v)))))) ncomp;
              stop := true
            end else begin
              Buffer.add_string out " CVC=";
              List.iteri (fun v nc -> for c = 0 to nc - 1 do
                             Buffer.add_string out (Printf.sprintf "%d:%d:%d:%d," v c
                               (if List.nth (List.nth vs' v).v_flags c then 1 else 0) (get (LCvc (nat_of_int v, nat_of_int c)))) done) ncomp;
              Buffer.add_string out " X=";
              List.iteri (fun v _ -> Buffer.add_string out (Printf.sprintf "%d," (get (LX (nat_of_int v))))) ncomp;
              Buffer.add_string out " F=";
              List.iteri (fun v _ -> Buffer.add_string out (Printf.sprintf "%d," (get (LF (nat_of_int v))))) ncomp;
              Buffer.add_string out " BE=";
              List.iteri (fun b _ -> Buffer.add_string out (Printf.sprintf "%d," (get (LBiasE (nat_of_int b))))) biases;
              Buffer.add_string out (Printf.sprintf " EN=%d" (get LEnergy));
              Buffer.add_string out (if ss_ok then " SS=ok" else " SS=BAD")
            end;
            Buffer.add_string out " ; ";
            cfg := next_cfg !cfg tn
          end
        done;
        print_string (Buffer.contents out); print_newline ()
      end
    done
  with End_of_file -> ()
