# C12: results do not depend on threading or on the order of evaluation.
#  * proof: coq/C12 (item list covers the active components exactly once; generic commutation of items with
#    disjoint footprints; footprint table of the model; serial schedule = SMP schedule for every permutation,
#    thread assignment and interleaving; OR-accumulated error bits)
#  * tie: the extracted model vs the rebuilt C++ (c12sim = harness/vsim.h with explicit schedules) on generated
#    configurations with exactly representable (integer) values: item list, evaluated components, component
#    values (fresh/stale), variable values, applied forces, bias energies, total energy, error class
#  * property oracle on the implementation alone: the same scenario under `smp serial` and under random
#    permutations / thread counts / thread assignments (own std::thread executor) or OpenMP must print
#    bit-identical values, energies, forces and write identical state and trajectory files
#  * the library's own OpenMP modes (smp off|cvcs|inner_loop) x OMP_NUM_THREADS in {1,2,3,4,8} vs the serial single-thread run,
#    bitwise, on 24 component kinds with large groups and generic coordinates (order of every accumulation matters)
#  * exploration: ThreadSanitizer build with the std::thread executor (a few scenarios quick, ~200 thorough)
import os, sys, json, re, math, itertools
import vcommon as V

PROP = "coq/C12/Properties_C12.v"
PROP_GEN = "coq/C12/Properties_C12_gen.v"     # theorems about coq/Gen/GenFootC12.v, regenerated from the binary on every run
EXTRACT = "coq/C12/Extract_C12.v"
DRIVER = "props/C12/driver.ml"
PROGS = {"c12sim": ["props/C12/unit.cpp"]}
NPERM = 24          # permutations handed to the executors are permutations of range(NPERM) (>= number of items)

if os.environ.get("C12_COV"):      # coverage measurement of the anchored functions (scratch VERIF_BUILD only)
    V.CXX_VARIANTS["plain"] = ["-O0", "-g0", "--coverage"]
V.CXX_VARIANTS.setdefault("tsan", ["-O1", "-g", "-fsanitize=thread", "-fno-omit-frame-pointer"])


# ------------------------------------------------------------------------------------------------
# T cases: configurations inside the model (linear combinations of exact distanceZ components, harmonic
# biases, multiple time steps, scripted forces, cvcflags), integer data => every number is exact
# ------------------------------------------------------------------------------------------------
def lcm(a, b):
    return a * b // math.gcd(a, b)


def gen_tcase(r, k):
    nv = r.choice([1, 1, 2, 2, 3, 4])
    many = r.random() < 0.12          # a variable with many components (items-per-thread distribution); total <= NPERM
    if many:
        nv = r.choice([1, 2])
    vars_ = []
    for v in range(nv):
        nc = r.choice([8, 10, 12]) if (many and v == 0) else r.choice([1, 2, 3, 3, 4])
        x = {"tsf": r.choice([1, 1, 1, 1, 2, 3]), "coeff": [r.choice([1, 1, 2, -1, 3]) for _ in range(nc)]}
        if nc <= 2 and r.random() < 0.3:
            # polynomial combination (componentExp 2) on unit coefficients: keeps every energy below 2^53 (exact in doubles)
            x["coeff"] = [r.choice([1, -1]) for _ in range(nc)]
            x["exp"] = [r.choice([1, 2]) for _ in range(nc)]
        elif nc <= 3 and r.random() < 0.15:
            # scripted variable (scriptedFunction vsum): the callback receives EVERY component value, enabled or not
            x["coeff"] = [1] * nc
            x["scripted"] = True
        vars_.append(x)
    biases = []
    own = []
    for v in range(nv):
        if r.random() < 0.75:
            own.append(v)
            biases.append({"tsf": vars_[v]["tsf"], "vars": [v], "k": r.randint(1, 4), "centers": [r.randint(-3, 3)]})
    for _ in range(r.choice([0, 0, 1, 2])):
        if not own:
            break
        vs = r.sample(own, min(len(own), r.choice([1, 2])))
        t = 1
        for v in vs:
            t = lcm(t, vars_[v]["tsf"])
        biases.append({"tsf": t * r.choice([1, 1, 2]), "vars": vs, "k": r.randint(1, 4), "centers": [r.randint(-3, 3) for _ in vs]})
    r.shuffle(biases)
    scriptable = [v for v in own if vars_[v]["tsf"] == 1]
    use_script = bool(scriptable) and r.random() < 0.45
    script = []
    if use_script:
        for v in r.sample(scriptable, r.randint(1, len(scriptable))):
            script.append((v, r.randint(-5, 5)))
    after = use_script and r.random() < 0.3
    nsteps = r.randint(3, 7)
    steps = []
    flags_now = [[1] * len(x["coeff"]) for x in vars_]
    for t in range(nsteps):
        fs = []
        last = t == nsteps - 1
        if r.random() < 0.5:
            v = r.randrange(nv)
            nc = len(vars_[v]["coeff"])
            m = r.random()
            if m < 0.05 and last:
                f = [0] * nc                                  # all off: the step reports an error
            elif m < 0.12:
                f = [r.randint(0, 1) for _ in range(nc + r.choice([-1, 1]))]   # wrong length: refused
            elif m < 0.45 and nc >= 2:
                f = [0] + [r.randint(0, 1) for _ in range(nc - 2)] + [1]      # a disabled component before an enabled one
            else:
                f = [r.randint(0, 1) for _ in range(nc)]
                if not any(f):
                    f[r.randrange(nc)] = 1
            fs.append((v, f))
        z = [[100 * (t + 1) + r.randint(-40, 40) for _ in x["coeff"]] for x in vars_]   # never 0 (the initial value), never repeated
        perm = list(range(NPERM))
        r.shuffle(perm)
        nt = r.choice([1, 1, 2, 2, 3, 4, 8])
        assign = [r.randrange(nt) for _ in range(NPERM)] if r.random() < 0.5 else []
        steps.append({"flags": fs, "z": z, "perm": perm, "nt": nt, "assign": assign})
    smp = r.choice(["perm", "perm", "omp", "omp"])
    return {"id": k, "vars": vars_, "biases": biases, "use_script": use_script, "after": after, "script": script,
            "steps": steps, "smp": smp, "smpkey": r.choice([None, "cvcs", "off", "inner_loop"]) if smp == "omp" else None}


def tcase_config(c):
    L = []
    atom = 0
    for v, x in enumerate(c["vars"]):
        L += ["colvar {", "  name v%d" % v]
        if x["tsf"] > 1:
            L += ["  timeStepFactor %d" % x["tsf"]]
        if x.get("scripted"):
            L += ["  scriptedFunction vsum"]
        for i, co in enumerate(x["coeff"]):
            atom += 1
            L += ["  distanceZ {", "    name c%d" % i, "    componentCoeff %d" % co] + (["    componentExp %d" % x["exp"][i]] if x.get("exp") and x["exp"][i] != 1 else []) + [
                  "    main { atomNumbers %d }" % atom, "    ref { dummyAtom (0,0,0) }", "    axis (0,0,1)", "  }"]
        L += ["}"]
    for b, x in enumerate(c["biases"]):
        L += ["harmonic {", "  name b%d" % b, "  colvars " + " ".join("v%d" % v for v in x["vars"]),
              "  centers " + " ".join(str(q) for q in x["centers"]), "  forceConstant %d" % x["k"]]
        if x["tsf"] > 1:
            L += ["  timeStepFactor %d" % x["tsf"]]
        L += ["}"]
    if c["use_script"]:
        L += ["scriptedColvarForces on"]
        if c["after"]:
            L += ["scriptingAfterBiases on"]
    return L


def tcase_scenario(c, smp):
    """smp: 'serial' | 'perm' | 'omp'"""
    natoms = sum(len(x["coeff"]) for x in c["vars"])
    L = ["natoms %d" % natoms]
    if c["use_script"]:
        L += ["forcescript " + " ".join("v%d %d" % (v, f) for v, f in c["script"])]
    key = ["smp %s" % c["smpkey"]] if (smp == "omp" and c.get("smpkey")) else []     # the library's mode keyword (cvcs | inner_loop | off)
    L += ["smp %s 1" % smp, "new", "config EOF"] + key + tcase_config(c) + ["EOF", "show items 1 af 1"]
    for st in c["steps"]:
        for v, f in st["flags"]:
            L += ['scriptq cv colvar v%d cvcflags "%s"' % (v, " ".join(map(str, f)))]
        atom = 0
        for zs in st["z"]:
            for z in zs:
                atom += 1
                L += ["pos %d 0 0 %d" % (atom, z)]
        if smp == "perm":
            L += ["smp perm %d" % st["nt"], "perm " + " ".join(map(str, st["perm"])), "assign " + " ".join(map(str, st["assign"]))]
        L += ["step", "cvcvals"]
    L += ["endcase %d" % c["id"]]
    return L


def tcase_model_line(c, mode):
    P = ["CASE", mode, str(len(c["vars"]))]
    for x in c["vars"]:
        P += [str(x["tsf"]), str(len(x["coeff"]))] + [str(q) for q in x["coeff"]] + [str(q) for q in x.get("exp", [1] * len(x["coeff"]))] + ["1" if x.get("scripted") else "0"]
    P += [str(len(c["biases"]))]
    for x in c["biases"]:
        P += [str(x["tsf"]), str(len(x["vars"]))] + [str(v) for v in x["vars"]] + [str(x["k"])] + [str(q) for q in x["centers"]]
    P += ["1" if c["use_script"] else "0", "1" if c["after"] else "0", str(len(c["script"]))]
    for v, f in c["script"]:
        P += [str(v), str(f)]
    P += [str(len(c["steps"]))]
    for st in c["steps"]:
        P += [str(len(st["flags"]))]
        for v, f in st["flags"]:
            P += [str(v), str(len(f))] + [str(q) for q in f]
        for zs in st["z"]:
            P += [str(z) for z in zs]
        P += [str(len(st["perm"]))] + [str(q) for q in st["perm"]]
    return " ".join(P)


def split_cases(lines):
    """output of c12sim on a batch -> {id: [lines]}"""
    out, cur = {}, []
    for l in lines:
        if l.startswith("ENDCASE"):
            w = l.split()
            out[int(w[1]) if len(w) > 1 else len(out)] = cur
            cur = []
        else:
            cur.append(l)
    if cur:
        out[-1] = cur
    return out


def parse_steps(lines):
    """-> (config lines, [step dict])"""
    cfg, steps, cur = [], [], None
    for l in lines:
        w = l.split()
        if not w:
            continue
        if w[0] == "CONFIG":
            cfg.append(l)
        elif w[0] == "STEP":
            cur = {"it": int(w[1]), "err": w[2].split("=")[1] if len(w) > 2 else "ok", "cv": {}, "af": {}, "bias": {},
                   "cvc": {}, "atomf": {}, "items": None, "bitems": None, "energy": None}
            steps.append(cur)
        elif cur is None:
            continue
        elif w[0] == "ENERGY":
            cur["energy"] = float.fromhex(w[1])
        elif w[0] == "ITEMS":
            cur["items"] = w[1:]
        elif w[0] == "BITEMS":
            cur["bitems"] = w[1:]
        elif w[0] == "ITHREADS":
            cur["ithreads"] = [int(t) for t in w[1:]]
        elif w[0] == "CV":
            cur["cv"][w[1]] = [float.fromhex(t) for t in w[2:]]
        elif w[0] == "AF":
            cur["af"][w[1]] = [float.fromhex(t) for t in w[2:]]
        elif w[0] == "BIAS":
            cur["bias"][w[1]] = float.fromhex(w[2])
        elif w[0] == "CVC":
            cur["cvc"][(w[1], int(w[2]))] = (int(w[3]), [float.fromhex(t) for t in w[4:]])
        elif w[0] == "ATOMF":
            cur["atomf"][int(w[1])] = [float.fromhex(t) for t in w[2:]]
    return cfg, steps


def parse_model(line):
    steps = []
    for part in line.split(" ; "):
        part = part.strip()
        if not part:
            continue
        d = {}
        for tok in part.split():
            k, _, v = tok.partition("=")
            d[k] = v
        steps.append(d)
    return steps


def impl_canonical(c, st, t):
    """the implementation's step output in the model's vocabulary"""
    d = {"t": str(t), "err": "0" if st["err"] == "ok" else "1"}
    d["ITEMS"] = ",".join("%s:%s" % (x.split(":")[0][1:], x.split(":")[1]) for x in (st["items"] or []))
    d["BITEMS"] = ",".join("s" if x == "<script>" else x[1:] for x in (st["bitems"] or []))
    if d["err"] == "1":
        d["XERR"] = "".join(fmt_num(st["cv"].get("v%d" % v, [float("nan")])[0]) + "," for v in range(len(c["vars"])))
        return d
    z = c["steps"][t]["z"]
    ev, cvc = [], []
    for v, x in enumerate(c["vars"]):
        for i in range(len(x["coeff"])):
            en, val = st["cvc"].get(("v%d" % v, i), (None, [float("nan")]))
            cvc.append("%d:%d:%s:%s" % (v, i, en, fmt_num(val[0])))
            if val[0] == float(z[v][i]):
                ev.append("%d:%d" % (v, i))
    d["EV"] = ",".join(ev)
    d["CVC"] = "".join(s + "," for s in cvc)
    d["X"] = "".join(fmt_num(st["cv"].get("v%d" % v, [float("nan")])[0]) + "," for v in range(len(c["vars"])))
    d["F"] = "".join(fmt_num(st["af"].get("v%d" % v, [float("nan")])[0]) + "," for v in range(len(c["vars"])))
    d["BE"] = "".join(fmt_num(2 * st["bias"].get("b%d" % b, float("nan"))) + "," for b in range(len(c["biases"])))
    d["EN"] = fmt_num(2 * (st["energy"] if st["energy"] is not None else float("nan")))
    return d


def fmt_num(x):
    if x != x or x in (float("inf"), float("-inf")):
        return "nan"
    return str(int(x)) if float(x).is_integer() else repr(x)


def disabled_before_enabled(c, upto):
    """does some variable have, at some step <= upto, a disabled component before an enabled one?"""
    flags = [[1] * len(x["coeff"]) for x in c["vars"]]
    pend = [None] * len(c["vars"])
    for t, st in enumerate(c["steps"][:upto + 1]):
        for v, f in st["flags"]:
            if len(f) == len(flags[v]):
                pend[v] = f
        for v, x in enumerate(c["vars"]):
            if x["tsf"] <= 1 or t % x["tsf"] == 0:
                if pend[v] is not None:
                    flags[v] = pend[v]
                    if any(pend[v]):
                        pend[v] = None
        for f in flags:
            if 0 in f and any(q == 1 for q in f[f.index(0):]):
                return True
    return False


def strip_items(lines):
    return [l for l in lines if not (l.startswith("ITEMS") or l.startswith("BITEMS") or l.startswith("ITHREADS"))]


def first_diff(a, b):
    for i, (x, y) in enumerate(zip(a, b)):
        if x != y:
            return i, x, y
    if len(a) != len(b):
        i = min(len(a), len(b))
        return i, (a[i] if i < len(a) else "<end>"), (b[i] if i < len(b) else "<end>")
    return None


def step_of_line(lines, idx):
    n = -1
    for l in lines[:idx + 1]:
        if l.startswith("STEP"):
            n += 1
    return n


def run_batch(exe, scen_lines, cwd, env=None, timeout=900):
    rc, out, err = V.run_lines(exe, scen_lines, timeout=timeout, cwd=cwd, env=env)
    return rc, out, err


def tie_part(run, r, model, sim, cases, d):
    """model tie + serial-vs-schedule oracle on the T cases"""
    scen_smp, scen_ser = [], []
    for c in cases:
        scen_smp += tcase_scenario(c, c["smp"])
        scen_ser += tcase_scenario(c, "serial")
    nto = r.choice([2, 3, 4])
    env = {"OMP_NUM_THREADS": str(nto), "OMP_DYNAMIC": "false"}
    rc1, o1, e1 = run_batch(sim, scen_smp, d, env)
    rc2, o2, e2 = run_batch(sim, scen_ser, d, env)
    by_smp, by_ser = split_cases(o1), split_cases(o2)
    mlines = [tcase_model_line(c, "smp") for c in cases] + [tcase_model_line(c, "serial") for c in cases]
    rcm, mout, em = V.run_lines(model, mlines)
    n = len(cases)
    # the model's OpenMP static schedule for every item count that can occur
    rco, oout, eo = V.run_lines(model, ["OMPSTATIC %d %d" % (k, nto) for k in range(NPERM + 1)])
    omp_model = {k: [int(t) for t in l.split()[1:]] for k, l in enumerate(oout)}
    for k, c in enumerate(cases):
        key = json.dumps({q: c[q] for q in ("vars", "biases", "use_script", "after", "script")}, sort_keys=True) + str(len(c["steps"]))
        ls, lser = by_smp.get(c["id"]), by_ser.get(c["id"])
        rep = {"kind": "tcase", "case": c}
        if ls is None or lser is None:
            run.violation("harness:incomplete", "scenario %d did not run to completion under %s (rc=%d/%d): %s" % (
                c["id"], c["smp"] if ls is None else "serial", rc1, rc2, (e1 if ls is None else e2)[-300:]), rep)
            continue
        cb = [l for l in ls if l.startswith("CBVIOL")]
        if cb:
            run.violation("callback:off-main-thread",
                          "a script callback of the engine's single interpreter was entered off the main thread or inside a parallel loop under schedule %s: %s; config:\n%s" % (
                              c["smp"], cb[0], "\n".join(tcase_config(c))), rep)
            continue
        cfg, isteps = parse_steps(ls)
        cfg2, ssteps = parse_steps(lser)
        if not cfg or any("err=ok" not in l for l in cfg):
            run.mismatch("config", {"case": c}, cfg[:2], "accepted")
            continue
        nflag = sum(len(st["flags"]) for st in c["steps"])
        run.count(key, nontrivial=(len(c["vars"]) >= 2 or nflag > 0) and len(c["biases"]) > 0)
        run.dist("T:smp=%s" % c["smp"])
        run.dist("T:vars=%d" % len(c["vars"]))
        run.dist("T:cvcflags commands", nflag)
        run.dist("T:scripted-force task", 1 if c["use_script"] else 0)
        run.dist("T:mts objects", sum(1 for x in c["vars"] + c["biases"] if x["tsf"] > 1))
        # --- property oracle on the implementation alone: schedule vs serial, bit for bit
        a, b = strip_items(ls), strip_items(lser)
        # after an error the two paths legitimately differ (the serial path returns early): compare up to and
        # including the error class of the failing step
        nerr = None
        for t, st in enumerate(ssteps):
            if st["err"] != "ok":
                nerr = t
                break
        if nerr is not None:
            run.dist("T:error step (all components disabled)")
            ok = len(isteps) > nerr and isteps[nerr]["err"] == ssteps[nerr]["err"]
            if not ok:
                run.violation("smp-vs-serial:error-class", "step %d reports err=%s serially and err=%s under schedule %s" % (
                    nerr, ssteps[nerr]["err"], isteps[nerr]["err"] if len(isteps) > nerr else "<none>", c["smp"]), rep)
            cva = [isteps[nerr]["cv"].get("v%d" % v) for v in range(len(c["vars"]))] if len(isteps) > nerr else None
            cvb = [ssteps[nerr]["cv"].get("v%d" % v) for v in range(len(c["vars"]))]
            if ok and cva != cvb:
                run.violation("error-step:serial-returns-early",
                              "step %d raises `all CVCs are disabled`; afterwards the variables hold %s under schedule %s but %s under smp serial (the serial path returns at the failing variable, the SMP path finishes the step); config:\n%s" % (
                                  nerr, cva, c["smp"], cvb, "\n".join(tcase_config(c))), rep)
            cut = lambda L: L[:[i for i, l in enumerate(L) if l.startswith("STEP")][nerr]]
            a, b = cut(a), cut(b)
        df = first_diff(a, b)
        if df:
            t = step_of_line(a, df[0])
            cls = "disabled-component-before-enabled" if disabled_before_enabled(c, max(t, 0)) else "general"
            run.violation("smp-vs-serial:" + cls,
                          "step %d: `%s` under schedule %s (threads %s, perm %s) but `%s` under smp serial; config:\n%s" % (
                              t, df[1], c["smp"], c["steps"][max(t, 0)]["nt"], c["steps"][max(t, 0)]["perm"][:8], df[2],
                              "\n".join(tcase_config(c))), rep)
        # --- mode keyword and distribution of the items over the OpenMP threads
        if c["smp"] == "omp":
            serial_mode = c.get("smpkey") in ("off", "inner_loop")
            run.dist("T:library mode keyword smp %s" % (c.get("smpkey") or "(default)"))
            for t, st in enumerate(isteps):
                if st["err"] != "ok":
                    break
                if serial_mode:
                    if st["items"] is not None or st["bitems"] is not None:
                        run.violation("mode:parallel-loop-in-serial-mode", "configuration keyword `smp %s` but the module ran a parallel loop at step %d (ITEMS %s, BITEMS %s)" % (
                            c["smpkey"], t, st["items"], st["bitems"]), rep)
                        break
                elif st["items"]:
                    got = st.get("ithreads")
                    want = omp_model.get(len(st["items"]))
                    run.dist("T:OpenMP item distributions compared")
                    if got != want:
                        run.mismatch("omp-distribution:smp-vs-serial", {"case": c, "step": t, "threads": nto, "items": len(st["items"])}, got, want)
                        break
        # --- tie: implementation (under the schedule) vs model, and serial implementation vs serial model
        lib_serial = c["smp"] == "omp" and c.get("smpkey") in ("off", "inner_loop")     # the library itself takes the serial path
        for which, steps_i, mo in (("smp", isteps, mout[n + k if lib_serial else k] if (n + k if lib_serial else k) < len(mout) else ""),
                                   ("serial", ssteps, mout[n + k] if n + k < len(mout) else "")):
            ms = parse_model(mo)
            for t in range(len(c["steps"])):
                if t >= len(ms):
                    break
                if t >= len(steps_i):
                    run.mismatch("steps", {"case": c, "which": which}, "%d steps" % len(steps_i), "%d steps" % len(ms))
                    break
                ic = impl_canonical(c, steps_i[t], t)
                mc = ms[t]
                if which == "serial" or (c["smp"] == "omp" and c.get("smpkey") in ("off", "inner_loop")):
                    ic.pop("ITEMS", None); ic.pop("BITEMS", None); mc = dict(mc); mc.pop("ITEMS", None); mc.pop("BITEMS", None)
                if ic.get("err") == "1" or mc.get("err") == "1":
                    if ic.get("err") != mc.get("err"):
                        run.mismatch("error-class", {"case": c, "which": which, "step": t}, ic, mc)
                    elif ic.get("XERR") != mc.get("XERR"):
                        # variable values right after the failing step (serial: early return; SMP: the step is finished)
                        run.mismatch("error-step", {"case": c, "which": which, "step": t}, ic.get("XERR"), mc.get("XERR"))
                    break
                if mc.get("SS") == "BAD":
                    run.mismatch("small-step-model", {"case": c, "step": t}, "atomic serial execution", "interleaved read/write-phase trace differs")
                mc = {q: x for q, x in mc.items() if q != "SS"}
                bad = [q for q in mc if ic.get(q) != mc[q]]
                if bad:
                    comp = "items:smp-vs-serial" if "ITEMS" in bad or "BITEMS" in bad else ("evaluated:smp-vs-serial" if "EV" in bad or "CVC" in bad else "values:smp-vs-serial")
                    run.mismatch(comp, {"case": c, "which": which, "step": t, "fields": bad},
                                 {q: ic.get(q) for q in bad}, {q: mc[q] for q in bad})
                    break
        if k < 2:
            run.sample({"config": tcase_config(c), "first_step": c["steps"][0], "impl_first": ls[:14], "model": (mout[k] if k < len(mout) else "")[:400]})


# ------------------------------------------------------------------------------------------------
# R cases: richer configurations outside the model (implementation-only oracle)
# ------------------------------------------------------------------------------------------------
def grp(atoms):
    return "atomNumbers " + " ".join(str(a) for a in atoms)


def gen_rcase(r, k):
    natoms = 12
    pos = []
    for a in range(natoms):
        pos.append([V.dyadic(r, -6, 6, bits=4) + (a % 4) * 3.0, V.dyadic(r, -6, 6, bits=4) + (a // 4) * 2.5, V.dyadic(r, -6, 6, bits=4)])
    atoms = list(range(1, natoms + 1))
    nv = r.randint(2, 4)
    vars_ = []
    scalar = []
    for v in range(nv):
        kind = r.choice(["distance", "distance2c", "angle", "dihedral", "gyration", "coordnum", "rmsd", "dist3c", "distancevec", "distz", "extended", "extended2c", "scriptsum", "scriptdbl", "scriptsum"])
        a = r.sample(atoms, 8)
        L = ["colvar {", "  name v%d" % v, "  width 0.5"]
        is_scalar = True
        ncomp = 1
        dbg = ["    debugGradients on"] if r.random() < 0.3 else []     # components that log while they are evaluated
        if kind == "distance":
            L += ["  distance {"] + dbg + ["    group1 { %s }" % grp(a[:2]), "    group2 { %s }" % grp(a[2:4]), "  }"]
        elif kind in ("distance2c", "dist3c"):
            ncomp = 2 if kind == "distance2c" else 3
            for i in range(ncomp):
                L += ["  distance {"] + dbg + ["    name d%d" % i, "    componentCoeff %s" % r.choice(["1.0", "0.5", "-1.0", "2.0"]),
                      "    group1 { %s }" % grp(a[2 * i:2 * i + 1]), "    group2 { %s }" % grp(a[2 * i + 1:2 * i + 2]), "  }"]
        elif kind == "angle":
            L += ["  angle {", "    group1 { %s }" % grp(a[:1]), "    group2 { %s }" % grp(a[1:3]), "    group3 { %s }" % grp(a[3:4]), "  }"]
        elif kind == "dihedral":
            L += ["  dihedral {", "    group1 { %s }" % grp(a[:1]), "    group2 { %s }" % grp(a[1:2]), "    group3 { %s }" % grp(a[2:3]),
                  "    group4 { %s }" % grp(a[3:4]), "  }"]
        elif kind == "gyration":
            L += ["  gyration {", "    atoms { %s }" % grp(a[:5]), "  }"]
        elif kind == "coordnum":
            L += ["  coordNum {", "    cutoff 4.0", "    group1 { %s }" % grp(a[:3]), "    group2 { %s }" % grp(a[3:6]), "  }"]
        elif kind == "rmsd":
            sel = sorted(a[:4])
            ref = " ".join("(%r, %r, %r)" % (V.dyadic(r, -4, 4, bits=3), V.dyadic(r, -4, 4, bits=3), V.dyadic(r, -4, 4, bits=3)) for _ in sel)
            L += ["  rmsd {", "    atoms { %s }" % grp(sel), "    refPositions %s" % ref, "  }"]
        elif kind == "distancevec":
            is_scalar = False
            L += ["  distanceVec {", "    group1 { %s }" % grp(a[:2]), "    group2 { %s }" % grp(a[2:3]), "  }"]
        elif kind == "distz":
            L += ["  distanceZ {", "    main { %s }" % grp(a[:2]), "    ref { %s }" % grp(a[2:4]), "    axis (1, 0.5, -0.25)", "  }"]
        elif kind == "extended":
            L[2:2] = ["  extendedLagrangian on", "  extendedFluctuation 0.25", "  extendedTimeConstant 20.0"]
            L += ["  distance {", "    group1 { %s }" % grp(a[:1]), "    group2 { %s }" % grp(a[1:2]), "  }"]
        elif kind in ("scriptsum", "scriptdbl"):
            # scripted variables: the engine's ONE script interpreter combines the components (serial collection, main thread)
            ncomp = 2
            L[2:2] = ["  scriptedFunction %s" % ("vsum" if kind == "scriptsum" else "vdbl")]
            for i in range(2):
                L += ["  distance {", "    name d%d" % i, "    group1 { %s }" % grp(a[2 * i:2 * i + 1]), "    group2 { %s }" % grp(a[2 * i + 1:2 * i + 2]), "  }"]
        elif kind == "extended2c":
            ncomp = 2
            L[2:2] = ["  extendedLagrangian on", "  extendedFluctuation 0.25", "  extendedTimeConstant 20.0", "  outputVelocity on"]
            for i in range(2):
                L += ["  distance {", "    name d%d" % i, "    group1 { %s }" % grp(a[2 * i:2 * i + 1]), "    group2 { %s }" % grp(a[2 * i + 1:2 * i + 2]), "  }"]
        if r.random() < 0.2 and kind not in ("extended", "extended2c"):
            L.insert(2, "  timeStepFactor 2")
            tsf = 2
        else:
            tsf = 1
        if is_scalar and kind not in ("dihedral",):
            L.insert(2, "  lowerBoundary 0.0")
            L.insert(3, "  upperBoundary 16.0")
        L += ["}"]
        vars_.append({"kind": kind, "lines": L, "scalar": is_scalar, "ncomp": ncomp, "tsf": tsf})
        if is_scalar and kind != "dihedral" and tsf == 1 and kind not in ("extended", "extended2c"):
            scalar.append(v)
    biases = []
    nb = r.randint(1, 4)
    for b in range(nb):
        cand = ["harmonic", "harmonic", "walls", "linear", "meta", "meta", "histogram", "abf", "abf", "metarep", "opes", "opes", "abmd", "alb"]
        kind = r.choice(cand)
        if kind in ("walls", "linear", "meta", "histogram", "abf", "metarep", "opes", "abmd", "alb") and not scalar:
            kind = "harmonic"
        abf_ok = [v for v in scalar if vars_[v]["kind"] in ("distance", "distz", "gyration", "angle")]   # total force available
        if kind == "abf" and not abf_ok:
            kind = "harmonic"
        if kind == "harmonic":
            v = r.randrange(nv)
            x = vars_[v]
            c = "(1.0, 0.5, -0.5)" if x["kind"] == "distancevec" else "%r" % V.dyadic(r, 0, 6, bits=2)
            L = ["harmonic {", "  name b%d" % b, "  colvars v%d" % v, "  centers %s" % c, "  forceConstant %r" % V.dyadic(r, 0.5, 4, bits=2)]
            if x["tsf"] > 1:
                L += ["  timeStepFactor %d" % x["tsf"]]
            elif r.random() < 0.2:
                L += ["  targetCenters %s" % ("(2.0, 0.5, -0.5)" if x["kind"] == "distancevec" else "%r" % V.dyadic(r, 0, 6, bits=2)), "  targetNumSteps 8", "  outputAccumulatedWork on"]
            L += ["}"]
        elif kind == "walls":
            v = r.choice(scalar)
            L = ["harmonicWalls {", "  name b%d" % b, "  colvars v%d" % v, "  lowerWalls 2.0", "  upperWalls 5.0", "  forceConstant 2.0", "}"]
        elif kind == "linear":
            v = r.choice(scalar)
            L = ["linear {", "  name b%d" % b, "  colvars v%d" % v, "  centers 1.0", "  forceConstant 0.5", "}"]
        elif kind == "meta":
            vs = r.sample(scalar, min(len(scalar), r.choice([1, 1, 2])))
            grids = r.choice(["on", "off"])
            L = ["metadynamics {", "  name b%d" % b, "  colvars " + " ".join("v%d" % v for v in vs), "  hillWeight 0.25", "  hillWidth 2.0",
                 "  newHillFrequency %d" % r.choice([1, 2, 3]), "  useGrids %s" % grids]
            if grids == "on" and r.random() < 0.4:
                L += ["  keepHills on"]
            L += ["}"]
        elif kind == "metarep":
            # a bias that shares data with replicas (through files): the module must then run the bias loop on the main thread
            v = r.choice(scalar)
            L = ["metadynamics {", "  name b%d" % b, "  colvars v%d" % v, "  hillWeight 0.25", "  hillWidth 2.0", "  newHillFrequency 2",
                 "  multipleReplicas on", "  replicaID rep1", "  replicasRegistry @TAG@.registry.txt", "  replicaUpdateFrequency 2", "}"]
        elif kind == "histogram":
            vs = r.sample(scalar, min(len(scalar), r.choice([1, 2])))
            L = ["histogram {", "  name b%d" % b, "  colvars " + " ".join("v%d" % v for v in vs), "}"]
        elif kind == "opes":
            v = r.choice(scalar)
            L = ["opes_metad {", "  name b%d" % b, "  colvars v%d" % v, "  newHillFrequency %d" % r.choice([1, 2]), "  barrier 10.0", "  gaussianSigma 0.3", "}"]
        elif kind == "abmd":
            v = r.choice(scalar)
            L = ["abmd {", "  name b%d" % b, "  colvars v%d" % v, "  forceConstant 1.5", "  stoppingValue 9.0", "}"]
        elif kind == "alb":
            v = r.choice(scalar)
            L = ["alb {", "  name b%d" % b, "  colvars v%d" % v, "  centers 3.0", "  updateFrequency 4", "}"]
        else:
            v = r.choice(abf_ok)
            L = ["abf {", "  name b%d" % b, "  colvars v%d" % v, "  fullSamples 2", "  historyFreq 0", "}"]
        biases.append({"kind": kind, "lines": L})
    use_script = bool(scalar) and r.random() < 0.3
    script = []
    if use_script:
        # the script may add a force only to a variable that some bias already drives (apply_force enabled)
        driven = [v for v in scalar if any(("colvars" in l and (" v%d" % v) in l + " ") for b in biases for l in b["lines"])]
        if driven:
            script = [(r.choice(driven), V.dyadic(r, -2, 2, bits=2))]
        else:
            use_script = False
    nsteps = r.randint(4, 9)
    steps = []
    p = [list(q) for q in pos]
    multi = [v for v in range(nv) if vars_[v]["ncomp"] >= 2]
    for t in range(nsteps):
        for a in range(natoms):
            for q in range(3):
                p[a][q] += V.dyadic(r, -0.25, 0.25, bits=6)
        fs = []
        if multi and r.random() < 0.4:
            v = r.choice(multi)
            nc = vars_[v]["ncomp"]
            f = [0] + [r.randint(0, 1) for _ in range(nc - 2)] + [1] if r.random() < 0.5 else [r.randint(0, 1) for _ in range(nc)]
            if not any(f):
                f[-1] = 1
            fs.append((v, f))
        perm = list(range(NPERM))
        r.shuffle(perm)
        nt = r.choice([1, 2, 2, 3, 4, 8])
        ef = [[V.dyadic(r, -2, 2, bits=3) for _ in range(3)] for _ in range(natoms)]
        steps.append({"pos": [list(q) for q in p], "eforce": ef, "flags": fs, "perm": perm, "nt": nt,
                      "assign": [r.randrange(nt) for _ in range(NPERM)] if r.random() < 0.5 else []})
    # atomic gradients collected inside the variable (colvar::collect_cvc_gradients), switched on by script for a plain scalar variable
    cg = r.choice(scalar) if (scalar and r.random() < 0.3) else None
    rf = r.choice([0, 0, 2, 3])
    if rf:
        for b in biases:
            if b["kind"] in ("meta", "abf", "histogram") and r.random() < 0.6:
                b["lines"].insert(2, "  outputFreq %d" % rf)
    return {"id": k, "natoms": natoms, "restartfreq": rf, "collect_gradient": cg, "vars": vars_, "biases": biases, "use_script": use_script, "script": script, "steps": steps,
            "smp": r.choice(["perm", "perm", "perm", "omp"]), "binary": r.random() < 0.3}


def rcase_config(c):
    L = []
    for x in c["vars"]:
        L += x["lines"]
    for x in c["biases"]:
        L += x["lines"]
    if c["use_script"]:
        L += ["scriptedColvarForces on"]
    return L


def rcase_scenario(c, smp, tag):
    L = ["natoms %d" % c["natoms"], "temperature 300", "dt 1", "gauss 0.25 -0.5 0.125 1.0 -0.75"]
    L += ["forcescript " + " ".join("v%d %s" % (v, V.hexf(f)) for v, f in c["script"])] if c["use_script"] else ["forcescript"]
    # periodic restart / output files written from inside calc() (colvarsRestartFrequency of the engine; outputFreq of the biases)
    L += ["restartfreq %d" % c.get("restartfreq", 0)]
    L += ["prefix %s" % tag, "smp %s 1" % smp, "new", "log %s.log" % tag, "config EOF"] + [l.replace("@TAG@", tag) for l in rcase_config(c)] + ["EOF", "setupoutput", "show items 1 af 1 tf 1"] + \
         (['scriptq cv colvar v%d set collect_gradient on' % c["collect_gradient"]] if c.get("collect_gradient") is not None else [])
    for st in c["steps"]:
        for v, f in st["flags"]:
            L += ['scriptq cv colvar v%d cvcflags "%s"' % (v, " ".join(map(str, f)))]
        for a, q in enumerate(st["pos"]):
            L += ["pos %d %s %s %s" % (a + 1, V.hexf(q[0]), V.hexf(q[1]), V.hexf(q[2]))]
        for a, q in enumerate(st["eforce"]):
            L += ["eforce %d %s %s %s" % (a + 1, V.hexf(q[0]), V.hexf(q[1]), V.hexf(q[2]))]
        if smp == "perm":
            L += ["smp perm %d" % st["nt"], "perm " + " ".join(map(str, st["perm"])), "assign " + " ".join(map(str, st["assign"]))]
        L += ["step", "cvcvals"]
    L += ["save %s %s.state" % ("binary" if c["binary"] else "text", tag), "postrun", "endcase %d" % c["id"]]
    return L


def read_files(d, tag):
    out = {}
    for f in sorted(os.listdir(d)):
        if f.startswith(tag + "."):
            try:
                out[f[len(tag):]] = open(os.path.join(d, f), "rb").read()
            except OSError:
                pass
    return out


def rich_part(run, r, sim, cases, d, env=None):
    envs = dict(env or {})
    envs.setdefault("OMP_NUM_THREADS", str(r.choice([2, 3, 4])))
    for c in cases:
        ta, tb = "A%d" % c["id"], "B%d" % c["id"]
        if any(x["kind"] == "metarep" for x in c["biases"]):
            for tg in (ta, tb):
                open(os.path.join(d, tg + ".registry.txt"), "w").close()    # the (empty) shared registry of the replicas
        rc1, o1, e1 = run_batch(sim, rcase_scenario(c, c["smp"], ta), d, envs, timeout=300)
        rc2, o2, e2 = run_batch(sim, rcase_scenario(c, "serial", tb), d, envs, timeout=300)
        rep = {"kind": "rcase", "case": c}
        run.dist("R:smp=%s" % c["smp"])
        for x in c["vars"]:
            run.dist("R:var " + x["kind"])
        for x in c["biases"]:
            run.dist("R:bias " + x["kind"])
        cfg = [l for l in o2 if l.startswith("CONFIG")]
        if not cfg or "err=ok" not in cfg[0]:
            run.dist("R:config rejected (skipped)")
            continue
        if "ENDCASE %d" % c["id"] not in o1 or "ENDCASE %d" % c["id"] not in o2:
            run.violation("harness:incomplete", "rich scenario %d did not run to completion (rc=%d/%d): %s" % (c["id"], rc1, rc2, (e1 + e2)[-300:]), rep)
            continue
        if any("err=" in l and "err=ok" not in l for l in o2 if l.startswith("STEP")):
            run.dist("R:error step in the serial run (skipped)")
            continue
        key = json.dumps(rcase_config(c))
        run.count(key, nontrivial=len(c["biases"]) >= 2 or any(x["ncomp"] >= 2 for x in c["vars"]))
        cb = [l for l in o1 if l.startswith("CBVIOL")]
        if cb:
            run.violation("callback:off-main-thread",
                          "a script callback of the engine's single interpreter was entered off the main thread or inside a parallel loop under schedule %s (threads %s): %s "
                          "(the mechanism is: parallel component loop, then SERIAL collection on the main thread); config:\n%s" % (
                              c["smp"], c["steps"][0]["nt"], cb[0], "\n".join(rcase_config(c))), rep)
            continue
        if any(x["kind"] == "metarep" for x in c["biases"]):
            run.dist("R:replica-sharing bias (bias loop must stay on the main thread)")
            if any(l.startswith("BITEMS") for l in o1):
                run.violation("replica-sharing:parallel-bias-loop", "a bias with replicaUpdateFrequency > 0 is active but the module ran the parallel bias loop; config:\n%s" % "\n".join(rcase_config(c)), rep)
        df = first_diff(strip_items(o1), strip_items(o2))
        if df:
            t = step_of_line(strip_items(o1), df[0])
            cls = "disabled-component-before-enabled" if any(f and f[0] == 0 for st in c["steps"][:max(t, 0) + 1] for _, f in st["flags"]) else "general"
            run.violation("smp-vs-serial:" + cls, "rich scenario, step %d: `%s` under schedule %s (threads %s) but `%s` under smp serial; config:\n%s" % (
                t, df[1], c["smp"], c["steps"][max(t, 0)]["nt"], df[2], "\n".join(rcase_config(c))), rep)
            continue
        fa, fb = read_files(d, ta), read_files(d, tb)
        # the log: items running on different threads may interleave their messages (the property fixes the indentation,
        # not an order between concurrent items), so the MULTISET of log lines - text and indentation - must be that of the
        # serial run; every other file must be byte-identical
        la, lb = fa.pop(".log", b""), fb.pop(".log", b"")
        sa, sb = sorted(la.replace(ta.encode(), b"@").split(b"\n")), sorted(lb.replace(tb.encode(), b"@").split(b"\n"))
        run.dist("R:log lines compared", len(sa))
        if sa != sb:
            only = [x for x in sa if x not in sb][:2] + [x for x in sb if x not in sa][:2]
            run.violation("smp-vs-serial:log-lines", "rich scenario: the log written under schedule %s (threads %s) is not a rearrangement of the serial log (%d vs %d lines), e.g. %s; config:\n%s" % (
                c["smp"], c["steps"][0]["nt"], len(sa), len(sb), [x.decode("utf8", "replace")[:120] for x in only], "\n".join(rcase_config(c))), rep)
        fa = {k: v.replace(ta.encode(), b"@") for k, v in fa.items()}
        fb = {k: v.replace(tb.encode(), b"@") for k, v in fb.items()}
        for suffix in sorted(set(fa) | set(fb)):
            if fa.get(suffix) != fb.get(suffix):
                run.violation("smp-vs-serial:files", "rich scenario: file *%s written under schedule %s differs from the one written under smp serial (accumulated data / output); config:\n%s" % (
                    suffix, c["smp"], "\n".join(rcase_config(c))), rep)
                break
        run.dist("R:files compared", len(fa))
        for tag in (ta, tb):
            for f in os.listdir(d):
                if f.startswith(tag + "."):
                    os.remove(os.path.join(d, f))
    if cases:
        run.sample({"rich_config": rcase_config(cases[0]), "schedule_first_step": {q: cases[0]["steps"][0][q] for q in ("perm", "nt", "assign")}})


# ------------------------------------------------------------------------------------------------
# P cases: EVERY bias kind paired with a second force-applying bias whose energy changes from step to step, on the same
# variable (an item of the bias loop that reads what another item writes in the same loop shows up only then), and the
# order differential: the same history with one bias FIRST vs LAST in the executed order of every step.
# ------------------------------------------------------------------------------------------------
PAIR_KINDS = {
    "opes": ["opes_metad {", "  name bK", "  colvars v0", "  newHillFrequency 2", "  barrier 10.0", "  gaussianSigma 0.3", "}"],
    "opes2": ["opes_metad {", "  name bK", "  colvars v0 v1", "  newHillFrequency 1", "  barrier 8.0", "  gaussianSigma 0.3 0.4", "}"],
    "meta": ["metadynamics {", "  name bK", "  colvars v0", "  hillWeight 0.25", "  hillWidth 2.0", "  newHillFrequency 2", "  useGrids off", "}"],
    "metagrid": ["metadynamics {", "  name bK", "  colvars v0", "  hillWeight 0.25", "  hillWidth 2.0", "  newHillFrequency 2", "  useGrids on", "}"],
    "metawt": ["metadynamics {", "  name bK", "  colvars v0", "  hillWeight 0.25", "  hillWidth 2.0", "  newHillFrequency 2", "  wellTempered on", "  biasTemperature 1500", "}"],
    "abf": ["abf {", "  name bK", "  colvars v0", "  fullSamples 2", "  historyFreq 0", "}"],
    "abmd": ["abmd {", "  name bK", "  colvars v0", "  forceConstant 1.5", "  stoppingValue 9.0", "}"],
    "alb": ["alb {", "  name bK", "  colvars v0", "  centers 3.0", "  updateFrequency 4", "}"],
    "histogram": ["histogram {", "  name bK", "  colvars v0", "}"],
    "walls": ["harmonicWalls {", "  name bK", "  colvars v0", "  lowerWalls 2.0", "  upperWalls 5.0", "  forceConstant 2.0", "}"],
    "linear": ["linear {", "  name bK", "  colvars v0", "  centers 1.0", "  forceConstant 0.5", "}"],
    "moving": ["harmonic {", "  name bK", "  colvars v0", "  centers 2.0", "  targetCenters 5.0", "  targetNumSteps 8", "  forceConstant 1.0", "  outputAccumulatedWork on", "}"],
}


def gen_pair_case(r, k, kind):
    natoms = 8
    pos = [[V.dyadic(r, -1, 1, bits=4) + 2.0 * (a % 4), V.dyadic(r, -1, 1, bits=4) + 1.5 * (a // 4), V.dyadic(r, -1, 1, bits=4)] for a in range(natoms)]
    vars_ = []
    for v in range(2):
        L = ["colvar {", "  name v%d" % v, "  lowerBoundary 0.0", "  upperBoundary 16.0", "  width 0.5", "  distance {",
             "    group1 { atomNumbers %d %d }" % (4 * v + 1, 4 * v + 2), "    group2 { atomNumbers %d %d }" % (4 * v + 3, 4 * v + 4), "  }", "}"]
        vars_.append({"kind": "distance", "lines": L, "scalar": True, "ncomp": 1, "tsf": 1})
    kb = {"kind": kind, "lines": PAIR_KINDS[kind]}
    hb = {"kind": "harmonic", "lines": ["harmonic {", "  name bH", "  colvars v0", "  centers %r" % V.dyadic(r, 1, 4, bits=2), "  forceConstant %r" % V.dyadic(r, 1, 4, bits=2), "}"]}
    biases = [kb, hb] if r.random() < 0.5 else [hb, kb]
    if r.random() < 0.4:
        biases.append({"kind": "harmonic", "lines": ["harmonic {", "  name bH2", "  colvars v1", "  centers 2.0", "  forceConstant 1.5", "}"]})
    steps = []
    p = [list(q) for q in pos]
    for t in range(r.randint(8, 11)):
        for a in range(natoms):
            for q in range(3):
                p[a][q] += V.dyadic(r, -0.5, 0.5, bits=6)
        perm = list(range(NPERM))
        r.shuffle(perm)
        nt = r.choice([1, 1, 2, 3])
        steps.append({"pos": [list(q) for q in p], "eforce": [[V.dyadic(r, -2, 2, bits=3) for _ in range(3)] for _ in range(natoms)], "flags": [],
                      "perm": perm, "nt": nt, "assign": []})
    return {"id": 5000 + k, "natoms": natoms, "restartfreq": 0, "collect_gradient": None, "vars": vars_, "biases": biases, "use_script": False, "script": [],
            "steps": steps, "smp": "perm", "binary": False, "pair_kind": kind}


def gen_script_case(r, k):
    """a plain variable followed by two or three scripted ones (vsum / vdbl), restraints on all: under any schedule the script
    callbacks must be entered on the main thread, outside the parallel loops, and the values must be those of the serial run"""
    c = gen_pair_case(r, k, "linear")
    natoms = 12
    pos = [[V.dyadic(r, -1, 1, bits=4) + 2.0 * (a % 4), V.dyadic(r, -1, 1, bits=4) + 1.5 * (a // 4), V.dyadic(r, -1, 1, bits=4)] for a in range(natoms)]
    vars_, biases = [], []
    nv = r.choice([3, 4])
    for v in range(nv):
        a = r.sample(range(1, natoms + 1), 4)
        L = ["colvar {", "  name v%d" % v, "  width 0.5"]
        if v > 0:
            L += ["  scriptedFunction %s" % ("vdbl" if v % 2 else "vsum")]
        for i in range(2 if v > 0 else 1):
            L += ["  distance {", "    name d%d" % i, "    group1 { atomNumbers %d }" % a[2 * i], "    group2 { atomNumbers %d }" % a[2 * i + 1], "  }"]
        L += ["}"]
        vars_.append({"kind": "scriptdbl" if (v > 0 and v % 2) else ("scriptsum" if v > 0 else "distance"), "lines": L, "scalar": True, "ncomp": 2 if v > 0 else 1, "tsf": 1})
        biases.append({"kind": "harmonic", "lines": ["harmonic {", "  name b%d" % v, "  colvars v%d" % v, "  centers %r" % V.dyadic(r, 1, 4, bits=2), "  forceConstant %r" % V.dyadic(r, 1, 3, bits=2), "}"]})
    steps = []
    p = [list(q) for q in pos]
    for t in range(5):
        for q in p:
            for j in range(3):
                q[j] += V.dyadic(r, -0.5, 0.5, bits=6)
        perm = list(range(NPERM))
        r.shuffle(perm)
        steps.append({"pos": [list(q) for q in p], "eforce": [[0.0, 0.0, 0.0] for _ in range(natoms)], "flags": [], "perm": perm, "nt": r.choice([2, 3, 4]), "assign": []})
    c.update({"id": 7000 + k, "natoms": natoms, "vars": vars_, "biases": biases, "steps": steps, "smp": "perm" if k % 2 == 0 else "omp", "pair_kind": "scripted"})
    return c


def order_differential(run, sim, cases, d):
    """For every bias A of a configuration: the same history with A FIRST and with A LAST in the executed order of every step
    (one thread).  Both are legal schedules of the bias loop; a difference means that an item of the loop reads what another item
    writes in the same loop.  Robust to private state of the biases (hills, kernels, samples): both runs are complete histories."""
    for c in cases:
        nb = len(c["biases"])
        for A in range(nb):
            outs = []
            for first in (True, False):
                others = [i for i in range(NPERM) if i != A]
                perm = ([A] + others) if first else ([i for i in others if i < nb] + [A] + [i for i in others if i >= nb])
                c2 = dict(c)
                c2["steps"] = [dict(st, perm=perm, nt=1, assign=[]) for st in c["steps"]]
                tag = "D%d" % c["id"]
                open(os.path.join(d, tag + ".registry.txt"), "w").close()
                rc, o, e = run_batch(sim, rcase_scenario(c2, "perm", tag), d, timeout=300)
                outs.append((strip_items(o), c2))
                for f in os.listdir(d):
                    if f.startswith(tag + "."):
                        os.remove(os.path.join(d, f))
            run.count("D%d:%d" % (c["id"], A), True)
            run.dist("D:first-vs-last pairs of runs")
            if not any(l.startswith("CONFIG err=ok") for l in outs[0][0]):
                run.dist("D:config rejected (skipped)")
                break
            df = first_diff(outs[0][0], outs[1][0])
            if df:
                # the bias whose own energy differs first is the one that reads the others
                reader = None
                for x, y in zip(outs[0][0], outs[1][0]):
                    if x != y and x.startswith("BIAS "):
                        reader = x.split()[1]
                        break
                names = [[l for l in b["lines"] if "name " in l][0].split()[-1] for b in c["biases"]]
                rk = c["biases"][names.index(reader)]["kind"] if reader in names else c["biases"][A]["kind"]
                run.violation("cross-item-read:bias-loop:" + rk,
                              "the same history with bias %s first and with it last in the executed order of the bias loop differs at step %d: `%s` vs `%s` "
                              "(first differing bias energy: %s): an item of the bias loop reads what another item writes in the same loop; config:\n%s" % (
                                  names[A], step_of_line(outs[0][0], df[0]), df[1][:120], df[2][:120], reader, "\n".join(rcase_config(c))),
                              {"kind": "rcase", "case": outs[1][1]})
                break


# ------------------------------------------------------------------------------------------------
# L cases: the library's own OpenMP modes.  Every SMP mode the build accepts (configuration keyword
# `smp off | cvcs | inner_loop`) x OMP_NUM_THREADS in {1,2,3,4,8} vs the serial single-thread run, on components
# with large atom groups and generic (non-dyadic) coordinates, so that the ORDER of every floating-point
# accumulation matters: values, energies, forces, state must be bit-identical.
# ------------------------------------------------------------------------------------------------
LMODES = ["off", "cvcs", "inner_loop"]
LTHREADS = [1, 2, 3, 4, 8]
LKINDS = ["rmsd", "rmsd", "gyration", "inertia", "inertiaz", "coordnum", "selfcoordnum", "eigenvector", "orientation", "orientationangle",
          "orientationproj", "tilt", "spinangle", "distancepairs", "distanceinv", "distance", "distancez", "distancexy", "angle", "dihedral",
          "cartesian", "gspath", "gzpath", "aspath", "azpath"]


def fpos(r, n, scale=6.0):
    return [[r.uniform(-scale, scale), r.uniform(-scale, scale), r.uniform(-scale, scale)] for _ in range(n)]


def plist(ps):
    return " ".join("(%r, %r, %r)" % (q[0], q[1], q[2]) for q in ps)


def gen_lcase(r, k, kinds=None):
    natoms = 40
    atoms = list(range(1, natoms + 1))
    pos = fpos(r, natoms)
    nv = r.randint(1, 3)
    vars_, files = [], {}
    for v in range(nv):
        kind = (kinds[v % len(kinds)] if kinds else r.choice(LKINDS))
        a = r.sample(atoms, 36)
        big = sorted(a[:r.randint(16, 24)])
        L = ["colvar {", "  name v%d" % v]
        bias = "scalar"
        if kind == "rmsd":
            L += ["  rmsd {", "    atoms { %s }" % grp(big), "    refPositions %s" % plist(fpos(r, len(big))), "  }"]
        elif kind == "gyration":
            L += ["  gyration {", "    atoms { %s }" % grp(big), "  }"]
        elif kind == "inertia":
            L += ["  inertia {", "    atoms { %s }" % grp(big), "  }"]
        elif kind == "inertiaz":
            L += ["  inertiaZ {", "    atoms { %s }" % grp(big), "    axis (0.3, -0.5, 1.0)", "  }"]
        elif kind == "coordnum":
            L += ["  coordNum {", "    cutoff 5.0", "    group1 { %s }" % grp(a[:12]), "    group2 { %s }" % grp(a[12:24]), "  }"]
        elif kind == "selfcoordnum":
            L += ["  selfCoordNum {", "    cutoff 5.0", "    group1 { %s }" % grp(a[:16]), "  }"]
        elif kind == "eigenvector":
            L += ["  eigenvector {", "    atoms { %s }" % grp(big), "    refPositions %s" % plist(fpos(r, len(big))),
                  "    vector %s" % plist(fpos(r, len(big), 1.0)), "  }"]
        elif kind in ("orientation", "orientationangle", "orientationproj", "tilt", "spinangle"):
            name = {"orientation": "orientation", "orientationangle": "orientationAngle", "orientationproj": "orientationProj",
                    "tilt": "tilt", "spinangle": "spinAngle"}[kind]
            sel = sorted(a[:12])
            # reference = the starting positions, slightly deformed: the optimal rotation stays well defined
            ref = [[pos[i - 1][q] + r.uniform(-0.5, 0.5) for q in range(3)] for i in sel]
            L += ["  %s {" % name, "    atoms { %s }" % grp(sel), "    refPositions %s" % plist(ref)]
            if kind in ("tilt", "spinangle"):
                L += ["    axis (0.2, 0.3, 1.0)"]
            L += ["  }"]
            if kind == "orientation":
                bias = "quaternion"
        elif kind == "distancepairs":
            L += ["  distancePairs {", "    group1 { %s }" % grp(a[:3]), "    group2 { %s }" % grp(a[3:7]), "  }"]
            bias = None
        elif kind == "distanceinv":
            L += ["  distanceInv {", "    group1 { %s }" % grp(a[:8]), "    group2 { %s }" % grp(a[8:16]), "  }"]
        elif kind == "distance":
            L += ["  distance {", "    group1 { %s }" % grp(a[:12]), "    group2 { %s }" % grp(a[12:24]), "  }"]
        elif kind == "distancez":
            L += ["  distanceZ {", "    main { %s }" % grp(a[:12]), "    ref { %s }" % grp(a[12:24]), "    axis (1, 0.5, -0.25)", "  }"]
        elif kind == "distancexy":
            L += ["  distanceXY {", "    main { %s }" % grp(a[:12]), "    ref { %s }" % grp(a[12:24]), "    axis (1, 0.5, -0.25)", "  }"]
        elif kind == "angle":
            L += ["  angle {", "    group1 { %s }" % grp(a[:8]), "    group2 { %s }" % grp(a[8:16]), "    group3 { %s }" % grp(a[16:24]), "  }"]
        elif kind == "dihedral":
            L += ["  dihedral {", "    group1 { %s }" % grp(a[:6]), "    group2 { %s }" % grp(a[6:12]), "    group3 { %s }" % grp(a[12:18]),
                  "    group4 { %s }" % grp(a[18:24]), "  }"]
        elif kind == "cartesian":
            L += ["  cartesian {", "    atoms { %s }" % grp(a[:6]), "  }"]
            bias = None
        elif kind in ("gspath", "gzpath", "aspath", "azpath"):
            sel = sorted(a[:12])
            L += ["  %s {" % kind, "    atoms { %s }" % grp(sel)]
            nfr = 4
            for f in range(nfr):
                fn = "L%d_v%d_f%d.xyz" % (k, v, f)
                frame = [[pos[i - 1][q] + 0.6 * (f - 1.3) + r.uniform(-0.3, 0.3) for q in range(3)] for i in sel]
                files[fn] = "%d\nframe\n" % len(sel) + "".join("C %r %r %r\n" % (q[0], q[1], q[2]) for q in frame)
                L += ["    refPositionsFile%d %s" % (f + 1, fn)]
            if kind in ("aspath", "azpath"):
                L += ["    lambda 0.05"]
            L += ["  }"]
        L += ["}"]
        vars_.append({"kind": kind, "lines": L, "bias": bias})
    biases = []
    for v, x in enumerate(vars_):
        if x["bias"] == "scalar":
            biases.append(["harmonic {", "  name b%d" % v, "  colvars v%d" % v, "  centers %r" % r.uniform(0.5, 3.0), "  forceConstant %r" % r.uniform(0.5, 3.0), "}"])
        elif x["bias"] == "quaternion":
            biases.append(["harmonic {", "  name b%d" % v, "  colvars v%d" % v, "  centers (1.0, 0.0, 0.0, 0.0)", "  forceConstant %r" % r.uniform(0.5, 3.0), "}"])
    steps = []
    p = [list(q) for q in pos]
    for t in range(r.randint(3, 4)):
        for q in p:
            for j in range(3):
                q[j] += r.uniform(-0.2, 0.2)
        steps.append([list(q) for q in p])
    return {"id": k, "natoms": natoms, "vars": vars_, "biases": biases, "steps": steps, "files": files}


def lcase_config(c, mode):
    L = [] if mode is None else ["smp %s" % mode]
    for x in c["vars"]:
        L += x["lines"]
    for b in c["biases"]:
        L += b
    return L


def lcase_scenario(c, mode, tag):
    """mode None: the reference (simulator in `smp serial`: no parallel region of any kind)"""
    L = ["natoms %d" % c["natoms"], "smp %s 1" % ("serial" if mode is None else "omp"), "new", "config EOF"] + lcase_config(c, mode) + ["EOF", "show items 0 af 1 tf 0"]
    for st in c["steps"]:
        for a, q in enumerate(st):
            L += ["pos %d %s %s %s" % (a + 1, V.hexf(q[0]), V.hexf(q[1]), V.hexf(q[2]))]
        L += ["step", "cvcvals"]
    L += ["save text %s_%d.state" % (tag, c["id"]), "endcase %d" % c["id"]]
    return L


def omp_modes_part(run, r, sim, cases, d, modes=None, threads=None):
    for c in cases:
        for fn, txt in c["files"].items():
            open(os.path.join(d, fn), "w").write(txt)
    def runall(mode, nt, tag):
        scen = []
        for c in cases:
            scen += lcase_scenario(c, mode, tag)
        rc, out, err = run_batch(sim, scen, d, {"OMP_NUM_THREADS": str(nt), "OMP_DYNAMIC": "false", "OMP_SCHEDULE": "static"}, timeout=600)
        return split_cases(out), rc, err
    ref, rc0, e0 = runall(None, 1, "Lref")
    usable = []
    for c in cases:
        ls = ref.get(c["id"])
        for x in c["vars"]:
            run.dist("L:var " + x["kind"])
        if ls is None:
            run.violation("harness:incomplete", "reference run of L scenario %d did not complete (rc=%d): %s" % (c["id"], rc0, e0[-300:]),
                          {"kind": "lcase", "case": c, "mode": None, "threads": 1})
            continue
        cfg = [l for l in ls if l.startswith("CONFIG")]
        if not cfg or "err=ok" not in cfg[0] or any(l.startswith("STEP") and "err=ok" not in l for l in ls):
            run.dist("L:config rejected or error step (skipped): " + ",".join(x["kind"] for x in c["vars"]))
            continue
        usable.append(c)
    nrun = 0
    for mode in (modes or LMODES):
        for nt in (threads or LTHREADS):
            got, rc, err = runall(mode, nt, "L%s%d" % (mode, nt))
            nrun += 1
            for c in usable:
                ls = got.get(c["id"])
                rep = {"kind": "lcase", "case": c, "mode": mode, "threads": nt}
                if ls is None:
                    run.violation("harness:incomplete", "L scenario %d did not complete under smp %s with %d threads (rc=%d): %s" % (c["id"], mode, nt, rc, err[-300:]), rep)
                    continue
                kinds = ",".join(sorted(set(x["kind"] for x in c["vars"])))
                run.count("L%d:%s:%d:%s" % (c["id"], mode, nt, kinds), nontrivial=nt > 1 and mode != "off")
                df = first_diff(strip_items(ls), strip_items(ref[c["id"]]))
                if df:
                    t = step_of_line(strip_items(ls), df[0])
                    culprit = ""
                    for x, y in zip(strip_items(ls), strip_items(ref[c["id"]])):
                        w = x.split()
                        if x != y and w and w[0] in ("CV", "CVC") and len(w) > 1 and w[1].startswith("v"):
                            culprit = c["vars"][int(w[1][1:])]["kind"]
                            break
                    run.violation("threads-vs-serial:%s%s" % (mode, (":" + culprit) if culprit else ""),
                                  "step %d: `%s` with configuration keyword `smp %s` and OMP_NUM_THREADS=%d, but `%s` in the serial single-thread run "
                                  "(components: %s); the last bits depend on the thread count; config:\n%s" % (
                                      t, df[1][:200], mode, nt, df[2][:200], kinds, "\n".join(lcase_config(c, mode))[:1500]), rep)
                    continue
                sa = os.path.join(d, "L%s%d_%d.state" % (mode, nt, c["id"]))
                sb = os.path.join(d, "Lref_%d.state" % c["id"])
                if os.path.exists(sa) and os.path.exists(sb) and open(sa, "rb").read() != open(sb, "rb").read():
                    run.violation("threads-vs-serial:%s:state" % mode, "state file written under `smp %s` with %d threads differs from the serial single-thread one (components: %s)" % (mode, nt, kinds), rep)
    run.dist("L:mode x thread-count runs", nrun)
    run.cov["correspondence"]["l_scenarios"] = len(usable)
    if usable:
        run.sample({"L_config": lcase_config(usable[0], "inner_loop")[:30], "modes": modes or LMODES, "threads": threads or LTHREADS})
    for f in os.listdir(d):
        if f.startswith("L") and (f.endswith(".state") or f.endswith(".xyz") or f.endswith(".state.old")):
            os.remove(os.path.join(d, f))


# ------------------------------------------------------------------------------------------------
# log indentation (C12_log_depth_refuted): a component that logs while it is evaluated on a worker thread
# ------------------------------------------------------------------------------------------------
def depth_scenario(smp, logf):
    L = ["natoms 8", "smp %s 2" % smp, "perm 0 1", "assign 0 1", "new", "log %s" % logf, "config EOF"]
    for v in range(2):
        L += ["colvar {", "  name d%d" % v, "  distance {", "    debugGradients on", "    group1 { atomNumbers %d %d }" % (4 * v + 1, 4 * v + 2),
              "    group2 { atomNumbers %d %d }" % (4 * v + 3, 4 * v + 4), "  }", "}"]
    L += ["EOF"]
    for v in range(2):
        L += ["pos %d 0 0 0" % (4 * v + 1), "pos %d 1 0 0" % (4 * v + 2), "pos %d 0 2 0" % (4 * v + 3), "pos %d 0 2 3" % (4 * v + 4)]
    L += ["step", "endcase 0"]
    return L


def depth_part(run, sim, d):
    """messages logged by components while they are evaluated inside the library's own OpenMP smp_loop (two items, two
    threads: item 1 runs on thread 1) and inside the std::thread executor must be indented as in the serial run"""
    res = {}
    for smp in ("serial", "omp", "perm"):
        lf = os.path.join(d, "depth_%s.log" % smp)
        if os.path.exists(lf):
            os.remove(lf)
        V.run_lines(sim, depth_scenario(smp, lf), cwd=d, env={"OMP_NUM_THREADS": "2", "OMP_SCHEDULE": "static", "OMP_DYNAMIC": "false"})
        txt = open(lf).read() if os.path.exists(lf) else ""
        # the messages of the step only (after the configuration was read), non-empty lines
        txt = txt[txt.rfind("Collective variables module (re)initialized"):] if "Collective variables module (re)initialized" in txt else txt
        res[smp] = sorted((len(l) - len(l.lstrip(" ")), l.strip()) for l in txt.split("\n") if "radient" in l or "dx" in l)
    run.dist("depth:scenarios", 3)
    a = res["serial"]
    if not a:
        run.notes.append("log-depth scenario produced no component messages")
        return
    run.count("depth-scenario", True)
    for smp in ("omp", "perm"):
        b = res[smp]
        if sorted(t for _, t in a) != sorted(t for _, t in b):
            run.notes.append("log-depth scenario: different message texts under %s (%d vs %d lines); indentation not compared" % (smp, len(b), len(a)))
            continue
        if a != b:
            ia, ib = sorted(set(i for i, _ in a)), sorted(set(i for i, _ in b))
            sig = "log-depth:worker-thread-indentation" if smp == "omp" else "log-depth:executor"
            run.violation(sig, "debugGradients messages of two components evaluated under smp %s with 2 threads are indented by %s spaces, serially by %s spaces "
                          "(messages of the item that ran on thread 1 are indented one level less)" % (smp, ib, ia),
                          {"kind": "depth", "scenario": depth_scenario(smp, "depth.log")})


# ------------------------------------------------------------------------------------------------
# error bits: set_error_bits from several threads at once vs the model's OR-accumulation
# ------------------------------------------------------------------------------------------------
ERR_CODES = [1 << 1, 1 << 2, 1 << 3, 1 << 4, 1 << 5, 1 << 6, 1 << 7, 1 << 8]


def errbits_lines(r, n):
    out = []
    for _ in range(n):
        k = r.randint(1, 6)
        codes = []
        for _ in range(k):
            c = 0
            for b in r.sample(ERR_CODES, r.randint(1, 3)):
                c |= b
            codes.append(c)
        out.append("errbits " + " ".join(map(str, codes)))
    return out


def errbits_part(run, r, model, sim, d, n):
    lines = errbits_lines(r, n)
    scen = ["natoms 1", "smp perm 2", "new"] + lines + ["endcase 0"]
    rc, out, err = run_batch(sim, scen, d)
    got = [l for l in out if l.startswith("ERRBITS")]
    rcm, mout, em = V.run_lines(model, ["ERRBITS " + l.split(" ", 1)[1] for l in lines])
    for k, l in enumerate(lines):
        run.count(l, True)
        run.dist("errbits:cases")
        codes = [int(t) for t in l.split()[1:]]
        want = 1
        for c in codes:
            want |= c
        g = got[k] if k < len(got) else "<none>"
        if g != "ERRBITS %d" % want:
            run.violation("error-bits:lost-update", "set_error_bits(%s) from %d concurrent threads left the error word %s, the OR of the codes (with COLVARS_ERROR) is %d" % (
                codes, len(codes), g, want), {"kind": "errbits", "line": l})
        m = mout[k] if k < len(mout) else "<none>"
        if m != g:
            run.mismatch("error-bits", l, g, m)


# ------------------------------------------------------------------------------------------------
# ThreadSanitizer exploration (thorough tier): std::thread executor only
# ------------------------------------------------------------------------------------------------
def tsan_part(run, r, tcases, rcases, d):
    try:
        sim = V.build_prog("c12sim_tsan", PROGS["c12sim"], variant="tsan")
    except V.InfraError as e:
        run.notes.append("TSan build unavailable: %s" % str(e)[-200:])
        return
    env = {"TSAN_OPTIONS": "halt_on_error=0 report_signal_unsafe=0 exitcode=0 history_size=4", "OMP_NUM_THREADS": "1"}
    nrep = 0
    jobs = []
    for c in tcases:
        if c["smp"] == "perm":
            c2 = dict(c); c2["steps"] = [dict(st, nt=max(2, st["nt"])) for st in c["steps"]]
            jobs.append((c2, tcase_scenario(c2, "perm"), "tcase"))
    for c in rcases:
        if c["smp"] == "perm":
            c2 = dict(c); c2["steps"] = [dict(st, nt=max(2, st["nt"])) for st in c["steps"]]
            jobs.append((c2, rcase_scenario(c2, "perm", "T%d" % c["id"]), "rcase"))
    # two components that create rotation objects while they are evaluated (debugGradients) on two threads
    jobs.append(({"debug-gradients-two-threads": True}, [l for l in depth_scenario("perm", "x") if not l.startswith("log ")], "scenario"))
    jobs.append(({"errbits": True}, ["natoms 1", "smp perm 2", "new"] + errbits_lines(r, 6) + ["endcase 0"], "errbits"))
    for c, scen, kind in jobs:
        rc, out, err = run_batch(sim, scen, d, env, timeout=600)
        run.dist("tsan:scenarios")
        if "ThreadSanitizer: data race" not in err:
            continue
        # keep reports with a frame inside the library sources
        for rep in err.split("WARNING: ThreadSanitizer: data race")[1:]:
            frames = re.findall(r"#\d+ (\S+) .*?(\S+\.(?:cpp|h)):(\d+)", rep)
            lib = [f for f in frames if os.path.join(V.REPO, "src") in f[1] or "/src/colvar" in f[1]]
            if not lib:
                continue
            nrep += 1
            fn = lib[0][0]
            run.violation("tsan:%s" % re.sub(r"[^A-Za-z0-9_:]", "_", fn)[:60],
                          "ThreadSanitizer (std::thread executor) reports a data race in %s (%s:%s) [exploration: a failing schedule, not a proof obligation]; report:\n%s" % (
                              fn, os.path.basename(lib[0][1]), lib[0][2], rep[:1500]),
                          {"kind": kind, "case": c, "tsan": True, "scenario": scen if kind in ("errbits", "scenario") else None})
            break
    run.cov["correspondence"]["tsan_scenarios"] = len(jobs)
    run.cov["correspondence"]["tsan_reports_in_library"] = nrep


# ------------------------------------------------------------------------------------------------
# OPES threaded kernel sums (exploration, thorough tier): the only inner parallel loops in the library are in
# colvarbias_opes.cpp, compiled only with -DOPES_THREADING (never defined by the normal build) and active under
# `smp inner_loop`.  Build that variant when it compiles and run the thread-count oracle on it.
# ------------------------------------------------------------------------------------------------
def opes_scenario(r, smp_key):
    L = ["natoms 8", "temperature 300", "dt 1", "smp %s 1" % ("serial" if smp_key is None else "omp"), "new", "config EOF"]
    if smp_key:
        L += ["smp %s" % smp_key]
    for v in range(2):
        L += ["colvar {", "  name v%d" % v, "  lowerBoundary 0", "  upperBoundary 20", "  width 0.5", "  distance {",
              "    group1 { atomNumbers %d %d }" % (4 * v + 1, 4 * v + 2), "    group2 { atomNumbers %d %d }" % (4 * v + 3, 4 * v + 4), "  }", "}"]
    L += ["opes_metad {", "  name o", "  colvars v0 v1", "  newHillFrequency 1", "  barrier 10.0", "  gaussianSigma 0.3 0.3", "  compressionThreshold 0", "}",
          "EOF", "show af 1"]
    rr = V.rng("C12opes")
    pos = [[rr.uniform(-4, 4) for _ in range(3)] for _ in range(8)]
    for t in range(40):
        for a in range(8):
            for q in range(3):
                pos[a][q] += rr.uniform(-0.3, 0.3)
            L.append("pos %d %s %s %s" % (a + 1, V.hexf(pos[a][0]), V.hexf(pos[a][1]), V.hexf(pos[a][2])))
        L.append("step")
    return L + ["endcase 0"]


def opes_threading_part(run, r, d):
    V.CXX_VARIANTS.setdefault("opesthr", ["-O1", "-g0", "-DOPES_THREADING"])
    try:
        sim = V.build_prog("c12sim_opesthr", PROGS["c12sim"], variant="opesthr")
    except V.InfraError as e:
        run.notes.append("OPES_THREADING variant does not build from this tree (exploration skipped): %s" % str(e).strip().split("\n")[-1][:200])
        run.dist("opes-threading: variant does not compile")
        return
    ref = V.run_lines(sim, opes_scenario(r, None), cwd=d, env={"OMP_NUM_THREADS": "1"})[1]
    if not any(l.startswith("CONFIG err=ok") for l in ref):
        run.notes.append("OPES scenario rejected by the OPES_THREADING variant")
        return
    for nt in (1, 2, 4):
        out = V.run_lines(sim, opes_scenario(r, "inner_loop"), cwd=d, env={"OMP_NUM_THREADS": str(nt), "OMP_DYNAMIC": "false"})[1]
        run.count("opes-threading:%d" % nt, nt > 1)
        run.dist("opes-threading: runs")
        df = first_diff(out, ref)
        if df:
            run.violation("opes-threading:thread-count-dependent-sums",
                          "library built with -DOPES_THREADING, opes_metad on two distances, `smp inner_loop`, OMP_NUM_THREADS=%d: step %d prints `%s`, the serial run `%s`" % (
                              nt, step_of_line(out, df[0]), df[1], df[2]), {"kind": "opes", "threads": nt, "scenario": opes_scenario(r, "inner_loop")})
            break


# ------------------------------------------------------------------------------------------------
# footprints derived from the implementation -> coq/Gen/GenFootC12.v (regenerated-table theorems)
# ------------------------------------------------------------------------------------------------
def coq_z(x):
    return "(%d)%%Z" % x


def coq_list(items):
    return "[" + "; ".join(items) + "]"


def coq_loc(tok):
    w = tok.split(":")
    return "(" + " ".join(w) + ")" if len(w) > 1 else w[0]


def coq_fp(reads, writes):
    return "(%s, %s)" % (coq_list([coq_loc(t) for t in reads]), coq_list([coq_loc(t) for t in writes]))


def probe_scenario(c):
    L = tcase_scenario(c, "perm")[:-1]
    atom = 0
    for zs in c["steps"][-1]["z"]:
        for z in zs:
            atom += 1
            L.append("pos %d 0 0 %d" % (atom, z + 1000 + 7 * atom))
    return L + ["footprints", "endcase %d" % c["id"]]


def has_error_step(c):
    # (also excluded as probes: a scripted force of exactly 0 - the task then writes nothing observable)
    if c["use_script"] and any(f == 0 for _, f in c["script"]):
        return True
    return any(len(f) == len(c["vars"][v]["coeff"]) and not any(f) for st in c["steps"] for v, f in st["flags"])


def parse_fp_line(l):
    """FP <kind> <label> [NOTREPEATABLE] W=.. R=.. WS=..  ->  (kind, reads, writes incl. those that rewrite the same value)"""
    w = l.split()
    kind = "bias" if w[1] == "script" else w[1]
    body = l.split(" W=", 1)[1]
    W = [t for t in body.split(" R=")[0].split(",") if t]
    rest = body.split(" R=", 1)[1]
    R = [t for t in rest.split(" WS=")[0].split(",") if t]
    WS = [t for t in rest.split(" WS=", 1)[1].split(",") if t] if " WS=" in rest else []
    return kind, R, W + [t for t in WS if t not in W]


def model_vocab(fp):
    """the part of a derived footprint inside the model's location vocabulary (the names outside start with X)"""
    return ([t for t in fp[0] if not t.startswith("X")], [t for t in fp[1] if not t.startswith("X")])


def derive_footprints(sim, cases, d):
    """-> list of (case, t, flags per variable, comp fps, collect fps, bias fps) derived from the binary"""
    cases = [c for c in cases if not has_error_step(c)]
    scen = []
    for c in cases:
        scen += probe_scenario(c)
    rc, out, err = run_batch(sim, scen, d)
    by = split_cases(out)
    res = []
    for c in cases:
        ls = by.get(c["id"])
        if ls is None or "FPEND" not in ls:
            res.append((c, None, None, None, None, None))
            continue
        cfg, steps = parse_steps(ls)
        last = steps[-1]
        flags = [[last["cvc"][("v%d" % v, i)][0] for i in range(len(x["coeff"]))] for v, x in enumerate(c["vars"])]
        fps = {"comp": [], "collect": [], "bias": []}
        for l in ls:
            if l.startswith("FP "):
                kind, R, W = parse_fp_line(l)
                fps[kind].append((R, W))
        res.append((c, len(c["steps"]) - 1, flags, fps["comp"], fps["collect"], fps["bias"]))
    return res


def rich_probe_scenario(c, tag):
    L = rcase_scenario(c, "perm", tag)
    L = L[:[i for i, l in enumerate(L) if l.startswith("save ")][0]]
    rr = V.rng("C12probe%d" % c["id"])
    for a, q in enumerate(c["steps"][-1]["pos"]):
        L.append("pos %d %r %r %r" % (a + 1, q[0] + rr.uniform(0.3, 0.6), q[1] - rr.uniform(0.3, 0.6), q[2] + rr.uniform(0.3, 0.6)))
    return L + ["footprints", "endcase %d" % c["id"]]


def derive_rich_footprints(sim, cases, d):
    """footprints of the work items of configurations OUTSIDE the model (other component / bias kinds): only their
    independence is checked.  -> list of (case, comp fps, collect fps, bias fps, number of non-repeatable items)"""
    res = []
    for c in cases:
        tag = "P%d" % c["id"]
        open(os.path.join(d, tag + ".registry.txt"), "w").close()
        rc, out, err = run_batch(sim, rich_probe_scenario(c, tag), d, timeout=300)
        if "FPEND" not in out or not any(l.startswith("CONFIG err=ok") for l in out):
            continue
        fps = {"comp": [], "collect": [], "bias": []}
        nrep = 0
        for l in out:
            if l.startswith("FP "):
                kind, R, W = parse_fp_line(l)
                w = l.split()
                if w[1] == "bias" and w[2].isdigit() and int(w[2]) < len(c["biases"]):
                    b = c["biases"][int(w[2])]
                    stateless = b["kind"] in ("harmonic", "walls", "linear") and not any("targetCenters" in x for x in b["lines"])
                    if not stateless and "NOTREPEATABLE" not in l and "RESTORED" not in l:
                        # a bias with private state (hills, samples, moving centres): the perturbation probe cannot tell what it reads
                        R = []
                        nrep += 1
                if "NOTREPEATABLE" in l:
                    nrep += 1
                fps[kind].append((R, W))
        res.append((c, fps["comp"], fps["collect"], fps["bias"], nrep))
        for f in os.listdir(d):
            if f.startswith(tag + "."):
                os.remove(os.path.join(d, f))
    return res


def write_gen_footprints(derived, rich=()):
    L = ["(* GENERATED by props/C12/check.py from the rebuilt binary (c12sim `footprints`); do not edit. *)",
         "From Coq Require Import ZArith List Bool.", "From CV Require Import C12.SmpModel.", "Import ListNotations.", "",
         "Definition gen_probes : list probe := ["]
    rows = []
    for c, t, flags, comp, coll, bias in derived:
        if t is None:
            continue
        vs = coq_list(["mkVar %d %s [] %s %s" % (x["tsf"], coq_list(["true" if f else "false" for f in flags[v]]), coq_list([coq_z(q) for q in x["coeff"]]),
                                             coq_list([str(q) for q in x.get("exp", [])])) + (" true" if x.get("scripted") else " false")
                       for v, x in enumerate(c["vars"])])
        bs = coq_list(["mkBias %d %s %s %s" % (x["tsf"], coq_list([str(v) for v in x["vars"]]), coq_z(x["k"]), coq_list([coq_z(q) for q in x["centers"]]))
                       for x in c["biases"]])
        sc = coq_list(["(%d, %s)" % (v, coq_z(f)) for v, f in c["script"]])
        cfg = "(mkCfg %s %s %s %s %s)" % (vs, bs, "true" if c["use_script"] else "false", "true" if c["after"] else "false", sc)
        rows.append("  mkProbe %s %d\n    %s\n    %s\n    %s" % (cfg, t, coq_list([coq_fp(*model_vocab(f)) for f in comp]), coq_list([coq_fp(*model_vocab(f)) for f in coll]),
                                                                  coq_list([coq_fp(*model_vocab(f)) for f in bias])))
    L.append(";\n".join(rows))
    L.append("].")
    L += ["", "(* configurations outside the model (other component and bias kinds): derived footprints only *)",
          "Definition gen_rich_probes : list probe := ["]
    rrows = []
    for c, comp, coll, bias, nrep in rich:
        rrows.append("  mkProbe (mkCfg [] [] false false []) 0\n    %s\n    %s\n    %s" % (
            coq_list([coq_fp(*model_vocab(f)) for f in comp]), coq_list([coq_fp(*model_vocab(f)) for f in coll]), coq_list([coq_fp(*model_vocab(f)) for f in bias])))
    L.append(";\n".join(rrows))
    L.append("].")
    txt = "\n".join(L) + "\n"
    p = os.path.join(V.COQ, "Gen", "GenFootC12.v")
    os.makedirs(os.path.dirname(p), exist_ok=True)
    if not os.path.exists(p) or open(p).read() != txt:
        open(p, "w").write(txt)
    return len(rows)


def foot_model_line(c, t, flags):
    P = ["FOOT", str(t), str(len(c["vars"]))]
    for v, x in enumerate(c["vars"]):
        P += [str(x["tsf"]), str(len(x["coeff"]))] + [str(int(f)) for f in flags[v]] + [str(q) for q in x["coeff"]] + [str(q) for q in x.get("exp", [1] * len(x["coeff"]))] + ["1" if x.get("scripted") else "0"]
    P += [str(len(c["biases"]))]
    for x in c["biases"]:
        P += [str(x["tsf"]), str(len(x["vars"]))] + [str(v) for v in x["vars"]] + [str(x["k"])] + [str(q) for q in x["centers"]]
    P += ["1" if c["use_script"] else "0", "1" if c["after"] else "0", str(len(c["script"]))]
    for v, f in c["script"]:
        P += [str(v), str(f)]
    return " ".join(P)


def parse_foot(line):
    out = {}
    for part in line.split(" ; "):
        kind, _, rest = part.strip().partition(" ")
        fps = []
        for item in rest.split(" | "):
            item = item.strip()
            if not item:
                continue
            R = [t for t in item.split("R=")[1].split(" W=")[0].split(",") if t]
            W = [t for t in item.split(" W=")[1].split(",") if t]
            fps.append((R, W))
        out[kind] = fps
    return out


def fp_indep(a, b):
    return not (set(a[1]) & set(b[1])) and not (set(a[1]) & set(b[0])) and not (set(b[1]) & set(a[0]))


def footprint_oracle(run, model, derived, rich):
    """the comparisons of the regenerated-table theorems, redone in python so that a failure names the probe, the item and the
    locations (the probe scenario is the concrete failing input)"""
    ok = [x for x in derived if x[1] is not None]
    rcm, mout, em = V.run_lines(model, [foot_model_line(c, t, flags) for c, t, flags, _, _, _ in ok])
    for k, (c, t, flags, comp, coll, bias) in enumerate(ok):
        m = parse_foot(mout[k]) if k < len(mout) else {}
        for kind, got in (("COMP", comp), ("COLLECT", coll), ("BIAS", bias)):
            want = m.get(kind, [])
            bad = None
            if len(got) != len(want):
                bad = "%d items derived, %d in the model" % (len(got), len(want))
            else:
                for i, (g, w_) in enumerate(zip([model_vocab(f) for f in got], want)):
                    if set(g[0]) != set(w_[0]) or set(g[1]) != set(w_[1]):
                        bad = "item %d reads %s writes %s in the implementation; the model's table has reads %s writes %s" % (
                            i, sorted(g[0]), sorted(g[1]), sorted(w_[0]), sorted(w_[1]))
                        break
            if bad:
                run.violation("footprints:derived-differs-from-model:" + kind.lower(),
                              "footprints derived from the binary (item run alone / one location perturbed at a time) differ from the model's footprint table, %s loop: %s; config:\n%s" % (
                                  kind.lower(), bad, "\n".join(tcase_config(c))), {"kind": "footprint", "scenario": probe_scenario(c)})
    # candidate races over the WIDENED vocabulary (model locations + cached group centres / rotations, further members of the
    # variables, module statics, proxy force array): a location touched by two items of one loop, at least one of them writing
    # it - also when the value written is the one it already had
    allc = [(c, comp, coll, bias, 0, probe_scenario(c), tcase_config(c)) for c, t, flags, comp, coll, bias in ok] + \
           [(c, comp, coll, bias, nrep, rich_probe_scenario(c, "P%d" % c["id"]), rcase_config(c)) for c, comp, coll, bias, nrep in rich]
    nloc = set()
    for c, comp, coll, bias, nrep, scen, conf in allc:
        for kind, l in (("comp", comp), ("bias", bias), ("collect", coll)):
            for f in l:
                nloc.update(t.split(":")[0] for t in f[0] + f[1])
    run.dist("footprints: location classes reached by the probes", len(nloc))
    run.cov["correspondence"]["footprint_location_classes"] = sorted(nloc)
    for c, comp, coll, bias, nrep, scen, conf in allc:
        for kind, l in (("comp", comp), ("bias", bias), ("collect", coll)):
            for i in range(len(l)):
                for j in range(i + 1, len(l)):
                    if not fp_indep(l[i], l[j]):
                        shared = sorted((set(l[i][1]) & set(l[j][0] + l[j][1])) | (set(l[j][1]) & set(l[i][0] + l[i][1])))
                        outside = all(t.startswith("X") for t in shared)
                        run.violation(("footprints:candidate-race:" if outside else "footprints:items-not-independent:") + kind + (":" + shared[0].split(":")[0] if outside else ""),
                                      "two items of the %s loop touch the same location(s) %s (derived from the binary; at least one of them writes, possibly the value it already had): "
                                      "item %d reads %s writes %s, item %d reads %s writes %s; config:\n%s" % (
                                          kind, shared, i, l[i][0], l[i][1], j, l[j][0], l[j][1], "\n".join(conf)),
                                      {"kind": "footprint", "scenario": scen})


BIAS_KINDS = [
    ("KHarmonic", ["harmonic {", "  name b", "  colvars v0", "  centers 1.0", "  forceConstant 2.0", "}"]),
    ("KWalls", ["harmonicWalls {", "  name b", "  colvars v0", "  lowerWalls 1.0", "  upperWalls 5.0", "  forceConstant 2.0", "}"]),
    ("KLinear", ["linear {", "  name b", "  colvars v0", "  centers 1.0", "  forceConstant 0.5", "}"]),
    ("KHistogram", ["histogram {", "  name b", "  colvars v0", "}"]),
    ("KAbmd", ["abmd {", "  name b", "  colvars v0", "  forceConstant 1.0", "  stoppingValue 5.0", "}"]),
    ("KAlb", ["alb {", "  name b", "  colvars v0", "  centers 2.0", "  updateFrequency 4", "}"]),
    ("KOpes", ["opes_metad {", "  name b", "  colvars v0", "  newHillFrequency 2", "  barrier 10.0", "  gaussianSigma 0.3", "}"]),
    ("(KMeta false 0)", ["metadynamics {", "  name b", "  colvars v0", "  hillWeight 0.25", "  hillWidth 2.0", "  newHillFrequency 2", "}"]),
    ("(KMeta true 1)", ["metadynamics {", "  name b", "  colvars v0", "  hillWeight 0.25", "  hillWidth 2.0", "  newHillFrequency 2",
                        "  multipleReplicas on", "  replicaID rep1", "  replicasRegistry K.registry.txt", "  replicaUpdateFrequency 1", "}"]),
    ("(KMeta true 3)", ["metadynamics {", "  name b", "  colvars v0", "  hillWeight 0.25", "  hillWidth 2.0", "  newHillFrequency 2",
                        "  multipleReplicas on", "  replicaID rep1", "  replicasRegistry K.registry.txt", "  replicaUpdateFrequency 3", "}"]),
    ("(KAbf 0)", ["abf {", "  name b", "  colvars v0", "  fullSamples 2", "  historyFreq 0", "}"]),
    ("(KAbf 4)", ["abf {", "  name b", "  colvars v0", "  fullSamples 2", "  historyFreq 0", "  shared on", "  sharedFreq 4", "  outputFreq 8", "}"]),
]


def derive_bias_kinds(sim, d):
    """for every bias kind the simulator can configure: (Coq term of the kind, replica_share_freq() printed by the binary,
    whether the module called the parallel bias loop with that bias alone under smp cvcs)"""
    rows = []
    for term, blk in BIAS_KINDS:
        open(os.path.join(d, "K.registry.txt"), "w").close()
        scen = ["natoms 4", "temperature 300", "prefix K", "smp perm 2", "new", "config EOF", "colvar {", "  name v0", "  lowerBoundary 0.0", "  upperBoundary 16.0",
                "  width 0.5", "  distance {", "    group1 { atomNumbers 1 2 }", "    group2 { atomNumbers 3 4 }", "  }", "}"] + blk + \
               ["EOF", "setupoutput", "show items 1", "sharefreq", "pos 1 0 0 0", "pos 2 1 0 0", "pos 3 0 2 0", "pos 4 0 2 3", "step", "endcase 0"]
        rc, out, err = run_batch(sim, scen, d, timeout=120)
        sf = [l.split() for l in out if l.startswith("SHAREFREQ")]
        if not any(l.startswith("CONFIG err=ok") for l in out) or len(sf) != 1 or not any(l.startswith("STEP") for l in out):
            rows.append((term, None, None, [l for l in out if l.startswith("CONFIG")]))
            continue
        rows.append((term, int(sf[0][3]), any(l.startswith("BITEMS") for l in out), sf[0][2]))
        for f in os.listdir(d):
            if f.startswith("K."):
                os.remove(os.path.join(d, f))
    return rows


def write_gen_bias_kinds(rows):
    L = ["(* GENERATED by props/C12/check.py from the rebuilt binary (c12sim `sharefreq`, observed bias loop); do not edit. *)",
         "From Coq Require Import List Bool.", "From CV Require Import C12.SmpModel.", "Import ListNotations.", "",
         "Definition gen_bias_kinds : list (bias_kind * nat * bool) := ["]
    L.append(";\n".join("  (%s, %d, %s)" % (t, f, "true" if par else "false") for t, f, par, _ in rows if f is not None))
    L.append("].")
    txt = "\n".join(L) + "\n"
    p = os.path.join(V.COQ, "Gen", "GenBiasC12.v")
    os.makedirs(os.path.dirname(p), exist_ok=True)
    if not os.path.exists(p) or open(p).read() != txt:
        open(p, "w").write(txt)


def probe_cases(r_cases):
    return witness_tcases() + load_corpus() + [c for c in r_cases if not has_error_step(c)][:8]


def presetup():
    """before the Coq build: coq/Gen/GenFootC12.v from the freshly built binary"""
    sim = V.build_prog("c12sim", PROGS["c12sim"])
    r = V.rng("C12")
    d = V.scratch("C12p")
    tcs = [gen_tcase(r, k) for k in range(12)]
    write_gen_footprints(derive_footprints(sim, probe_cases(tcs), d), derive_rich_footprints(sim, [gen_rcase(r, k) for k in range(4)], d))
    write_gen_bias_kinds(derive_bias_kinds(sim, d))
    V.coq_project()


# ------------------------------------------------------------------------------------------------
def witness_tcases():
    """the configuration of the refuted item-list statement (kept as SmpProofs.unfixed_items_refuted): a variable
    with three components, cvcflags "0 1 1" """
    z0, z1 = [[1, 2, 4]], [[8, 16, 32]]
    perm = list(range(NPERM))
    c = {"id": 100000, "vars": [{"tsf": 1, "coeff": [1, 1, 1]}], "biases": [{"tsf": 1, "vars": [0], "k": 2, "centers": [0]}],
         "use_script": False, "after": False, "script": [],
         "steps": [{"flags": [], "z": z0, "perm": perm, "nt": 1, "assign": []},
                   {"flags": [(0, [0, 1, 1])], "z": z1, "perm": perm, "nt": 2, "assign": []}], "smp": "perm"}
    return [c]


def error_step_witness():
    """SmpProofs.error_step_paths_differ: two variables, `cvcflags 0` on the first: serially the second keeps its old value"""
    perm = list(range(NPERM))
    return {"id": 100010, "vars": [{"tsf": 1, "coeff": [1]}, {"tsf": 1, "coeff": [1]}], "biases": [], "use_script": False, "after": False, "script": [],
            "steps": [{"flags": [], "z": [[101], [102]], "perm": perm, "nt": 1, "assign": []},
                      {"flags": [(0, [0])], "z": [[201], [202]], "perm": perm, "nt": 2, "assign": []}], "smp": "perm"}


def gen_alternating(r, k):
    """variables with different timeStepFactor (2 and 3, sometimes a third with 1): the SET of active variables changes while the
    NUMBER of work items often stays the same (steps 2 -> 3, 8 -> 9): the item list must be rebuilt from the active set at every step"""
    c = gen_tcase(r, k)
    nc = r.choice([1, 1, 2])
    vars_ = [{"tsf": 2, "coeff": [r.choice([1, 2, -1]) for _ in range(nc)]}, {"tsf": 3, "coeff": [r.choice([1, 2, -1]) for _ in range(nc)]}]
    if r.random() < 0.4:
        vars_.append({"tsf": 1, "coeff": [1]})
    biases = [{"tsf": x["tsf"], "vars": [v], "k": r.randint(1, 3), "centers": [r.randint(-2, 2)]} for v, x in enumerate(vars_)]
    steps = []
    for t in range(r.randint(7, 10)):
        perm = list(range(NPERM))
        r.shuffle(perm)
        nt = r.choice([1, 2, 3])
        steps.append({"flags": [], "z": [[100 * (t + 1) + r.randint(-40, 40) for _ in x["coeff"]] for x in vars_], "perm": perm, "nt": nt, "assign": []})
    c.update({"vars": vars_, "biases": biases, "use_script": False, "after": False, "script": [], "steps": steps})
    return c


def load_corpus():
    out = []
    cp = os.path.join(V.ROOT, "corpus", "C12_cases.txt")
    if os.path.exists(cp):
        for l in open(cp):
            l = l.strip()
            if l and not l.startswith("#"):
                c = json.loads(l)
                for st in c["steps"]:
                    st["flags"] = [(v, f) for v, f in st["flags"]]
                c["script"] = [(v, f) for v, f in c["script"]]
                out.append(c)
    return out


def setup():
    presetup()
    V.extract_model("C12", EXTRACT, DRIVER, [])
    V.build_prog("c12sim", PROGS["c12sim"])
    try:
        V.build_prog("c12sim_tsan", PROGS["c12sim"], variant="tsan")
    except V.InfraError:
        pass


def check(run):
    r = V.rng("C12")
    quick = run.tier == "quick"
    run.cov["rule"] = ("T cases (inside the model): 1-4 variables, each a linear combination (integer componentCoeff) of 1-4 exact distanceZ "
                       "components with integer coordinates, timeStepFactor 1-3, harmonic biases (integer k and centres, timeStepFactor multiples), "
                       "scripted-force task (before or after the biases), cvcflags commands between steps (a disabled component before an enabled one "
                       "in ~1/3 of them, wrong lengths, all-off as an error step), 3-7 steps; every step runs under a fresh random permutation of the "
                       "items, 1-8 threads and a random or round-robin thread assignment (std::thread executor), or under OpenMP; each scenario also "
                       "runs under smp serial. R cases (implementation only): 2-4 variables of 12 kinds (distance, 2-3 component combinations, angle, "
                       "dihedral, gyration, coordNum, rmsd, distanceVec, distanceZ, extended Lagrangian with 1-2 components), 1-4 biases of 7 kinds (harmonic incl. moving, "
                       "harmonicWalls, linear, metadynamics with/without grids, histogram, abf), scripted forces, cvcflags; outputs, state and trajectory "
                       "files compared byte for byte with the serial run. L cases (implementation only): each of 24 component kinds (rmsd, gyration, inertia, "
                       "coordNum, eigenvector, orientation family, distancePairs, distanceInv, distances, angles, cartesian, gspath/gzpath/aspath/azpath) with "
                       "groups of 12-24 atoms and non-dyadic coordinates, under every SMP mode of the library (smp off|cvcs|inner_loop) x OMP_NUM_THREADS "
                       "in {1,2,3,4,8}, bitwise vs the serial single-thread run. distinct = distinct configuration (L: x mode x thread count); non-trivial = >=2 variables or a cvcflags "
                       "command, and a bias (T); >=2 biases or a multi-component variable (R)")
    run.assumptions += [
        "PARTIAL: absence of data races in the C++ is not a theorem; it is explored with ThreadSanitizer on the std::thread executor (thorough tier) and by bitwise serial-vs-schedule comparison",
        "the disjointness of the REAL footprints (which fields each C++ work item touches) is the hand-written footprint table of SmpModel.v section 5, tied only through observable values",
        "an execution is modelled as an interleaving of atomic items; finer-grained interleavings of the real threads are covered by the footprint argument, not by a theorem about the C++ memory model",
    ]
    d = V.scratch("C12")
    gen = [gen_alternating(r, k) if k % 8 == 3 else gen_tcase(r, k) for k in range(200 if quick else 4000)]
    rc = [gen_rcase(r, k) for k in range(50 if quick else 1200)]
    # every bias kind paired with a restraint whose energy varies (P cases)
    pk = sorted(PAIR_KINDS)
    pairs = [gen_pair_case(r, k, pk[k % len(pk)]) for k in range(len(pk) if quick else 6 * len(pk))]
    # footprints derived from the rebuilt binary -> coq/Gen/GenFootC12.v, BEFORE the proofs are checked
    derived, rich = [], []
    try:
        sim0 = V.build_prog("c12sim", PROGS["c12sim"])
        derived = derive_footprints(sim0, probe_cases(gen), d)
        rich = derive_rich_footprints(sim0, rc[:6 if quick else 60] + pairs[:len(pk)], d)
        nprobe = write_gen_footprints(derived, rich)
        kinds = derive_bias_kinds(sim0, d)
        write_gen_bias_kinds(kinds)
        # python re-statement of the model's table, so that a difference names the kind
        for term, f, par, typ in kinds:
            run.dist("bias kinds: share frequency read from the binary")
            if f is None:
                run.mismatch("bias-kinds", term, typ, "configuration accepted")
                continue
            m = re.match(r"\(KMeta true (\d+)\)|\(KAbf (\d+)\)", term)
            want = int(m.group(1) or m.group(2)) if m else 0
            if f != want or par != (want == 0):
                run.violation("bias-loop:main-thread-decision:" + typ,
                              "bias kind %s (%s): replica_share_freq() = %d and the parallel bias loop was %s; the model's table has %d / %s" % (
                                  term, typ, f, "taken" if par else "not taken", want, "taken" if want == 0 else "not taken"), {"kind": "biaskind", "term": term})
        run.dist("footprints: rich probes (independence only)", len(rich))
        run.dist("footprints: rich items probed", sum(len(x[1]) + len(x[2]) + len(x[3]) for x in rich))
        run.dist("footprints: rich items that do not repeat (writes only)", sum(x[4] for x in rich))
        run.cov["correspondence"]["footprint_probes"] = nprobe
        run.dist("footprints: probes derived from the binary", nprobe)
        run.dist("footprints: items probed", sum(len(x[3]) + len(x[4]) + len(x[5]) for x in derived if x[1] is not None))
        for x in derived:
            if x[1] is None:
                run.mismatch("footprints", {"case": x[0]}, "the footprint probe did not complete", "FPEND")
    except V.InfraError as e:
        if "compilation of /repo failed" in str(e):
            raise
        run.notes.append("footprint derivation unavailable: %s" % str(e)[-200:])
    st = V.standard_start(run, [PROP, PROP_GEN], EXTRACT, DRIVER, PROGS, extra_ml=())
    if st is None:
        return
    model, exes = st
    sim = exes["c12sim"]
    footprint_oracle(run, model, derived, rich)
    if getattr(run, "broken_theorems", []) and derived:
        # name the first probe whose derived footprints differ from the model's table (python re-check of the same comparison)
        for c, t, flags, comp, coll, bias in derived:
            if t is not None:
                run.sample({"footprint_probe_config": tcase_config(c), "derived_comp": comp[:4], "derived_bias": bias[:4]})
                break

    # witness of the (repaired) item-list defect and corpus first, then generated cases
    tc = witness_tcases() + [error_step_witness()] + load_corpus() + gen
    B = 200
    for b0 in range(0, len(tc), B):
        tie_part(run, r, model, sim, tc[b0:b0 + B], d)
    rich_part(run, r, sim, rc, d)
    # every bias kind paired with a restraint whose energy varies: random schedules vs serial, and the first-vs-last differential
    for c in pairs:
        run.dist("P:pair " + c["pair_kind"])
    rich_part(run, r, sim, pairs, d)
    # several scripted variables (single script interpreter of the engine): callbacks on the main thread only, values as in the serial run
    scases = [gen_script_case(r, k) for k in range(4 if quick else 40)]
    run.dist("S:scripted-variable scenarios", len(scases))
    rich_part(run, r, sim, scases, d)
    order_differential(run, sim, pairs + rc[:4 if quick else 40], d)
    # the library's own OpenMP modes x thread counts: every component kind once (round robin), then random mixtures
    lc = [gen_lcase(r, k, kinds=[sorted(set(LKINDS))[k % len(set(LKINDS))]]) for k in range(len(set(LKINDS)))]
    lc += [gen_lcase(r, 1000 + k) for k in range(6 if quick else 300)]
    omp_modes_part(run, r, sim, lc, d)
    depth_part(run, sim, d)
    errbits_part(run, r, model, sim, d, 40 if quick else 400)
    run.cov["correspondence"].update({"t_scenarios": len(tc), "r_scenarios": len(rc)})
    # ThreadSanitizer with the std::thread executor: a few scenarios in the quick tier, more in the thorough tier
    def with_threads(c):
        return dict(c, steps=[dict(st, nt=max(2, st["nt"]), assign=[]) for st in c["steps"]])
    if quick:
        tsan_part(run, r, tc[:8], rc[:5] + [with_threads(c) for c in pairs if c["pair_kind"] in ("opes", "abf")], d)
    else:
        tsan_part(run, r, tc[:120], rc[:150] + [with_threads(c) for c in pairs], d)
        opes_threading_part(run, r, d)


def replay(path):
    j = json.load(open(path))
    rp = j["replay"]
    print(json.dumps({k: v for k, v in j.items() if k != "replay"}, indent=1)[:2500])
    sim = V.build_prog("c12sim", PROGS["c12sim"])
    d = V.scratch("C12r")
    if rp.get("kind") == "tcase":
        c = rp["case"]
        c["script"] = [tuple(x) for x in c["script"]]
        for st in c["steps"]:
            st["flags"] = [tuple(x) for x in st["flags"]]
        model = V.extract_model("C12", EXTRACT, DRIVER, [])
        for smp in (c["smp"], "serial"):
            print("---- implementation, smp %s" % smp)
            print("\n".join(V.run_lines(sim, tcase_scenario(c, smp), cwd=d)[1]))
        print("---- model (smp)   :", V.run_lines(model, [tcase_model_line(c, "smp")])[1])
        print("---- model (serial):", V.run_lines(model, [tcase_model_line(c, "serial")])[1])
        print("---- scenario:\n" + "\n".join(tcase_scenario(c, c["smp"])))
    elif rp.get("kind") == "rcase":
        c = rp["case"]
        c["script"] = [tuple(x) for x in c["script"]]
        for st in c["steps"]:
            st["flags"] = [tuple(x) for x in st["flags"]]
        a = V.run_lines(sim, rcase_scenario(c, c["smp"], "A"), cwd=d)[1]
        b = V.run_lines(sim, rcase_scenario(c, "serial", "B"), cwd=d)[1]
        print("first difference (schedule vs serial):", first_diff(strip_items(a), strip_items(b)))
        print("---- scenario:\n" + "\n".join(rcase_scenario(c, c["smp"], "A")))
    elif rp.get("kind") == "lcase":
        c = rp["case"]
        for fn, txt in c["files"].items():
            open(os.path.join(d, fn), "w").write(txt)
        envs = lambda nt: {"OMP_NUM_THREADS": str(nt), "OMP_DYNAMIC": "false", "OMP_SCHEDULE": "static"}
        a = V.run_lines(sim, lcase_scenario(c, rp["mode"], "A"), cwd=d, env=envs(rp["threads"]))[1]
        b = V.run_lines(sim, lcase_scenario(c, None, "B"), cwd=d, env=envs(1))[1]
        print("smp %s, OMP_NUM_THREADS=%s vs serial single thread; first difference:" % (rp["mode"], rp["threads"]), first_diff(strip_items(a), strip_items(b)))
        print("---- scenario (run with OMP_NUM_THREADS=%s):\n" % rp["threads"] + "\n".join(lcase_scenario(c, rp["mode"], "A")))
    elif rp.get("kind") == "footprint":
        for f in ("P.registry.txt",):
            open(os.path.join(d, f), "w").close()
        print("\n".join(l for l in V.run_lines(sim, rp["scenario"], cwd=d)[1] if l.startswith("FP") or l.startswith("CONFIG")))
        print("---- scenario:\n" + "\n".join(rp["scenario"]))
    elif rp.get("kind") == "opes":
        print("build the library with -DOPES_THREADING, run with OMP_NUM_THREADS=%s:\n" % rp["threads"] + "\n".join(rp["scenario"][:40]) + "\n...")
    elif rp.get("kind") == "scenario":
        print("\n".join(rp.get("scenario") or []))
    elif rp.get("kind") == "errbits":
        print(rp.get("line") or "\n".join(rp.get("scenario") or []))
    elif rp.get("kind") == "depth":
        print("\n".join(rp["scenario"]))
    else:
        print(json.dumps(rp, indent=1)[:3000])
    return 0
